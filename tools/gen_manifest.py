"""Regenerate MANIFEST.json from the rule registry (run after adding a property's rules)."""

import json
import os
import sys

HERE = os.path.dirname(os.path.abspath(__file__))
ROOT = os.path.dirname(HERE)
sys.path.insert(0, ROOT)

from ovldlint.rules import PROPS, rules_for  # noqa: E402

TEXT = json.load(open(os.path.join(HERE, "manifest_text.json")))

checks = []
na = []
for p in PROPS:
    rules = rules_for(p)
    t = TEXT.get(p, {})
    if rules is None or t.get("not_applicable"):
        na.append({"property_id": p, "reason": t.get("not_applicable") or "static rules for this property are not built yet (DESIGN.md section 4 lists the planned ones); not claimed until they exist"})
        continue
    checks.append(
        {
            "property_id": p,
            "quick_cmd": f"./check {p} quick",
            "thorough_cmd": f"./check {p} thorough",
            "evidence_file": f"/verif/evidence/{p}.json",
            "replay_cmd_template": "./check explain {path}",
            "engine": "ovldlint",
            "level_claimed": {
                "category": "other",
                "text": t.get("text", "structural necessary conditions of the property, decided on every path of the anchored functions"),
                "design_ref": f"DESIGN.md section 4, {p}",
            },
            "level_note": t.get("note", "Trusted: CPython's ast parser and the rule definitions. Decides the listed structural clauses only; the behaviour as a whole is undecided."),
            "technique": t.get("technique", "static analysis: repository-specific AST/CFG rules") + " [rules: " + ", ".join(sorted((r[0] for r in rules), key=lambda x: int(x.split("R")[1]))) + "]",
        }
    )

manifest = {
    "version": 1,
    "setup_cmd": "/venv/bin/python -c \"import ast,sys; [ast.parse(open(f).read()) for f in __import__('glob').glob('ovldlint/**/*.py', recursive=True)]\"",
    "hooks": {
        "guard": "OVLD_VERIF",
        "enable": "no hooks: the checks read /repo/src/ovld as it is; nothing in /repo is built or instrumented",
        "baseline_off_cmd": "cd /repo && /venv/bin/python -m pytest -ra -q -p no:cacheprovider --timeout=900 --continue-on-collection-errors",
        "source_commits": [],
        "add_only": True,
    },
    "engines": [
        {
            "name": "ovldlint",
            "path": "/verif/ovldlint",
            "serves_properties": [c["property_id"] for c in checks],
            "kind_free_text": "repository-specific static checker (stdlib ast only): source model with role-based anchors, statement CFG with dominance / must-reach queries, effect summaries, resolved call graph, template evaluator, and two interpreters over the package's source - a finite-domain one for Order-valued code and an abstract one (metainterp) that executes the code generators, the AST rewriter, the signature analyser and the table's resolution on symbolic inputs and then interprets what they generate; nothing of /repo is imported or run",
        }
    ],
    "checks": checks,
    "not_applicable": na,
    "notes": "Static analysis only. exit 0 = all obligations discharged (KNOWN-FINDING lines for listed genuine defects), exit 1 = VIOLATION, exit 2 = ANALYSIS-ERROR (an anchor vanished). Genuine defects repaired in /repo by unguarded 'fix:' commits are recorded in KNOWN_FINDINGS.txt as 'fixed:' lines.",
}
json.dump(manifest, open(os.path.join(ROOT, "MANIFEST.json"), "w"), indent=1)
print(f"{len(checks)} checks, {len(na)} not applicable")
