rm -rf /tmp/wt; mkdir -p /tmp/wt/prompts && cd /repo && git worktree prune && for i in ${PROPS:-01 03 06 07 08 09 10 11 14}; do git worktree add --detach /tmp/wt/C$i HEAD -q; done; for m in core typemap mro recode types dependent; do git worktree add --detach /tmp/wt/R_$m HEAD -q; done; git worktree list | wc -l; python3 - <<'E'
import json, os, glob
props = [json.loads(l) for l in open('/verif/properties.jsonl')]
prev = {}
for d in sorted(glob.glob('/verif/seeded/*/meta.json')):
    m = json.load(open(d))
    first = " ".join(m.get('needs','').split())[:150]
    prev.setdefault(m['property'], []).append(first)
for d in props:
    pid = d['id']; wt = f'/tmp/wt/{pid}'
    if not os.path.isdir(wt): continue
    avoid = "\n".join(f"  - {x}..." for x in prev.get(pid, []))
    text = f"""You are helping to evaluate a verification tool for the pure-Python multiple-dispatch library `ovld` (package source under `src/ovld/`: core.py, typemap.py, mro.py, recode.py, types.py, dependent.py, abc.py, utils.py).

You have your own scratch git worktree of the library at `{wt}`. Work ONLY inside `{wt}`. Do not read or write anything under /verif or /repo (that would spoil the experiment). To run Python against your worktree use `PYTHONPATH={wt}/src /venv/bin/python ...` (never run Python with the current directory set to `{wt}/src/ovld`: its types.py/abc.py shadow the standard library). The existing test suite is run with `cd {wt} && PYTHONPATH={wt}/src /venv/bin/python -m pytest -q -p no:cacheprovider` and gives `143 passed` (7 tests always fail or error in this sandbox because `codefind` is missing: test_conform, test_conform_2, test_display, test_display_more, test_doc, test_doc2, test_method_doc - ignore those; the count that matters is 143 passed). Some tests depend on set iteration order: if a result looks flaky, re-run with a few values of PYTHONHASHSEED and only keep mutations under which the suite passes for all of them.

Here is a behavioural property that the library is supposed to satisfy:

PROPERTY {pid}: {d['title']}
{d['statement']}
(It must hold {d['quantifier']['text']}.)

YOUR TASK: produce THREE different, independent small changes (mutations) to the library source under `{wt}/src/ovld/` such that each one
  (a) BREAKS the property above (introduces a real behavioural defect that a user relying on the property would eventually hit),
  (b) still imports/compiles and still leaves the existing test suite at `143 passed` (none of the currently passing tests may start failing),
  (c) needs something specific to manifest - a particular multi-step sequence of operations, an unusual input or call shape, a particular interleaving / failure point, or two cooperating sites that each look fine alone - rather than something ordinary use would expose at once.
Prefer realistic defects of the kind a maintainer could introduce by accident during a refactor, a clean-up or an 'optimisation'; subtle is better than blunt. A good way to be subtle: make the change look like a behaviour-preserving restructuring (a helper extracted, a condition rewritten, a loop turned into a comprehension, a value hoisted into a local, a guard moved) that is ALMOST equivalent - equivalent on everything the tests exercise but not on some corner. The three changes should touch different mechanisms (different functions) if possible. Read the source carefully first to find where the property is actually implemented - it usually rests on several cooperating places; look for the less obvious ones.

Three earlier rounds already produced the following mutations for this property; do NOT repeat them or trivial variations of them - find different mechanisms or different places:
{avoid or '  (none)'}

For EACH of the three mutations (number them 1, 2, 3):
  1. start from a clean worktree (`git -C {wt} checkout -- .`), apply the change, run the test suite and confirm 143 passed;
  2. write a small standalone demonstration program `{wt}/_out/demo<N>.py` which, run as `PYTHONPATH=<some src dir> /venv/bin/python demo<N>.py`, exits with status 1 (printing what went wrong) when run against the mutated source and exits 0 when run against the original source. It must import the library through PYTHONPATH only (no hard-coded sys.path), and it must be deterministic (if the defect depends on hash seeds or thread timing, make the demo drive it deterministically or loop until it is certain). Verify both directions yourself (mutated: exit 1; after `git checkout -- .`: exit 0);
  3. save the change as `{wt}/_out/patch<N>.diff` (output of `git -C {wt} diff` with the change applied; it must apply with `git apply` on a clean tree);
  4. write `{wt}/_out/note<N>.txt`: two or three sentences - which function you changed, why the property breaks, and what is needed for the defect to manifest.
Finish with a clean worktree (`git -C {wt} checkout -- .`) but keep the `_out` directory. In your final answer, list for each mutation: the file/function changed, a one-line description, and the verified results (tests: 143 passed; demo on mutated source: exit 1; demo on original: exit 0). If you cannot find three, deliver as many as you can verify; do not deliver anything you have not verified. If, while exploring, you notice that the ORIGINAL source already violates the property for some input, say so briefly at the end (with the exact input and what happens), but do not use it in a demo.
"""
    open(f'/tmp/wt/prompts/{pid}.txt','w').write(text)
mods = {
 'core':('src/ovld/core.py', 'Ovld.unregister, Ovld._update, Ovld.add_mixins, Ovld.register_signature, Ovld.compile (the part that copies the generated entry point onto the live one), Ovld.resolve, Ovld.next, Ovld.__call__, Ovld.rename and its callers, Ovld.lock / _lock_parents / _attempt_modify, Ovld.copy / variant, Ovld.defns, to_ovld, is_ovld, Signature.extract, ArgumentAnalyzer, ovld_cls_dict.__setitem__, OvldMC.__prepare__'),
 'typemap':('src/ovld/typemap.py', 'TypeMap.register / __missing__, Candidate, MultiTypeMap.__init__, mro (every part of it), register, wrap_dependent, resolve, __missing__ (both branches), display_resolution'),
 'mro':('src/ovld/mro.py', 'Order (opposite, merge), TypeRelationship, typeorder (every branch), subclasscheck (every branch), sort_types'),
 'recode':('src/ovld/recode.py', 'instantiate_code, generate_dispatch, generate_dependent_dispatch, Conformer, rename_code / rename_function, NameConverter, _search_names, adapt_function, closure_wrap, recode (source reading, parsing, line offsets, compile, choice of the code object, closure cells, the globals planted at the end)'),
 'types':('src/ovld/types.py', 'TypeNormalizer (__call__, register_generic, the union / tuple handlers), MetaMC (__eq__, __hash__, the protocol forwarders), SingleFunctionHandler, class_check / parametrized_class_check, Union and Intersection (every method), Deferred, Exactly, StrictSubclass, HasMethod, Dataclass'),
 'dependent':('src/ovld/dependent.py, src/ovld/abc.py and src/ovld/utils.py', 'CodeGen / combine / generate_checking_code, is_dependent, DependentType (every method), ParametrizedDependentType (__init__, __eq__, __hash__, with_bound, __str__), FuncDependentType (__lt__, check), dependent_check, Equals (default_bound, check, __eq__, __hash__, keygen, get_keys, codegen), ProductType, Regexp / StartsWith / EndsWith / HasKey, the normaliser handlers in abc.py, NameDatabase (gensym, register, __getitem__), subtler_type, keyword_decorator'),
}
for m, (f, focus) in mods.items():
    wt = f'/tmp/wt/R_{m}'
    text = f"""You are helping to evaluate a static verification tool for the pure-Python multiple-dispatch library `ovld` (package source under `src/ovld/`). The tool must not raise false alarms on behaviour-preserving code changes, so we need a corpus of realistic REFACTORINGS.

You have your own scratch git worktree of the library at `{wt}`. Work ONLY inside `{wt}`. Do not read or write anything under /verif or /repo. To run Python against your worktree use `PYTHONPATH={wt}/src /venv/bin/python ...` (never run Python with the current directory set to `{wt}/src/ovld`). The test suite is run with `cd {wt} && PYTHONPATH={wt}/src /venv/bin/python -m pytest -q -p no:cacheprovider` and gives `143 passed` (7 tests always fail or error in this sandbox because `codefind` is missing - ignore those).

YOUR TASK: produce TEN different, independent, BEHAVIOUR-PRESERVING refactorings of `{f}`, of the kind a maintainer makes in ordinary work. Each must leave the observable behaviour of the library exactly unchanged for every input (not just for the tests): same results, same exceptions (type and circumstances), same caching behaviour, same order of evaluation of user-visible hooks, same generated code semantics. Use a wide variety of refactoring kinds across the ten, for example:
  - rename local variables / parameters of internal functions / private attributes (and their every use, also in other modules) consistently;
  - extract a private helper function or method (or inline one); move a nested function to module level or the reverse; turn a method that does not use self into a staticmethod or a module function;
  - restructure control flow equivalently (if/elif chain <-> early returns / continue, de Morgan, chained comparison <-> two comparisons, loop <-> comprehension, `any(...)` <-> flag loop with break, for/else <-> flag, try/except KeyError <-> `in` test / `.get` where truly equivalent, dict comprehension <-> loop, in-place filter <-> rebuilt container);
  - reorder statements that are independent of each other; hoist a repeated attribute read (`x.y.z`) into a local, or the reverse;
  - replace an expression by an equivalent one (`list(map(f, xs))` <-> comprehension, `d.setdefault` <-> explicit test, `dict(...)` <-> literal, `len(x) == 0` <-> `not x` where x is a list, `a if c else b` <-> if statement);
  - change how a string template / generated code is written (f-string <-> `.format` <-> `%` <-> concatenation <-> list of lines joined) without changing the produced text;
  - introduce a small local data structure (named tuple / dataclass / dict / tuple) to carry values that were separate locals, or split one;
  - replace several similar statements by a loop over a tuple of names (or the reverse) where the effect is identical;
  - add type hints, docstrings, comments, asserts that cannot fail, `__slots__`-free private counters nothing reads.
  - reuse a value that is computed twice within one call (a local, or a helper returning a tuple), turn a property into a method + property pair, replace `x if c else y` inside a call by an if statement around two calls, replace positional arguments by keyword arguments in internal calls (or the reverse), pass a generator/`filter`/`map` where a list was built only to be iterated once;
Concentrate on the functions with real logic, in particular: {focus}. Each of the ten should touch a different function (or a different aspect of a big one), and at least seven of them should be genuine restructurings rather than renames. Do not change public names or anything importable from outside the package.

For EACH refactoring (number them 1..10):
  1. start from a clean worktree (`git -C {wt} checkout -- .`), apply the change, run the test suite and confirm 143 passed;
  2. convince yourself (by reading, and by ad-hoc experiments comparing against the original on inputs the tests do not cover) that behaviour is unchanged;
  3. save the change as `{wt}/_out/patch<N>.diff` (output of `git -C {wt} diff`; it must apply with `git apply` on a clean tree);
  4. write `{wt}/_out/note<N>.txt`: one or two sentences saying what was refactored and why behaviour is unchanged.
Finish with a clean worktree (`git -C {wt} checkout -- .`) but keep the `_out` directory. In your final answer list the ten refactorings (function, kind of refactoring) and the test result for each.
"""
    open(f'/tmp/wt/prompts/R_{m}.txt','w').write(text)
print(len(os.listdir('/tmp/wt/prompts')))
E