exec(open('/tmp/mk_twins2.py').read().split("prep('C14g-3')")[0])

prep('C15h-3')
edit('src/ovld/dependent.py', '''    params = inspect.signature(fn.check if is_class else fn).parameters
    bound = normalize_type(list(params.values())[is_class].annotation, fn)
''', '''    carrier = fn.check if is_class else fn
    params = inspect.signature(carrier).parameters
    bound = normalize_type(list(params.values())[is_class].annotation, carrier)
''')
finish('R8_own-1', 'dependent_check reads the bound once for both forms and normalises it in the context of the function that carries the annotation (twin of C15h-3, which passed the class)')

prep('C16h-1')
edit('src/ovld/core.py', '                if self in mixin.children:\n                    pending.append(mixin)', '                if node in mixin.children:\n                    pending.append(mixin)')
finish('R8_own-2', '_lock_parents as a work list, each linked edge tested against the node it leaves (twin of C16h-1, which tested every edge against the starting function)')

prep()
edit('src/ovld/core.py', '''        def _set(sig, fn):
            if sig in self._defns:
                # Push down the existing handler with a lower tiebreak
                msig = replace(sig, tiebreak=sig.tiebreak - 1)
                _set(msig, self._defns[sig])
            self._defns[sig] = fn

        _set(sig, fn)
''', '''        # Push down the contiguous chain of handlers for this signature,
        # each one slot lower, starting from the lowest
        chain = []
        cur = sig
        while cur in self._defns:
            chain.append(cur)
            cur = replace(cur, tiebreak=cur.tiebreak - 1)
        for s in reversed(chain):
            self._defns[replace(s, tiebreak=s.tiebreak - 1)] = self._defns[s]
        self._defns[sig] = fn
''')
finish('R8_own-3', '_register pushes the contiguous chain down in a loop, lowest first (twin of C05h-1, which copied every same-signature entry and duplicated the one below a hole)')

prep('C18h-3')
edit('src/ovld/core.py', '''        locked, self._locked = self._locked, True
        for key, fn in list(self.defns.items()):
            self.register_signature(key, fn)
        self._locked = locked
''', '''        locked, self._locked = self._locked, True
        try:
            for key, fn in list(self.defns.items()):
                self.register_signature(key, fn)
        finally:
            self._locked = locked
''')
finish('R8_own-4', 'the build locks the function while it files the methods and unlocks it in a finally (twin of C18h-3, which had no finally)')

prep('C17h-2')
s=open('/tmp/sc/src/ovld/recode.py').read()
assert 'posargs[npos + len(slf):]' in s or 'posargs[npos + len(slf) :]' in s, 'pattern'
s=s.replace('posargs[npos + len(slf) :]','posargs[npos:]').replace('posargs[npos + len(slf):]','posargs[npos:]')
open('/tmp/sc/src/ovld/recode.py','w').write(s)
finish('R8_own-5', 'generate_dispatch keeps self in a list of its own and slices the keyword tail without the extra slot (twin of C17h-2, which still skipped one element for self)')
