exec(open('/tmp/mk_twins2.py').read().split("prep('C14g-3')")[0])

prep()
edit('src/ovld/typemap.py', '''        self.all[obj_t_tup] = {
            getattr(c.handler, "__code__", None) for c in candidates
        }''', '''        self.all[obj_t_tup] = set(
            map(lambda c: getattr(c.handler, "__code__", None), candidates)
        )''')
finish('R7_own-33', 'the set of candidate code objects is built with set(map(..)) (twin of C04c-1, which stored a one-shot filter object)')

prep()
edit('src/ovld/recode.py', '''        for name in co.co_names:
            if any(glb.get(name, None) is v for v in values):
                yield name
        else:
            for ct in co.co_consts:
                yield from _search_names(ct, values, glb)''', '''        names = [
            name
            for name in co.co_names
            if any(glb.get(name, None) is v for v in values)
        ]
        yield from names
        for ct in co.co_consts:
            yield from _search_names(ct, values, glb)''')
finish('R7_own-34', '_search_names collects the global names in a list, yields them, then descends into the constants (twin of C09c-2)')

prep()
edit('src/ovld/dependent.py', '''    if isinstance(t, DependentType):
        return True
    elif any(is_dependent(subt) for subt in get_args(t)):
        return True
    return False''', '''    return isinstance(t, DependentType) or any(
        is_dependent(subt) for subt in get_args(t)
    )''')
finish('R7_own-35', 'is_dependent as one boolean expression, still recursive (twin of C10c-3, which looked one level deep)')

prep()
edit('src/ovld/recode.py', '''    for name in spr + spo:
        if name in spr:
            args.append(name)
        else:
            args.append(f"{name}=MISSING")
        posargs.append(name)
        lookup.append(f"{lookup_for(i)}({name})")
        i += 1
''', '''    for i, name in enumerate(spr + spo):
        if name in spr:
            args.append(name)
        else:
            args.append(f"{name}=MISSING")
        posargs.append(name)
        lookup.append(f"{lookup_for(i)}({name})")
''')
edit('src/ovld/recode.py', '''    for name in pr + po:
        if name in pr:
            args.append(name)
        else:
            args.append(f"{name}=MISSING")
        posargs.append(name)
        lookup.append(f"{lookup_for(i)}({name})")
        i += 1
''', '''    nstrict = len(spr) + len(spo)
    for i, name in enumerate(pr + po, nstrict):
        if name in pr:
            args.append(name)
        else:
            args.append(f"{name}=MISSING")
        posargs.append(name)
        lookup.append(f"{lookup_for(i)}({name})")
''')
edit('src/ovld/recode.py', '    npos = i\n', '    npos = nstrict + len(pr) + len(po)\n')
edit('src/ovld/recode.py', '    i = 0\n    ndb = NameDatabase(default_name="INJECT")', '    ndb = NameDatabase(default_name="INJECT")')
finish('R7_own-36', 'generate_dispatch numbers the positions with enumerate, the second loop starting after the strictly positional ones (twin of C13c-1, which restarted at zero)')

prep()
edit('src/ovld/core.py', '''        self.complex_transforms.update(
            arg.canonical for arg in sig.arginfo if arg.is_complex
        )
        for arg in sig.arginfo:
''', '''        for arg in sig.arginfo:
            if arg.is_complex:
                self.complex_transforms.add(arg.canonical)
''')
finish('R7_own-37', 'complex transforms collected in the same loop as the positions (twin of C14c-2)')

prep()
edit('src/ovld/core.py', '        self._defns = {sig: f for sig, f in self._defns.items() if f is not fn}', '''        kept = {}
        for sig, f in self._defns.items():
            if f is not fn:
                kept[sig] = f
        self._defns = kept''')
finish('R7_own-38', 'unregister builds the kept table in a loop and rebinds it (twin of C18c-2 / C16c-3)')

prep()
edit('src/ovld/typemap.py', '''        self.dependent[handler] = any(
            is_dependent(t[1] if isinstance(t, tuple) else t) for t in obj_t_tup
        )''', '''        declared = [t[1] if isinstance(t, tuple) else t for t in obj_t_tup]
        self.dependent[handler] = any(map(is_dependent, declared))''')
finish('R7_own-39', 'register strips the keyword names first, then asks is_dependent (twin of C11c-1, which asked about the (name, type) pairs)')

prep()
edit('src/ovld/typemap.py', '        return self.priority, sum(self.specificity), self.tiebreak', '        total = 0\n        for s in self.specificity:\n            total += s\n        return (self.priority, total, self.tiebreak)')
finish('R7_own-40', 'Candidate.sort_key sums in a loop (twin of C07c-2, which reordered the key)')
