exec(open('/tmp/mk_twins2.py').read().split("prep('C14g-3')")[0])

prep()
edit('src/ovld/recode.py', '''    mv = ndb.gensym(desired_name="method")
    kwv = ndb.gensym(desired_name="KWARGS")
    tv = ndb.gensym(desired_name="TARGS")
''', '''    # (after the parameter names are registered, so that they are avoided)
    mv, kwv, tv = [
        ndb.gensym(desired_name=wanted)
        for wanted in ("method", "KWARGS", "TARGS")
    ]
''')
finish('R9_own-1', 'generate_dispatch makes its three temporaries in one comprehension, still after the parameter names are registered (twin of C01i-2, which hoisted them above the registration)')

prep()
edit('src/ovld/recode.py', '''    def codegen(typ, arg):
        cg = generate_checking_code(typ)
        return cg.template.format(''', '''    checks = {}

    def codegen(typ, arg):
        # Several handlers of a group often share an annotation: its code is
        # generated once and instantiated for each argument
        if typ not in checks:
            checks[typ] = generate_checking_code(typ)
        cg = checks[typ]
        return cg.template.format(''')
finish('R9_own-2', 'the dependent generator keeps the CodeGen of a type and instantiates it per argument (twin of C01i-3, which kept the text with the first argument baked in)')

prep()
edit('src/ovld/types.py', '''        classes = self.types
        compare = [
            x for t in classes if (x := typeorder(t, other)) is not Order.NONE
        ]
        if not compare:
            return Order.NONE
        elif any(x is Order.MORE or x is Order.SAME for x in compare):
            return Order.MORE
        else:
            return Order.LESS''', '''        related = general = False
        for t in self.types:
            x = typeorder(t, other)
            if x is Order.NONE:
                continue
            related = True
            if x is Order.MORE or x is Order.SAME:
                general = True
        if not related:
            return Order.NONE
        return Order.MORE if general else Order.LESS''')
finish('R9_own-3', 'Union.__type_order__ against a plain type as a loop with two flags, no early exit (twin of C06i-1, which returned at the first comparable member)')

prep()
edit('src/ovld/mro.py', '''    if sx and sy:  # pragma: no cover
        # Not sure when t1 != t2 and that happens
        return Order.SAME
    elif sx:
        return Order.LESS
    elif sy:
        return Order.MORE
    else:
        return Order.NONE''', '''    if sx:
        # (mutual subclasses are the same)
        return Order.SAME if sy else Order.LESS
    if sy:
        return Order.MORE
    return Order.NONE''')
finish('R9_own-4', 'the issubclass tail of typeorder with nested conditionals, mutual subclasses still SAME (twin of C06i-3)')

prep()
edit('src/ovld/recode.py', '''        while keywords and self.analysis.name_to_positions.get(
            keywords[0].arg
        ) == {len(args)}:
            args.append(keywords.pop(0).value)

        if not cn and any(
            isinstance(pos, int)
            for kw in keywords
            for pos in self.analysis.name_to_positions.get(kw.arg, ())
        ):''', '''        positions = self.analysis.name_to_positions
        while keywords and positions.get(keywords[0].arg) == {len(args)}:
            args.append(keywords.pop(0).value)

        if not cn and any(
            isinstance(pos, int)
            for kw in keywords
            for pos in positions.get(kw.arg, ())
        ):''')
finish('R9_own-5', 'visit_Call reads the position table through a local, the guard still covers every remaining keyword (twin of C08i-3, which looked at the first one only)')

prep()
edit('src/ovld/recode.py', '''        outer, self.in_iterable = self.in_iterable, True
        node.iter = self.visit(node.iter)
        self.in_iterable = outer
''', '''        outer = self.in_iterable
        self.in_iterable = True
        try:
            node.iter = self.visit(node.iter)
        finally:
            self.in_iterable = outer
''')
finish('R9_own-6', 'visit_comprehension restores the outer flag in a finally (twin of C09i-1 / C08i-2, which reset it to False)')

prep()
edit('src/ovld/recode.py', '                    if len(keyed) != sum(map(len, all_keys)):', '                    n_keys = 0\n                    for ks in all_keys:\n                        n_keys += len(ks)\n                    if len(keyed) != n_keys:')
finish('R9_own-7', 'the overlap test of Literal keys counts the keys in a loop (twin of C11i-1, which counted the methods)')

prep()
edit('src/ovld/dependent.py', '''        if isinstance(other, DependentType):
            return False
        elif subclasscheck(other, self.bound):
            return True
        else:
            return False''', '''        return not isinstance(other, DependentType) and bool(
            subclasscheck(other, self.bound)
        )''')
finish('R9_own-8', 'DependentType.__is_supertype__ as one boolean expression over the subtype test (twin of C01i-1, which asked the order function)')

prep()
edit('src/ovld/typemap.py', '''            if dependent:
                nxt = self.wrap_dependent(
                    obj_t_tup, handlers, group, funcs[-1] if funcs else None
                )''', '''            following = funcs[-1] if funcs else None
            if dependent:
                nxt = self.wrap_dependent(obj_t_tup, handlers, group, following)''')
finish('R9_own-9', 'resolve names the rank below in a local computed at every iteration (twin of C10i-2, which refreshed it only after callable ranks)')
