exec(open('/tmp/mk_twins2.py').read().split("prep('C14g-3')")[0])

prep()
edit('src/ovld/typemap.py', '''            rval = [candidates[0]]
            c1 = candidates[0]
            for c2 in candidates[1:]:
                if c1.dominates(c2):
                    # Candidate 1 dominates candidate 2
                    continue
                else:
                    processed.add(c2.handler)
                    # Candidate 1 does not dominate candidate 2, so we add it
                    # to the list.
                    rval.append(c2)
            yield rval
            if len(rval) >= 1:
                yield from _pull(candidates[1:])
''', '''            c1, *others = candidates
            rval = [c1]
            for c2 in others:
                if not c1.dominates(c2):
                    processed.add(c2.handler)
                    # Candidate 1 does not dominate candidate 2, so we add it
                    # to the list.
                    rval.append(c2)
            yield rval
            # The head was emitted; the others that joined it are filtered
            # out by the processed set
            yield from _pull(others)
''')
finish('R7_own-5', '_pull unpacks head and rest, recurses on the rest (twin of C10g-3, which sliced by the group length)')

prep()
edit('src/ovld/dependent.py', '''            type(self) is type(other)
            and self.parameters == other.parameters
            and self.bound == other.bound''', '''            isinstance(other, ParametrizedDependentType)
            and self._identity() == other._identity()''')
edit('src/ovld/dependent.py', '        return hash(self.parameters) ^ hash(self.bound)', '        return hash(self._identity())')
edit('src/ovld/dependent.py', '    def __eq__(self, other):\n        return (\n            isinstance(other, ParametrizedDependentType)', '    def _identity(self):\n        return (type(self), self.parameters, self.bound)\n\n    def __eq__(self, other):\n        return (\n            isinstance(other, ParametrizedDependentType)')
finish('R7_own-6', 'ParametrizedDependentType equality and hash through one _identity() tuple that includes the bound (twin of C10g-2, which dropped the bound)')

prep()
edit('src/ovld/recode.py', '''                if any(cell.cell_contents is v for v in values):
                    yield varname
        for name in co.co_names:
            if any(glb.get(name, None) is v for v in values):
                yield name''', '''                if _is_one_of(cell.cell_contents, values):
                    yield varname
        for name in co.co_names:
            if name in glb and _is_one_of(glb[name], values):
                yield name''')
edit('src/ovld/recode.py', 'def _search_names(co, values, glb, closure=None):', 'def _is_one_of(x, values):\n    for v in values:\n        if v is x:\n            return True\n    return False\n\n\ndef _search_names(co, values, glb, closure=None):')
finish('R7_own-7', '_search_names compares by identity through a helper and tests key presence first (twin of C09g-3, which compared by equality)')

prep()
edit('src/ovld/recode.py', '''        else:
            for ct in co.co_consts:
                yield from _search_names(ct, values, glb)''', '''        nested = [ct for ct in co.co_consts if isinstance(ct, CodeType)]
        for ct in nested:
            yield from _search_names(ct, values, glb)''')
finish('R7_own-8', '_search_names filters the constants to code objects before recursing, drops the for-else (twin of C07g-2, which skipped nested code for closures)')

prep()
edit('src/ovld/recode.py', '        tree = ast.parse("if True:\\n" + src)', '        tree = ast.parse("while True:\\n" + src)')
finish('R7_own-9', 'indented source parsed as the body of a while block instead of an if block (twin of C09g-1, which dedented)')

prep()
edit('src/ovld/recode.py', '    map_mangled = f"___MAP{ovld.id}"', '    map_mangled = f"___MAP{ovld.id}_"\n    ovld_mangled += "_"')
finish('R7_own-10', 'mangled globals get a trailing underscore, still keyed on the serial number (twin of C07g-3, which keyed on the function name)')
