exec(open('/tmp/mk_twins2.py').read().split("prep('C14g-3')")[0])

prep()
edit('src/ovld/recode.py', '''        body.append(f"HANDLER = {ndb[keyed]}.get({keyexpr}, FALLTHROUGH)")
''', '''        body.append("try:")
        body.append(f"    HANDLER = {ndb[keyed]}[{keyexpr}]")
        body.append("except KeyError:")
        body.append("    HANDLER = FALLTHROUGH")
''')
finish('R7_own-20', 'keyed dispatch looks the handler up under try/except KeyError, the call stays outside the try (twin of C03e-1, which put the call inside)')

prep()
edit('src/ovld/core.py', '''        self.dispatch.__kwdefaults__ = dispatch.__kwdefaults__
        self.dispatch.__annotations__ = dispatch.__annotations__
        self.dispatch.__defaults__ = dispatch.__defaults__
''', '''        for attr in ("__kwdefaults__", "__annotations__", "__defaults__"):
            setattr(self.dispatch, attr, getattr(dispatch, attr))
''')
finish('R7_own-21', 'entry point attributes copied in a loop, unconditionally (twin of C03e-2, which skipped empty values)')

prep()
edit('src/ovld/core.py', '''        def _set(sig, fn):
            if sig in self._defns:
                # Push down the existing handler with a lower tiebreak
                msig = replace(sig, tiebreak=sig.tiebreak - 1)
                _set(msig, self._defns[sig])
            self._defns[sig] = fn
''', '''        defns = self._defns

        def _set(sig, fn):
            if sig in defns:
                # Push down the existing handler with a lower tiebreak
                msig = replace(sig, tiebreak=sig.tiebreak - 1)
                _set(msig, defns[sig])
            defns[sig] = fn
''')
finish('R7_own-22', '_register works on a local alias of its own table (twin of C07e-2, which aliased the merged view)')

prep()
edit('src/ovld/dependent.py', '        return p2g and not p1g', '        return p2g > 0 and p1g == 0')
finish('R7_own-23', 'ParametrizedDependentType.__lt__ compares the two counts with zero explicitly (twin of C10e-2, which compared them with each other)')

prep()
edit('src/ovld/recode.py', '            body.append(f"MATCH{i} = bool({conj})")', '            body.append(f"MATCH{i} = 1 if {conj} else 0")')
finish('R7_own-24', 'MATCHi is 1/0 through a conditional expression (twin of C10e-3, which dropped the truth-value conversion)')

prep()
edit('src/ovld/mro.py', '''        orders = set(orders)
        if orders == {Order.SAME}:
            return Order.SAME
        elif not (orders - {Order.LESS, Order.SAME}):
            return Order.LESS
        elif not (orders - {Order.MORE, Order.SAME}):
            return Order.MORE
        else:
            return Order.NONE''', '''        orders = set(orders)
        strict = orders - {Order.SAME}
        if orders and not strict:
            return Order.SAME
        elif strict == {Order.LESS} or not orders:
            return Order.LESS
        elif strict == {Order.MORE}:
            return Order.MORE
        else:
            return Order.NONE''')
finish('R7_own-25', 'Order.merge rewritten over the set of strict answers, empty input still LESS (twin of C14e-2)')

prep()
edit('src/ovld/dependent.py', '''    def mangle(self):
        renamings = {
            k: f"{{{k}__{next(_current)}}}" for k in self.substitutions
        }''', '''    def mangle(self, numbers=_current):
        renamings = {
            k: f"{{{k}__{next(numbers)}}}" for k in self.substitutions
        }''')
finish('R7_own-26', 'CodeGen.mangle takes the counter as a defaulted parameter (twin of C11e-1, which passed a suffix per combine)')
