exec(open('/tmp/mk_twins2.py').read().split("prep('C14g-3')")[0])

prep()
edit('src/ovld/typemap.py', '        self.empty = MISSING\n', '')
edit('src/ovld/typemap.py', '    def __init__(self, name="_ovld", key_error=KeyError):\n        self.maps = {}', '    # Default for a map that holds no method yet (immutable, safe to share)\n    empty = MISSING\n\n    def __init__(self, name="_ovld", key_error=KeyError):\n        self.maps = {}')
finish('R7_own-11', 'MultiTypeMap.empty gets a class-level immutable default, errors stays per object (twin of C04f-2, which also shared the errors dict)')

prep()
edit('src/ovld/types.py', '''            return _order_from(
                less=_each_below_some(self.types, other_handler.types),
                more=_each_below_some(other_handler.types, self.types),
            )''', '''            theirs = other_handler.types
            less = _each_below_some(self.types, theirs)
            more = _each_below_some(theirs, self.types)
            if less and more:
                return Order.SAME
            elif less:
                return Order.LESS
            elif more:
                return Order.MORE
            else:
                return Order.NONE''')
finish('R7_own-12', 'union-vs-union order spelled out as an if chain over both directions (twin of C12f-1, which stopped at the first direction)')

prep()
edit('src/ovld/types.py', '''    return TypeRelationship(
        order=Order.LESS if cls is base_cls else typeorder(base_cls, cls),
        supertype=cls is base_cls,
    )''', '''    exact = cls is base_cls
    if exact:
        order = Order.LESS
    else:
        order = typeorder(base_cls, cls)
    return TypeRelationship(order=order, supertype=exact)''')
finish('R7_own-13', 'Exactly computes exactness once and branches on it (twin of C12f-3 / C13f-3)')

prep()
edit('src/ovld/core.py', '''        mixins = [o for m in mixins if (o := to_ovld(m)) is not self]
        for mixin in mixins:
            if self.linkback:
                mixin.children.append(self)
        self.mixins += mixins
''', '''        for m in mixins:
            mixin = to_ovld(m)
            if mixin is self:
                continue
            if self.linkback:
                mixin.children.append(self)
            self.mixins.append(mixin)
''')
finish('R7_own-14', 'add_mixins in one loop, skipping only the function itself (twin of C17f-1, which also skipped mixins already present)')

prep()
edit('src/ovld/typemap.py', '''        candidates = [
            Candidate(
                handler=c,
                priority=self.priorities.get(c, 0),
                specificity=tuple(specificities[c]),
                tiebreak=self.tiebreaks.get(c, 0),
            )
            for c in candidates
        ]
''', '''        candidates = [self._candidate(c, specificities[c]) for c in candidates]
''')
edit('src/ovld/typemap.py', '    def register(self, sig, handler):\n        """Register a handler for a tuple', '''    def _candidate(self, handler, specificity):
        return Candidate(
            handler=handler,
            priority=self.priorities.get(handler, 0),
            specificity=tuple(specificity),
            tiebreak=self.tiebreaks.get(handler, 0),
        )

    def register(self, sig, handler):
        """Register a handler for a tuple''')
finish('R7_own-15', 'candidates built by a _candidate helper, fresh each resolution (twin of C19f-1, which kept them in a table)')

prep()
edit('src/ovld/recode.py', 'def generate_dependent_dispatch(tup, handlers, next_call, slf, name, err, nerr):', 'def generate_dependent_dispatch(\n    tup, handlers, next_call, slf, name, err, nerr, ndb=None\n):')
edit('src/ovld/recode.py', '    handlers = [(h, to_dict(types)) for h, types in handlers]\n    ndb = NameDatabase(default_name="INJECT")', '    handlers = [(h, to_dict(types)) for h, types in handlers]\n    if ndb is None:\n        ndb = NameDatabase(default_name="INJECT")')
finish('R7_own-16', 'generate_dependent_dispatch accepts an optional name database, the table passes none (twin of C19f-2, which shared one per table)')

prep()
edit('src/ovld/typemap.py', '''        self.clear()
        self.errors.clear()

''', '''        self.reset()

''')
edit('src/ovld/typemap.py', '    def register(self, sig, handler):\n        """Register a handler for a tuple', '''    def reset(self):
        """Forget what was resolved from the registered handlers."""
        self.clear()
        self.errors.clear()

    def register(self, sig, handler):
        """Register a handler for a tuple''')
finish('R7_own-17', 'MultiTypeMap.register clears through a reset() helper (twin of C20f-2 / C05f-2)')

prep()
edit('src/ovld/typemap.py', '''            self[real_tup]
            if obj_t_tup[0] not in self.all[real_tup]:''', '''            # Make sure the candidates for these types have been computed
            self.__getitem__(real_tup)
            if obj_t_tup[0] not in self.all[real_tup]:''')
finish('R7_own-18', '__missing__ forces the bare resolution through an explicit __getitem__ call (twin of C18f-2, which skipped it when the candidates were known)')

prep()
edit('src/ovld/mro.py', '''    if t2 in UnionTypes:
        return isinstance(t1, t2)

    o1 = get_origin(t1)
    o2 = get_origin(t2)
''', '''    if t2 in UnionTypes:
        return isinstance(t1, t2)

    o1 = get_origin(t1)
    o2 = get_origin(t2)

    if o1 is None and o2 is None:
        # Two unparametrized types, by far the most common case
        try:
            return issubclass(t1, t2)
        except TypeError:
            return False
''')
finish('R7_own-19', 'subclasscheck answers unparametrized pairs early, after the hooks (twin of C13f-2, which answered before the hooks)')
