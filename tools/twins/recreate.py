import subprocess, os, shutil, json, sys
def prep():
    shutil.rmtree('/tmp/sc', ignore_errors=True); os.makedirs('/tmp/sc')
    subprocess.run("cd /tmp/sc && git init -q . && cp -r /repo/src /repo/tests . && git add -A >/dev/null && git -c user.email=a@b -c user.name=x commit -qm base", shell=True, check=True)
P='/tmp/sc/src/ovld/recode.py'
def rd(): return open(P).read()
def wr(s): open(P,'w').write(s)
def edit(old, new, count=1):
    s=rd(); assert s.count(old)>=1, old[:80]; wr(s.replace(old,new,count))
def suite():
    out=subprocess.run("cd /tmp/sc && PYTHONPATH=/tmp/sc/src /venv/bin/python -m pytest -q -p no:cacheprovider 2>&1 | tail -1", shell=True, capture_output=True, text=True).stdout.strip()
    return out
def demo(path):
    return subprocess.run(f"PYTHONPATH=/tmp/sc/src /venv/bin/python {path}", shell=True, capture_output=True, text=True).returncode
def finish(kind, rid):
    out=suite(); assert '143 passed' in out, (rid, out)
    d=f'/verif/{kind}/{rid}'
    if kind=='seeded':
        rc=demo(d+'/demo.py'); assert rc==1, (rid,'demo with change',rc)
    else:
        rc=demo('/tmp/fx/demo41.py'); assert rc==0, (rid,'F41 demo',rc)
    subprocess.run(f"cd /tmp/sc && git diff > {d}/patch.diff", shell=True, check=True)
    m=json.load(open(d+'/meta.json'))
    m['recreated']='re-created by hand on /repo 2c11721 (same change; the fix of F41 rewrote the surrounding lines)'
    json.dump(m, open(d+'/meta.json','w'), indent=1)
    print(rid, out)

NESTED_HEAD='''        def _make_lookup_call(key, arg):
            name = (
                "__SUBTLER_TYPE"
                if self.analysis.lookup_for(key) is subtler_type
                else "__TYPE"
            )
            if by_lambda:
                value = ast.Name(id=f"{tmp}{key}", ctx=ast.Load())
            else:
                value = ast.NamedExpr(
                    target=ast.Name(id=f"{tmp}{key}", ctx=ast.Store()),
                    value=self.visit(arg),
                )
            func = ast.Name(id=name, ctx=ast.Load())
            return ast.Call(
                func=func,
                args=[value],
                keywords=[],
            )

'''
def lift(name, doc, ifstyle=False):
    """lift the nested helper into a method placed before visit_Call"""
    edit(NESTED_HEAD, '')
    edit('_make_lookup_call(i, arg) for i, arg in enumerate(args)', f'self.{name}(tmp, i, arg, by_lambda)\n            for i, arg in enumerate(args)')
    edit('                    _make_lookup_call(kw.arg, kw.value),', f'                    self.{name}(tmp, kw.arg, kw.value, by_lambda),')
    pick = '''        if self.analysis.lookup_for(key) is subtler_type:
            name = "__SUBTLER_TYPE"
        else:
            name = "__TYPE"
''' if ifstyle else '''        name = (
            "__SUBTLER_TYPE"
            if self.analysis.lookup_for(key) is subtler_type
            else "__TYPE"
        )
'''
    method=f'''    def {name}(self, tmp, key, arg, by_lambda):
        """{doc}"""
{pick}        if by_lambda:
            value = ast.Name(id=f"{{tmp}}{{key}}", ctx=ast.Load())
        else:
            value = ast.NamedExpr(
                target=ast.Name(id=f"{{tmp}}{{key}}", ctx=ast.Store()),
                value=self.visit(arg),
            )
        return ast.Call(
            func=ast.Name(id=name, ctx=ast.Load()),
            args=[value],
            keywords=[],
        )

'''
    edit('    def visit_Call(self, node):\n', method+'    def visit_Call(self, node):\n')

GUARDS='''        if not isinstance(node.func, ast.Name) or node.func.id not in (
            *self.recurse_syms,
            self.call_next_sym,
        ):
            return self.generic_visit(node)

        if any(isinstance(arg, ast.Starred) for arg in node.args) or any(
            kw.arg is None for kw in node.keywords
        ):
            return self.generic_visit(node)
'''
def extract_guard(name, doc):
    edit(GUARDS, f'        if not self.{name}(node):\n            return self.generic_visit(node)\n')
    method=f'''    def {name}(self, node):
        """{doc}"""
        func = node.func
        if not isinstance(func, ast.Name):
            return False
        if func.id not in (*self.recurse_syms, self.call_next_sym):
            return False
        if any(isinstance(arg, ast.Starred) for arg in node.args):
            return False
        return not any(kw.arg is None for kw in node.keywords)

'''
    edit('    def visit_Call(self, node):\n', method+'    def visit_Call(self, node):\n')

SELFARG='''        if self.analysis.is_method:
            selfarg = [ast.Name(id="self", ctx=ast.Load())]
        else:
            selfarg = []
'''
def selfarg_ifexp():
    edit(SELFARG, '''        selfarg = (
            [ast.Name(id="self", ctx=ast.Load())]
            if self.analysis.is_method
            else []
        )
''')

def R2_recode_4():
    prep(); lift('_make_lookup_call', 'Build `type(<tmp><key> := <arg>)`, using the lookup function for key.'); extract_guard('_is_rewritable_call', 'Whether node is a direct call to recurse/call_next that can be inlined.'); finish('refactors','R2_recode-4')
def R5_recode_8():
    prep(); lift('_make_lookup_call', 'Build `__TYPE(<tmp><key> := <arg>)`: the argument is saved to a temporary.'); extract_guard('_is_rewritable_call', 'Whether node is a direct call to recurse or call_next, written without *args or **kwargs.')
    edit(SELFARG, '''        call_args = []
        if self.analysis.is_method:
            call_args.append(ast.Name(id="self", ctx=ast.Load()))
        call_args.extend(
            ast.Name(id=f"{tmp}{i}", ctx=ast.Load()) for i in range(len(args))
        )
''')
    edit('''            args=selfarg
            + [
                ast.Name(id=f"{tmp}{i}", ctx=ast.Load())
                for i, arg in enumerate(args)
            ],
''','''            args=call_args,
''')
    finish('refactors','R5_recode-8')
def R4_recode_6():
    prep(); lift('_lookup_call', 'Call of the type function on `arg`, which is stored in a temporary.'); selfarg_ifexp(); finish('refactors','R4_recode-6')
def R3_recode_6():
    prep(); lift('_make_lookup_call', 'Generate __TYPE(tmp_key := arg), with arg itself converted.', ifstyle=True); selfarg_ifexp()
    edit('''        if not cn and any(
            isinstance(pos, int)
            for kw in keywords
            for pos in self.analysis.name_to_positions.get(kw.arg, ())
        ):
''','''        if not cn and self._names_positional(keywords):
''')
    edit('    def visit_Call(self, node):\n','''    @staticmethod
    def _has_unpacking(node):
        """Whether the call has a *args or a **kwargs argument."""
        for arg in node.args:
            if isinstance(arg, ast.Starred):
                return True
        for kw in node.keywords:
            if kw.arg is None:
                return True
        return False

    def _names_positional(self, keywords):
        """Whether one of the keywords is the name of a positional parameter."""
        for kw in keywords:
            for pos in self.analysis.name_to_positions.get(kw.arg, ()):
                if isinstance(pos, int):
                    return True
        return False

    def visit_Call(self, node):
''')
    edit(GUARDS, '''        func = node.func
        if not isinstance(func, ast.Name):
            return self.generic_visit(node)

        if func.id not in (*self.recurse_syms, self.call_next_sym):
            return self.generic_visit(node)

        if self._has_unpacking(node):
            return self.generic_visit(node)
''')
    edit('        cn = node.func.id == self.call_next_sym','        cn = func.id == self.call_next_sym')
    finish('refactors','R3_recode-6')
def R6_recode_7():
    prep(); lift('_lookup_call', 'Build `__TYPE(<tmp><key> := <arg>)`, the part of the map key for one argument.', ifstyle=True)
    edit(GUARDS, '''        func = node.func
        if not (
            isinstance(func, ast.Name)
            and func.id in (*self.recurse_syms, self.call_next_sym)
        ):
            return self.generic_visit(node)

        has_star = any(isinstance(arg, ast.Starred) for arg in node.args)
        if has_star or any(kw.arg is None for kw in node.keywords):
            return self.generic_visit(node)
''')
    edit('        cn = node.func.id == self.call_next_sym','        anal = self.analysis\n        cn = func.id == self.call_next_sym')
    edit('''        if not cn and any(
            isinstance(pos, int)
            for kw in keywords
            for pos in self.analysis.name_to_positions.get(kw.arg, ())
        ):
            # A positional argument given by keyword is bound by the entry point
            return self.generic_visit(node)
''','''        if not cn:
            for kw in keywords:
                for pos in anal.name_to_positions.get(kw.arg, ()):
                    if isinstance(pos, int):
                        # A positional argument given by keyword is bound by
                        # the entry point
                        return self.generic_visit(node)
''')
    edit('        type_parts = [\n','        positional_parts = [\n')
    edit('        type_parts += [\n','        keyword_parts = [\n')
    edit('''        if cn:
            type_parts.insert(0, ast.Name(id=self.code_mangled, ctx=ast.Load()))
''','''        # call_next looks up the methods that come after the current code
        code_part = (
            [ast.Name(id=self.code_mangled, ctx=ast.Load())] if cn else []
        )

''')
    edit('                elts=type_parts,','                elts=code_part + positional_parts + keyword_parts,')
    edit(SELFARG, '''        selfarg = (
            [ast.Name(id="self", ctx=ast.Load())] if anal.is_method else []
        )
''')
    finish('refactors','R6_recode-7')
def R_recode_5():
    prep(); lift('_make_lookup_call', 'Build `type(<tmp><key> := <arg>)` (or __SUBTLER_TYPE instead of type).', ifstyle=True)
    edit(GUARDS, '        if not self._is_direct_dispatch_call(node):\n            return self.generic_visit(node)\n')
    edit('    def visit_Call(self, node):\n','''    def _is_direct_dispatch_call(self, node):
        """Whether node is recurse(...)/call_next(...) without any unpacking."""
        func = node.func
        if not isinstance(func, ast.Name):
            return False
        if func.id not in self.recurse_syms and func.id != self.call_next_sym:
            return False
        for arg in node.args:
            if isinstance(arg, ast.Starred):
                return False
        for kw in node.keywords:
            if kw.arg is None:
                return False
        return True

    def visit_Call(self, node):
''')
    s=rd()
    a=s.index('    def visit_Call(self, node):'); b=s.index('\n    def ', a+10) if '\n    def ' in s[a+10:] else s.index('\ndef ', a)
    body=s[a:b].replace('cn = node.func.id == self.call_next_sym','is_call_next = node.func.id == self.call_next_sym').replace('if not cn and any(','if not is_call_next and any(').replace('        if cn:\n','        if is_call_next:\n')
    wr(s[:a]+body+s[b:])
    edit('        type_parts = [\n','        positional_parts = [\n')
    edit('        type_parts += [\n','        keyword_parts = [\n')
    edit('''        if is_call_next:
            type_parts.insert(0, ast.Name(id=self.code_mangled, ctx=ast.Load()))
''','''        # call_next looks up the method that comes after the current code
        if is_call_next:
            code_part = [ast.Name(id=self.code_mangled, ctx=ast.Load())]
        else:
            code_part = []

''')
    edit('                elts=type_parts,','                elts=code_part + positional_parts + keyword_parts,')
    finish('refactors','R_recode-5')

def C20h_1():
    prep()
    edit('''        def _make_lookup_call(key, arg):
            name = (
                "__SUBTLER_TYPE"
                if self.analysis.lookup_for(key) is subtler_type
                else "__TYPE"
            )
''','''        # The lookup function is the same for the whole call site
        lookup_for = self.analysis.lookup_for
        keys = [*range(len(args)), *(kw.arg for kw in keywords)]
        lookup_name = (
            "__SUBTLER_TYPE"
            if any(lookup_for(key) is subtler_type for key in keys)
            else "__TYPE"
        )

        def _make_lookup_call(key, arg):
''')
    edit('            func = ast.Name(id=name, ctx=ast.Load())','            func = ast.Name(id=lookup_name, ctx=ast.Load())')
    finish('seeded','C20h-1')
def C01e_3():
    prep()
    edit('import ast\nimport inspect','import ast\nimport copy\nimport inspect')
    edit('        by_lambda = self.in_iterable\n','        by_lambda = self.in_iterable\n        plain = {}\n')
    edit('''            else:
                value = ast.NamedExpr(
                    target=ast.Name(id=f"{tmp}{key}", ctx=ast.Store()),
                    value=self.visit(arg),
                )
''','''            else:
                value = self.visit(arg)
                if isinstance(value, (ast.Name, ast.Constant)):
                    # Reading a variable or a constant again costs the same as
                    # reading a temporary, so none is needed
                    plain[key] = value
                else:
                    value = ast.NamedExpr(
                        target=ast.Name(id=f"{tmp}{key}", ctx=ast.Store()),
                        value=value,
                    )
''')
    edit('''        if cn:
            type_parts.insert(0, ast.Name(id=self.code_mangled, ctx=ast.Load()))
''','''        def _argument(key):
            if key in plain:
                return copy.copy(plain[key])
            return ast.Name(id=f"{tmp}{key}", ctx=ast.Load())

        if cn:
            type_parts.insert(0, ast.Name(id=self.code_mangled, ctx=ast.Load()))
''')
    edit('''            args=selfarg
            + [
                ast.Name(id=f"{tmp}{i}", ctx=ast.Load())
                for i, arg in enumerate(args)
            ],
            keywords=[
                ast.keyword(
                    arg=kw.arg,
                    value=ast.Name(id=f"{tmp}{kw.arg}", ctx=ast.Load()),
                )
                for kw in keywords
            ],
        )
        if by_lambda:''','''            args=selfarg + [_argument(i) for i, arg in enumerate(args)],
            keywords=[
                ast.keyword(arg=kw.arg, value=_argument(kw.arg))
                for kw in keywords
            ],
        )
        if by_lambda:''')
    finish('seeded','C01e-3')
def C09b_1():
    prep()
    edit('''        def _make_lookup_call(key, arg):
            name = (''','''        def _is_simple(arg):
            # A plain variable has no side effects: no temporary needed
            return not by_lambda and isinstance(arg, ast.Name) and arg.id not in (
                *self.recurse_syms,
                self.call_next_sym,
            )

        def _load(key, arg):
            if _is_simple(arg):
                return arg
            return ast.Name(id=f"{tmp}{key}", ctx=ast.Load())

        def _make_lookup_call(key, arg):
            name = (''')
    edit('''            else:
                value = ast.NamedExpr(
                    target=ast.Name(id=f"{tmp}{key}", ctx=ast.Store()),
                    value=self.visit(arg),
                )
''','''            elif _is_simple(arg):
                value = arg
            else:
                value = ast.NamedExpr(
                    target=ast.Name(id=f"{tmp}{key}", ctx=ast.Store()),
                    value=self.visit(arg),
                )
''')
    edit('''            args=selfarg
            + [
                ast.Name(id=f"{tmp}{i}", ctx=ast.Load())
                for i, arg in enumerate(args)
            ],
            keywords=[
                ast.keyword(
                    arg=kw.arg,
                    value=ast.Name(id=f"{tmp}{kw.arg}", ctx=ast.Load()),
                )
                for kw in keywords
            ],
        )
        if by_lambda:''','''            args=selfarg + [_load(i, arg) for i, arg in enumerate(args)],
            keywords=[
                ast.keyword(arg=kw.arg, value=_load(kw.arg, kw.value))
                for kw in keywords
            ],
        )
        if by_lambda:''')
    finish('seeded','C09b-1')
def C08e_2():
    prep()
    edit('''        def _make_lookup_call(key, arg):
            name = (''','''        def _make_lookup_call(key, value):
            name = (''')
    edit('''            if by_lambda:
                value = ast.Name(id=f"{tmp}{key}", ctx=ast.Load())
            else:
                value = ast.NamedExpr(
                    target=ast.Name(id=f"{tmp}{key}", ctx=ast.Store()),
                    value=self.visit(arg),
                )
            func = ast.Name(id=name, ctx=ast.Load())''','''            func = ast.Name(id=name, ctx=ast.Load())''')
    edit('''        # type index for positional arguments
        type_parts = [
            _make_lookup_call(i, arg) for i, arg in enumerate(args)
        ]
''','''        def _hold(key, arg):
            # Positional arguments are held in a temporary, in order
            if by_lambda:
                return ast.Name(id=f"{tmp}{key}", ctx=ast.Load())
            return ast.NamedExpr(
                target=ast.Name(id=f"{tmp}{key}", ctx=ast.Store()),
                value=self.visit(arg),
            )

        # type index for positional arguments
        type_parts = [
            _make_lookup_call(i, _hold(i, arg)) for i, arg in enumerate(args)
        ]

        # Keyword arguments are rewritten once and handed over by name
        kwvalues = {
            kw.arg: _hold(kw.arg, kw.value) if by_lambda else self.visit(kw.value)
            for kw in keywords
        }
''')
    edit('                    _make_lookup_call(kw.arg, kw.value),','                    _make_lookup_call(kw.arg, kwvalues[kw.arg]),')
    edit('''                ast.keyword(
                    arg=kw.arg,
                    value=ast.Name(id=f"{tmp}{kw.arg}", ctx=ast.Load()),
                )
                for kw in keywords
            ],
        )
        if by_lambda:''','''                ast.keyword(arg=kw.arg, value=kwvalues[kw.arg])
                for kw in keywords
            ],
        )
        if by_lambda:''')
    finish('seeded','C08e-2')

def C09b_3():
    prep()
    edit('        self.count = count()\n','        self.depth = 0\n')
    edit('        tmp = f"__TMP{next(self.count)}_"\n','        # Temporaries are only live until the call is made, so calls that\n        # are not nested in one another can share the same slots.\n        tmp = f"__TMP{self.depth}_"\n        self.depth += 1\n')
    s_=rd(); k=s_.rindex('        return ast.copy_location(old_node=node, new_node=new_node)'); wr(s_[:k]+'        self.depth -= 1\n'+s_[k:])
    finish('seeded','C09b-3')

for fn in sys.argv[1:]:
    try:
        globals()[fn]()
    except AssertionError as e:
        print(fn, 'FAILED', str(e)[:300])
