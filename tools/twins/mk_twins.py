import subprocess, os, shutil, json, re
def prep(seed=None):
    shutil.rmtree('/tmp/sc', ignore_errors=True); os.makedirs('/tmp/sc')
    subprocess.run("cd /tmp/sc && git init -q . && cp -r /repo/src /repo/tests . && git add -A >/dev/null && git -c user.email=a@b -c user.name=x commit -qm base", shell=True, check=True)
    if seed:
        subprocess.run("cd /tmp/sc && git apply /verif/seeded/%s/patch.diff" % seed, shell=True, check=True)
def edit(path, old, new, count=1):
    p='/tmp/sc/'+path; s=open(p).read(); assert s.count(old)>=1, (path, old); open(p,'w').write(s.replace(old,new,count))
def finish(rid, note):
    out=subprocess.run("cd /tmp/sc && PYTHONPATH=/tmp/sc/src /venv/bin/python -m pytest -q -p no:cacheprovider 2>&1 | tail -1", shell=True, capture_output=True, text=True).stdout.strip()
    print(rid, out)
    assert '143 passed' in out
    d='/verif/refactors/'+rid; os.makedirs(d, exist_ok=True)
    subprocess.run("cd /tmp/sc && git diff > %s/patch.diff" % d, shell=True, check=True)
    json.dump({"id": rid, "kind": "behaviour-preserving refactoring (written here: the benign twin of a seeded change)", "note": note, "suite_with_change": out}, open(d+'/meta.json','w'), indent=1)

# twin of C04f-1: flush() helper used by register only
prep('C04f-1')
edit('src/ovld/typemap.py', '''    # Programs that keep creating classes (one per request, per schema...)
    # would otherwise make the resolution cache grow without bound
    max_entries = 1024

''', '')
edit('src/ovld/typemap.py', '''    def __setitem__(self, obj_t_tup, handler):
        if len(self) >= self.max_entries:
            self.flush()
        super().__setitem__(obj_t_tup, handler)

''', '')
finish('R6_own-2', 'MultiTypeMap.flush() extracted and used by register() only (twin of C04f-1 without the bounded cache)')

# twin of C04f-2: only the immutable default moved to the class body
prep()
edit('src/ovld/typemap.py', '''    def __init__(self, name="_ovld", key_error=KeyError):
        self.maps = {}''', '''    # Default for a map that holds no zero-argument method yet
    empty = MISSING

    def __init__(self, name="_ovld", key_error=KeyError):
        self.maps = {}''')
edit('src/ovld/typemap.py', '''        self.empty = MISSING
''', '')
finish('R6_own-3', 'the immutable default `empty = MISSING` moved to the class body (twin of C04f-2, which also moved the mutable `errors`)')

# twin of C05f-1: _rewrite extracted without the memo
prep('C05f-1')
edit('src/ovld/recode.py', '@lru_cache(maxsize=None)\ndef _rewrite', 'def _rewrite')
edit('src/ovld/recode.py', 'from functools import lru_cache, reduce', 'from functools import reduce')
finish('R6_own-4', 'the compiling half of recode() extracted into _rewrite() (twin of C05f-1 without lru_cache)')

# twin of C13f-2: the class fast path inside the try
prep()
edit('src/ovld/mro.py', '''    else:
        try:
            return issubclass(t1, t2)
        except TypeError:
            return False''', '''    else:
        try:
            if isinstance(t1, type) and isinstance(t2, type):
                # Two actual classes, by far the most common case
                return issubclass(t1, t2)
            return issubclass(t1, t2)
        except TypeError:
            return False''')
finish('R6_own-5', 'class fast path placed inside the try (twin of C13f-2)')

# twin of C19f-2: generator accepts an optional name database, nobody passes one
prep()
edit('src/ovld/recode.py', 'def generate_dependent_dispatch(tup, handlers, next_call, slf, name, err, nerr):', 'def generate_dependent_dispatch(\n    tup, handlers, next_call, slf, name, err, nerr, ndb=None\n):')
edit('src/ovld/recode.py', '    ndb = NameDatabase(default_name="INJECT")\n    conjs = []', '    if ndb is None:\n        ndb = NameDatabase(default_name="INJECT")\n    conjs = []')
finish('R6_own-6', 'generate_dependent_dispatch takes an optional name database; the table passes none (twin of C19f-2)')

# twin of C16f-2: guard at the API boundary as well as in the worker
prep()
edit('src/ovld/core.py', '''        if fn is None:
            return partial(self._register, priority=priority)
        return self._register(fn, priority)''', '''        self._attempt_modify()
        if fn is None:
            return partial(self._register, priority=priority)
        return self._register(fn, priority)''')
finish('R6_own-7', 'register() checks the lock early, _register() still checks it when the decorator is applied (twin of C16f-2)')

# twin of C12f-2: plain-class tail extracted without a memo
prep('C12f-2')
import glob
s=open('/tmp/sc/src/ovld/mro.py').read()
s2=re.sub(r'@(functools\.)?lru_cache\([^)]*\)\n', '', s)
s2=re.sub(r'@(functools\.)?lru_cache\n', '', s2)
assert s2!=s
open('/tmp/sc/src/ovld/mro.py','w').write(s2)
finish('R6_own-8', 'the plain-class tail of typeorder extracted into a helper (twin of C12f-2 without lru_cache)')
