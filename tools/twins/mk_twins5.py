exec(open('/tmp/mk_twins2.py').read().split("prep('C14g-3')")[0])
prep()
edit('src/ovld/core.py', '''        mixins = [o for m in mixins if (o := to_ovld(m)) is not self]
        for mixin in mixins:
            if self.linkback:
                mixin.children.append(self)
        self.mixins += mixins
''', '''        converted = [to_ovld(m) for m in mixins]
        for mixin in converted:
            if mixin is self:
                continue
            if self.linkback:
                mixin.children.append(self)
            self.mixins.append(mixin)
''')
finish('R7_own-14', 'add_mixins converts everything first, then one loop skipping only the function itself (twin of C17f-1, which also skipped mixins already present; a first version of this twin converted inside the loop and C18.R13 rightly reported it)')
