exec(open('/tmp/mk_twins2.py').read().split("prep('C14g-3')")[0])

prep()
edit('src/ovld/mro.py', '''        ords = [typeorder(a1, a2) for a1, a2 in zip(args1, args2)]
        return Order.merge(ords)
''', '''        return _compare_args(args1, args2)
''')
edit('src/ovld/mro.py', 'def subclasscheck(t1, t2):', '''def _compare_args(args1, args2):
    """Compare two equally long lists of (covariant) type arguments."""
    return Order.merge(typeorder(a1, a2) for a1, a2 in zip(args1, args2))


def subclasscheck(t1, t2):''')
finish('R7_own-27', 'typeorder compares type arguments through a _compare_args helper that merges the pairwise orders (twin of C12d-3, which built the answer from subclasscheck)')

prep()
edit('src/ovld/types.py', '''        template = "(" + " or ".join("{}" for t in self.types) + ")"
        return combine(template, [_member_check(t) for t in self.types])''', '''        checks = [_member_check(t) for t in self.types]
        template = "(" + " or ".join("({})" for _ in checks) + ")"
        return combine(template, checks)''')
finish('R7_own-28', 'union code: every member parenthesised and the whole parenthesised (twin of C15d-1, which dropped the outer parentheses)')

prep()
edit('src/ovld/core.py', '''        for mixin in self.mixins:
            defns.update(mixin.defns)
        defns.update(self._defns)
        return defns''', '''        for mixin in self.mixins:
            inherited = mixin.defns
            if inherited:
                defns.update(inherited)
        defns.update(self._defns)
        return defns''')
finish('R7_own-29', 'merged view skips a mixin whose own merged view is empty (twin of C16d-3, which looked at the own table of the mixin only)')

prep()
edit('src/ovld/recode.py', '''    if fn.__closure__:
        new = closure_wrap(new.body[0], "irrelevant", fn.__code__.co_freevars)''', '''    freevars = fn.__code__.co_freevars
    if freevars:
        new = closure_wrap(new.body[0], "irrelevant", freevars)''')
edit('src/ovld/recode.py', '''    if fn.__closure__:
        res = [x for x''', '''    if freevars:
        res = [x for x''')
finish('R7_own-30', 'recode decides on the free variables of the code object instead of the closure tuple (twin of C17d-3, which left __class__ out)')

prep()
edit('src/ovld/mro.py', '    avail = [t for t in avail if subclasscheck(cls, t)]', '    avail = [t for t in avail if _covers(cls, t)]')
edit('src/ovld/mro.py', 'def sort_types(cls, avail):', '# The filter of sort_types\n_covers = subclasscheck\n\n\ndef sort_types(cls, avail):')
finish('R7_own-31', 'sort_types filters through a module-level alias of subclasscheck (twin of C13d-2, which memoised it)')

prep()
edit('src/ovld/utils.py', '''def subtler_type(obj):
    if isinstance(obj, GenericAlias):''', '''def subtler_type(obj):
    return _lookup_type(obj)


def _lookup_type(obj):
    if isinstance(obj, GenericAlias):''')
finish('R7_own-32', 'subtler_type delegates to a plain helper (twin of C04d-1, which memoised the helper)')
