exec(open('/tmp/mk_twins2.py').read().split("prep('C14g-3')")[0])
prep()
edit('src/ovld/typemap.py', '''            if candidates is None:
                candidates = set(results.keys())
            else:
                candidates &= results.keys()
''', '''            candidates = (
                set(results) if candidates is None else candidates & results.keys()
            )
''')
finish('R9_own-10', 'mro seeds or narrows the candidates in one conditional expression that still tests `is None` (twin of C14i-2, which tested truthiness)')

prep()
edit('src/ovld/recode.py', '''                lookup=join(lookup[: req + i] + lookup[npos:], trail=True),
                posargs=join(posargs[: req + i + 1] + posargs[npos + 1 :]),''', '''                lookup=join(lookup[: req + i] + lookup[kwstart:], trail=True),
                posargs=join(posargs[: req + i + 1] + posargs[kwstart + 1 :]),''')
s=open('/tmp/sc/src/ovld/recode.py').read()
k=s.index('                lookup=join(lookup[: req + i] + lookup[kwstart:]')
# put the definition right after npos is set
s=s.replace('    npos = i\n', '    npos = i\n    # The keyword part follows the positional slots (posargs has one more\n    # slot in front, for self)\n    kwstart = npos\n',1)
open('/tmp/sc/src/ovld/recode.py','w').write(s)
finish('R9_own-11', 'the early exits slice the keyword tail from a hoisted kwstart, plus one for the self slot of posargs (twin of C14i-3, which used one offset for both lists)')

prep()
edit('src/ovld/recode.py', '''    for name in spr + spo + pr + po + kr + ko:
        ndb.register(name)
''', '''    positional = spr + spo + pr + po
    for name in positional + kr + ko:
        ndb.register(name)
''')
finish('R9_own-12', 'generate_dispatch hoists the positional names into a local and still reserves the keyword-only names (twin of C14i-1, which reserved the positional ones only)')
