import subprocess, os, shutil, json, sys, re
OLD='2c11721'
def build(kind, rid, transform):
    shutil.rmtree('/tmp/sc', ignore_errors=True); os.makedirs('/tmp/sc')
    subprocess.run("cd /tmp/sc && git init -q . && cp -r /repo/src /repo/tests . && git add -A >/dev/null && git -c user.email=a@b -c user.name=x commit -qm base", shell=True, check=True)
    # their version of recode.py: old base + patch
    os.makedirs('/tmp/sc_old/src/ovld', exist_ok=True)
    shutil.rmtree('/tmp/sc_old'); os.makedirs('/tmp/sc_old')
    subprocess.run(f"cd /tmp/sc_old && git -C /repo archive {OLD} src | tar x && patch -p1 -s < /verif/{kind}/{rid}/patch.diff", shell=True, check=True)
    # copy every file the patch touched (all are recode.py here, but be general)
    changed = subprocess.run(f"cd /tmp/sc_old && grep -l . -r src | head -0; grep '^+++ b/' /verif/{kind}/{rid}/patch.diff | sed 's#+++ b/##'", shell=True, capture_output=True, text=True).stdout.split()
    for f in changed:
        s = open('/tmp/sc_old/'+f).read()
        if f.endswith('recode.py'):
            s2 = transform(s)
            assert s2 != s, (rid, 'transform did nothing')
            s = s2
        open('/tmp/sc/'+f,'w').write(s)
    out=subprocess.run("cd /tmp/sc && PYTHONPATH=/tmp/sc/src /venv/bin/python -m pytest -q -p no:cacheprovider 2>&1 | tail -1", shell=True, capture_output=True, text=True).stdout.strip()
    assert '143 passed' in out, (rid, out)
    d=f'/verif/{kind}/{rid}'
    if kind=='seeded':
        rc=subprocess.run(f"PYTHONPATH=/tmp/sc/src /venv/bin/python {d}/demo.py", shell=True, capture_output=True).returncode
        assert rc==1, (rid, 'demo', rc)
    rc=subprocess.run("PYTHONPATH=/tmp/sc/src /venv/bin/python /tmp/fx2/d2.py", shell=True, capture_output=True, text=True)
    assert 'ERR' not in rc.stdout, (rid, 'F42 demo', rc.stdout)
    subprocess.run(f"cd /tmp/sc && git diff > {d}/patch.diff", shell=True, check=True)
    m=json.load(open(d+'/meta.json')); m['recreated']='re-created by hand on /repo a5e05aa (same change; the fix of F42 rewrote the keyed branch)'
    json.dump(m, open(d+'/meta.json','w'), indent=1)
    print(rid, out)

FIX4 = '''        body.append("try:")
        body.append(f"    HANDLER = {ndb[keyed]}.get({keyexpr}, FALLTHROUGH)")
        body.append("except TypeError:")
        # An unhashable value is equal to none of the keys
        body.append("    HANDLER = FALLTHROUGH")
'''
def t_simple(s):
    return s.replace('        body.append(f"HANDLER = {ndb[keyed]}.get({keyexpr}, FALLTHROUGH)")\n', FIX4)
def t_c03e1(s):
    return s.replace('        body.append("except KeyError:")\n', '        body.append("except (KeyError, TypeError):")\n')
def t_own20(s):
    return s.replace('        body.append("except KeyError:")\n', '        body.append("except (KeyError, TypeError):")\n')
def t_r2(s):
    return s.replace('''            "HANDLER = {}.get({}, FALLTHROUGH)".format(ndb[keyed], keyexpr),
''','''            "try:",
            "    HANDLER = {}.get({}, FALLTHROUGH)".format(ndb[keyed], keyexpr),
            "except TypeError:",
            # An unhashable value is equal to none of the keys
            "    HANDLER = FALLTHROUGH",
''')
def t_flist(s):
    return s.replace('''            f"HANDLER = {ndb[keyed]}.get({keyexpr}, FALLTHROUGH)",
''','''            "try:",
            f"    HANDLER = {ndb[keyed]}.get({keyexpr}, FALLTHROUGH)",
            "except TypeError:",
            # An unhashable value is equal to none of the keys
            "    HANDLER = FALLTHROUGH",
''')
def t_r4(s):
    return s.replace('''            f"HANDLER = {keyed_name()}.get({keyexpr}, FALLTHROUGH)",
''','''            "try:",
            f"    HANDLER = {keyed_name()}.get({keyexpr}, FALLTHROUGH)",
            "except TypeError:",
            # An unhashable value is equal to none of the keys
            "    HANDLER = FALLTHROUGH",
''')
JOBS = {
 'C03g-1': ('seeded', t_simple), 'R7_own-2': ('refactors', t_simple), 'C03e-1': ('seeded', t_c03e1), 'R7_own-20': ('refactors', t_own20),
 'R2_recode-3': ('refactors', t_r2), 'R5_recode-5': ('refactors', t_flist), 'R6_recode-4': ('refactors', t_flist), 'R_recode-4': ('refactors', t_r4),
}
for rid in sys.argv[1:] or JOBS:
    kind, t = JOBS[rid]
    try:
        build(kind, rid, t)
    except AssertionError as e:
        print(rid, 'FAILED', str(e)[:300])
