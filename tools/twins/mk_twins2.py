import subprocess, os, shutil, json, re
def prep(seed=None):
    shutil.rmtree('/tmp/sc', ignore_errors=True); os.makedirs('/tmp/sc')
    subprocess.run("cd /tmp/sc && git init -q . && cp -r /repo/src /repo/tests . && git add -A >/dev/null && git -c user.email=a@b -c user.name=x commit -qm base", shell=True, check=True)
    if seed:
        subprocess.run("cd /tmp/sc && git apply /verif/seeded/%s/patch.diff" % seed, shell=True, check=True)
def edit(path, old, new, count=1):
    p='/tmp/sc/'+path; s=open(p).read(); assert s.count(old)>=1, (path, old); open(p,'w').write(s.replace(old,new,count))
def finish(rid, note):
    out=subprocess.run("cd /tmp/sc && PYTHONPATH=/tmp/sc/src /venv/bin/python -m pytest -q -p no:cacheprovider 2>&1 | tail -1", shell=True, capture_output=True, text=True).stdout.strip()
    print(rid, out)
    assert '143 passed' in out
    d='/verif/refactors/'+rid; os.makedirs(d, exist_ok=True)
    subprocess.run("cd /tmp/sc && git diff > %s/patch.diff" % d, shell=True, check=True)
    json.dump({"id": rid, "kind": "behaviour-preserving refactoring (written here: the benign twin of a seeded change)", "note": note, "suite_with_change": out}, open(d+'/meta.json','w'), indent=1)

prep('C14g-3')
edit('src/ovld/core.py', 'key.append(lookup_for(len(key))(arg))', 'key.append(lookup_for(len(key) - 1)(arg))')
finish('R7_own-1', 'Ovld.next builds its key by appending to a list, each argument looked up at its own position (twin of C14g-3)')

prep('C03g-1')
edit('src/ovld/recode.py', '        body.append(f"    return FALLTHROUGH({argcall})")', '        body.append("    " + call("FALLTHROUGH"))')
finish('R7_own-2', 'generate_dependent_dispatch renders every hand-over through one call() helper (twin of C03g-1, self prefix kept everywhere)')

prep('C11g-1')
edit('src/ovld/dependent.py', '    first = next(iter(value), None)\n    return first is None or isinstance(first, typ)', '    first = next(iter(value), _NO_ELEMENT)\n    return first is _NO_ELEMENT or isinstance(first, typ)')
edit('src/ovld/dependent.py', '@dependent_check(bound_is_name=True)\ndef CollectionFastCheck', '_NO_ELEMENT = object()\n\n\n@dependent_check(bound_is_name=True)\ndef CollectionFastCheck')
finish('R7_own-3', 'CollectionFastCheck takes the first element with next(iter(..), sentinel) and a private sentinel (twin of C11g-1, which used None)')

prep('C14g-1')
edit('src/ovld/mro.py', '    elif t2 is typing.Any:\n        t2 = object\n\n    if t1 == t2:\n        return Order.SAME', '    if t2 is typing.Any:\n        t2 = object\n\n    if t1 == t2:\n        return Order.SAME')
# twin: restructure both normalisations into conditional expressions instead
edit('src/ovld/mro.py', '    if t1 is typing.Any:\n        t1 = object\n    if t2 is typing.Any:\n        t2 = object\n\n    if t1 == t2:\n        return Order.SAME', '    t1 = object if t1 is typing.Any else t1\n    t2 = object if t2 is typing.Any else t2\n\n    if t1 == t2:\n        return Order.SAME')
finish('R7_own-4', 'typeorder normalises Any on both sides with conditional expressions (twin of C14g-1)')

prep('C10g-3')
s=open('/tmp/sc/src/ovld/typemap.py').read()
assert 'candidates[len(rval):]' in s
# benign: recurse on the candidates that were not put in the group (same as candidates[1:] filtered by processed)
s=s.replace('candidates[len(rval):]','[c for c in candidates[1:]]')
open('/tmp/sc/src/ovld/typemap.py','w').write(s)
finish('R7_own-5', '_pull recurses on a copy of candidates[1:] (twin of C10g-3 / C06g-2, which sliced by the group length)')
