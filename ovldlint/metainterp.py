"""Abstract execution of the AST rewriter's visitor methods on symbolic call nodes.

The rewriter (`NameConverter`) is *interpreted*, never imported or run: its method bodies are walked by the small
interpreter below, in which
  * the only host objects are nodes of the standard library's `ast` module (the inputs are real ast nodes; the
    `ast.X(...)` constructor calls written in the rewriter are evaluated with the real constructors),
  * `self` is a plain record holding the configuration of the run (symbols, generated names, method flag),
  * `self.visit(x)` / `self.generic_visit(x)` return marker nodes, `next(self.<counter>)` returns a fixed number,
    `self.analysis.lookup_for(key)` answers from a table supplied by the caller,
  * other methods of the rewriter class and closures defined inside the method are interpreted recursively.
The result is the tree the rewriter would build for that input, which rules then compare with the tree the
property requires.  Unsupported constructs raise AnalysisError (exit 2).
"""

import ast

from .model import AnalysisError, dotted


class _Return(Exception):
    def __init__(self, value):
        self.value = value


class _Break(Exception):
    pass


class _Continue(Exception):
    pass


class Raised(Exception):
    """The interpreted code executed a `raise`."""

    def __init__(self, what):
        self.what = what


class Closure:
    def __init__(self, node, env, self_obj=None):
        self.node = node
        self.env = env
        self.self_obj = self_obj


class Record:
    """`self` of the rewriter, or its `analysis`."""

    def __init__(self, **kw):
        self.__dict__.update(kw)


def marker(kind, node):
    n = ast.Name(id=f"<{kind}:{ast.dump(node) if isinstance(node, ast.AST) else node}>", ctx=ast.Load())
    return n


SAFE_BUILTINS = {
    "isinstance": isinstance,
    "len": len,
    "enumerate": lambda x, start=0: list(enumerate(x, start)),
    "range": lambda *a: list(range(*a)),
    "list": list,
    "tuple": tuple,
    "any": any,
    "all": all,
    "bool": bool,
    "str": str,
    "reversed": lambda x: list(reversed(x)),
    "zip": lambda *a: list(zip(*a)),
    "hasattr": hasattr,
    "getattr": getattr,
    "int": int,
    "str": str,
    "repr": repr,
    "min": min,
    "max": max,
    "sorted": sorted,
}


class HostInterp:
    def __init__(self, cls_methods, self_obj, lookup_table, subtler_token="SUBTLER", globals_env=None):
        self.methods = cls_methods  # name -> FunctionDef of the rewriter class
        self.self_obj = self_obj
        self.lookup_table = lookup_table
        self.subtler = subtler_token
        self.globals_env = globals_env or {}
        self.steps = 0

    # ------------------------------------------------------------------ entry
    def call_method(self, name, *args):
        fn = self.methods.get(name)
        if fn is None:
            raise AnalysisError(f"rewriter has no method {name}")
        return self.call_function(fn, [self.self_obj] + list(args), {}, {})

    def call_function(self, fn, args, kwargs, closure_env):
        params = [a.arg for a in fn.args.posonlyargs + fn.args.args]
        env = dict(closure_env)
        defaults = fn.args.defaults
        dmap = dict(zip(params[len(params) - len(defaults):], defaults))
        for i, p in enumerate(params):
            if i < len(args):
                env[p] = args[i]
            elif p in kwargs:
                env[p] = kwargs[p]
            elif p in dmap:
                env[p] = self.ev(dmap[p], env)
            else:
                raise AnalysisError(f"interpreting {fn.name}: missing argument {p}")
        try:
            self.block(fn.body, env)
        except _Return as r:
            return r.value
        return None

    # ------------------------------------------------------------------ statements
    def block(self, stmts, env):
        for st in stmts:
            self.stmt(st, env)

    def stmt(self, st, env):
        self.steps += 1
        if self.steps > 50000:
            raise AnalysisError("rewriter interpretation: step limit")
        if isinstance(st, ast.Return):
            raise _Return(self.ev(st.value, env) if st.value is not None else None)
        if isinstance(st, ast.If):
            self.block(st.body if self.ev(st.test, env) else st.orelse, env)
            return
        if isinstance(st, ast.Assign):
            v = self.ev(st.value, env)
            for t in st.targets:
                self.bind(t, v, env)
            return
        if isinstance(st, ast.AugAssign) and isinstance(st.op, (ast.Add, ast.Sub)):
            tgt = ast.copy_location(type(st.target)(**{f: getattr(st.target, f) for f in st.target._fields if f != "ctx"}, ctx=ast.Load()), st.target)
            cur = self.ev(tgt, env)
            v = self.ev(st.value, env)
            if isinstance(st.op, ast.Add) and isinstance(cur, list):
                cur.extend(v)
                return
            self.bind(st.target, cur + v if isinstance(st.op, ast.Add) else cur - v, env)
            return
        if isinstance(st, ast.Expr):
            if isinstance(st.value, ast.Constant):
                return
            self.ev(st.value, env)
            return
        if isinstance(st, ast.FunctionDef):
            env[st.name] = Closure(st, env)
            return
        if isinstance(st, ast.For):
            broke = False
            for v in list(self.ev(st.iter, env)):
                self.bind(st.target, v, env)
                try:
                    self.block(st.body, env)
                except _Break:
                    broke = True
                    break
                except _Continue:
                    continue
            if not broke:
                self.block(st.orelse, env)
            return
        if isinstance(st, ast.Break):
            raise _Break()
        if isinstance(st, ast.Continue):
            raise _Continue()
        if isinstance(st, ast.Raise):
            raise Raised(dotted(st.exc.func) if isinstance(st.exc, ast.Call) else "raise")
        if isinstance(st, (ast.Pass, ast.Assert, ast.Import, ast.ImportFrom)):
            return
        raise AnalysisError(f"rewriter interpretation: unsupported statement {type(st).__name__} at line {st.lineno}")

    def bind(self, target, value, env):
        if isinstance(target, ast.Name):
            env[target.id] = value
        elif isinstance(target, (ast.Tuple, ast.List)):
            vals = list(value)
            for t, v in zip(target.elts, vals):
                self.bind(t, v, env)
        elif isinstance(target, ast.Attribute):
            obj = self.ev(target.value, env)
            if isinstance(obj, (ast.AST, Record)):
                setattr(obj, target.attr, value)
            else:
                raise AnalysisError("rewriter interpretation: attribute store on a non-node")
        elif isinstance(target, ast.Subscript):
            obj = self.ev(target.value, env)
            obj[self.ev(target.slice, env)] = value
        else:
            raise AnalysisError(f"rewriter interpretation: unsupported target {type(target).__name__}")

    # ------------------------------------------------------------------ expressions
    def ev(self, e, env):
        if isinstance(e, ast.Constant):
            return e.value
        if isinstance(e, ast.Name):
            if e.id in env:
                return env[e.id]
            if e.id in self.globals_env:
                return self.globals_env[e.id]
            if e.id == "ast":
                return ast
            if e.id in SAFE_BUILTINS:
                return SAFE_BUILTINS[e.id]
            if e.id in ("True", "False", "None"):
                return {"True": True, "False": False, "None": None}[e.id]
            raise AnalysisError(f"rewriter interpretation: unbound name {e.id}")
        if isinstance(e, ast.Attribute):
            obj = self.ev(e.value, env)
            if obj is ast:
                return getattr(ast, e.attr)
            if isinstance(obj, Record):
                if hasattr(obj, e.attr):
                    return getattr(obj, e.attr)
                if obj is self.self_obj and e.attr in self.methods:
                    return ("method", e.attr)
                if obj is self.self_obj and e.attr in ("visit", "generic_visit"):
                    return ("builtin-visit", e.attr)
                raise AnalysisError(f"rewriter interpretation: unknown attribute self.{e.attr}")
            if isinstance(obj, ast.AST):
                return getattr(obj, e.attr)
            if isinstance(obj, (list, str, tuple)) and e.attr in ("append", "insert", "extend", "startswith", "endswith", "format", "join"):
                return getattr(obj, e.attr)
            raise AnalysisError(f"rewriter interpretation: attribute {e.attr} of {type(obj).__name__}")
        if isinstance(e, ast.JoinedStr):
            out = ""
            for v in e.values:
                out += str(v.value) if isinstance(v, ast.Constant) else format(self.ev(v.value, env))
            return out
        if isinstance(e, (ast.List, ast.Tuple)):
            out = []
            for x in e.elts:
                if isinstance(x, ast.Starred):
                    out.extend(self.ev(x.value, env))
                else:
                    out.append(self.ev(x, env))
            return out if isinstance(e, ast.List) else tuple(out)
        if isinstance(e, ast.UnaryOp) and isinstance(e.op, ast.Not):
            return not self.ev(e.operand, env)
        if isinstance(e, ast.BoolOp):
            if isinstance(e.op, ast.And):
                v = True
                for x in e.values:
                    v = self.ev(x, env)
                    if not v:
                        return v
                return v
            v = False
            for x in e.values:
                v = self.ev(x, env)
                if v:
                    return v
            return v
        if isinstance(e, ast.IfExp):
            return self.ev(e.body if self.ev(e.test, env) else e.orelse, env)
        if isinstance(e, ast.BinOp) and isinstance(e.op, ast.Add):
            a, b = self.ev(e.left, env), self.ev(e.right, env)
            if isinstance(a, tuple) and isinstance(b, tuple) or isinstance(a, list) and isinstance(b, list) or isinstance(a, str) and isinstance(b, str) or isinstance(a, int) and isinstance(b, int):
                return a + b
            if isinstance(a, list) and isinstance(b, tuple):
                return a + list(b)
            raise AnalysisError("rewriter interpretation: unsupported +")
        if isinstance(e, ast.Compare):
            left = self.ev(e.left, env)
            for op, r in zip(e.ops, e.comparators):
                right = self.ev(r, env)
                if isinstance(op, ast.Eq):
                    ok = left == right
                elif isinstance(op, ast.NotEq):
                    ok = left != right
                elif isinstance(op, ast.Is):
                    ok = left is right or (isinstance(left, str) and isinstance(right, str) and left == right)
                elif isinstance(op, ast.IsNot):
                    ok = not (left is right or (isinstance(left, str) and isinstance(right, str) and left == right))
                elif isinstance(op, ast.In):
                    ok = left in right
                elif isinstance(op, ast.NotIn):
                    ok = left not in right
                else:
                    raise AnalysisError("rewriter interpretation: unsupported comparison")
                if not ok:
                    return False
                left = right
            return True
        if isinstance(e, ast.Subscript):
            obj = self.ev(e.value, env)
            if isinstance(e.slice, ast.Slice):
                lo = self.ev(e.slice.lower, env) if e.slice.lower else None
                hi = self.ev(e.slice.upper, env) if e.slice.upper else None
                return obj[lo:hi]
            return obj[self.ev(e.slice, env)]
        if isinstance(e, ast.NamedExpr):
            v = self.ev(e.value, env)
            env[e.target.id] = v
            return v
        if isinstance(e, (ast.ListComp, ast.GeneratorExp)):
            return self.comp(e, env)
        if isinstance(e, ast.Call):
            return self.call(e, env)
        raise AnalysisError(f"rewriter interpretation: unsupported expression {type(e).__name__} at line {getattr(e, 'lineno', '?')}")

    def comp(self, c, env):
        out = []

        def rec(i, env2):
            if i == len(c.generators):
                out.append(self.ev(c.elt, env2))
                return
            g = c.generators[i]
            for v in list(self.ev(g.iter, env2)):
                e3 = dict(env2)
                self.bind(g.target, v, e3)
                if all(self.ev(cond, e3) for cond in g.ifs):
                    rec(i + 1, e3)

        rec(0, dict(env))
        return out

    def call(self, e, env):
        # special forms first
        d = dotted(e.func)
        if d == "next" and len(e.args) == 1:
            return 7
        if d and d.endswith(".lookup_for") and len(e.args) == 1:
            key = self.ev(e.args[0], env)
            return self.lookup_table.get(key, "TYPE")
        fn = self.ev(e.func, env)
        args = []
        for a in e.args:
            if isinstance(a, ast.Starred):
                args.extend(self.ev(a.value, env))
            else:
                args.append(self.ev(a, env))
        kwargs = {k.arg: self.ev(k.value, env) for k in e.keywords if k.arg is not None}
        if isinstance(fn, tuple) and fn and fn[0] == "builtin-visit":
            node = args[0]
            if fn[1] == "visit":
                return marker("visited", node)
            return marker("generic_visit", node)
        if isinstance(fn, tuple) and fn and fn[0] == "method":
            m = self.methods[fn[1]]
            return self.call_function(m, [self.self_obj] + args, kwargs, {})
        if isinstance(fn, Closure):
            return self.call_function(fn.node, args, kwargs, fn.env)
        if fn is isinstance:
            return isinstance(args[0], args[1])
        if isinstance(fn, type) and issubclass(fn, ast.AST):
            return fn(*args, **kwargs)
        if fn in (int, str) and len(args) <= 1:
            return fn(*args)
        if fn is ast.copy_location:
            new = kwargs.get("new_node", args[0] if args else None)
            old = kwargs.get("old_node", args[1] if len(args) > 1 else None)
            new._copied_from = old
            return new
        if callable(fn) and any(fn is v for v in self.globals_env.values()):
            return fn(*args, **kwargs)
        if fn in SAFE_BUILTINS.values() or (callable(fn) and getattr(fn, "__self__", None) is not None and isinstance(fn.__self__, (list, str, tuple))):
            return fn(*args, **kwargs)
        raise AnalysisError(f"rewriter interpretation: call of {d or type(fn).__name__} is not supported")
