"""Abstract execution of the AST rewriter's visitor methods on symbolic call nodes.

The rewriter (`NameConverter`) is *interpreted*, never imported or run: its method bodies are walked by the small
interpreter below, in which
  * the only host objects are nodes of the standard library's `ast` module (the inputs are real ast nodes; the
    `ast.X(...)` constructor calls written in the rewriter are evaluated with the real constructors),
  * `self` is a plain record holding the configuration of the run (symbols, generated names, method flag),
  * `self.visit(x)` / `self.generic_visit(x)` return marker nodes, `next(self.<counter>)` returns a fixed number,
    `self.analysis.lookup_for(key)` answers from a table supplied by the caller,
  * other methods of the rewriter class and closures defined inside the method are interpreted recursively.
The result is the tree the rewriter would build for that input, which rules then compare with the tree the
property requires.  Unsupported constructs raise AnalysisError (exit 2).
"""

import ast

from .model import AnalysisError, dotted


class _Return(Exception):
    def __init__(self, value):
        self.value = value


class _Break(Exception):
    pass


class _Continue(Exception):
    pass


class Raised(Exception):
    """The interpreted code executed a `raise`."""

    def __init__(self, what):
        self.what = what


class _Shared(dict):
    """An environment that closures share with their defining scope (reads fall through to the parent)."""

    parent = None
    nonlocals = frozenset()

    def child(self, nonlocals=()):
        c = _Shared()
        c.parent = self
        c.nonlocals = frozenset(nonlocals)
        return c

    def assign(self, k, v):
        if k in self.nonlocals:
            p = self.parent
            while p is not None:
                if dict.__contains__(p, k):
                    dict.__setitem__(p, k, v)
                    return
                p = p.parent
        dict.__setitem__(self, k, v)

    def get(self, k, default=None):
        try:
            return self[k]
        except KeyError:
            return default

    def __missing__(self, k):
        if self.parent is not None:
            return self.parent[k]
        raise KeyError(k)

    def __contains__(self, k):
        return dict.__contains__(self, k) or (self.parent is not None and k in self.parent)


class Closure:
    def __init__(self, node, env, self_obj=None):
        self.node = node
        self.env = env
        self.self_obj = self_obj


class Record:
    """`self` of the rewriter, or its `analysis`."""

    def __init__(self, **kw):
        self.__dict__.update(kw)


class HostFn:
    """A stub supplied by the analysis (never repository code) that interpreted code may call."""

    def __init__(self, fn):
        self.fn = fn

    def __call__(self, *a, **k):
        return self.fn(*a, **k)


class Instance(Record):
    """An object of a class of the package whose methods are interpreted (e.g. the name database)."""

    def __init__(self, cls_name, methods):
        self._cls_name = cls_name
        self._methods = methods


def marker(kind, node):
    n = ast.Name(id=f"<{kind}:{ast.dump(node) if isinstance(node, ast.AST) else node}>", ctx=ast.Load())
    return n


def _safe_setattr(obj, name, value):
    if isinstance(obj, Instance):
        obj.__dict__[name] = value
    elif isinstance(obj, (Record, ast.AST)) or type(obj).__module__.startswith("ovldlint."):
        setattr(obj, name, value)
    else:
        raise AnalysisError(f"interpretation: setattr on {type(obj).__name__}")


SAFE_BUILTINS = {
    # (for `isinstance(x, Exception)` tests on stand-ins, which are no exceptions)
    "Exception": Exception,
    "BaseException": BaseException,
    "setattr": _safe_setattr,
    "NotImplemented": NotImplemented,
    "Ellipsis": Ellipsis,
    "isinstance": isinstance,
    "len": len,
    "enumerate": lambda x, start=0: list(enumerate(x, start)),
    "range": lambda *a: list(range(*a)),
    "list": list,
    "tuple": tuple,
    "any": any,
    "all": all,
    "bool": bool,
    "str": str,
    "reversed": lambda x: list(reversed(x)),
    "zip": lambda *a: list(zip(*a)),
    "hasattr": hasattr,
    "getattr": getattr,
    "int": int,
    "float": float,
    "set": set,
    "dict": dict,
    "id": id,
    "sum": sum,
    "map": lambda f, *xs: [f(*a) for a in zip(*xs)],
    "filter": lambda f, xs: [x for x in xs if (f(x) if f is not None else x)],
    "str": str,
    "repr": repr,
    "min": min,
    "max": max,
    "sorted": sorted,
    "type": type,
    "abs": abs,
    "hash": hash,
    "frozenset": frozenset,
    "issubclass": issubclass,
    "object": object,
    "vars": vars,
    "dir": dir,
    "callable": callable,
    "iter": iter,
    "print": lambda *a, **k: None,
}


def _host_modules():
    import functools
    import itertools
    import math
    import re
    import copy
    import operator
    import textwrap

    return (re, textwrap, itertools, functools, math, copy, operator)


HOST_MODULES = _host_modules()


def _receiver(fn_node, obj):
    """What a method receives in front of its arguments: nothing for a staticmethod."""
    for d in getattr(fn_node, "decorator_list", []):
        if isinstance(d, ast.Name) and d.id == "staticmethod":
            return []
    return [obj]


def _package_constant(name):
    from . import orderdom

    return orderdom._package_constant(name)


def _is_generator(fn):
    stack = list(fn.body)
    while stack:
        n = stack.pop()
        if isinstance(n, (ast.Yield, ast.YieldFrom)):
            return True
        if isinstance(n, (ast.FunctionDef, ast.AsyncFunctionDef, ast.Lambda, ast.ClassDef)):
            continue
        stack.extend(ast.iter_child_nodes(n))
    return False


class OwnObject(str):
    """a string token that stands for an object with an identity of its own: `is` compares it by identity, not by
    value (plain string tokens stand for classes, of which there is one per name)"""


class HostInterp:
    def __init__(self, cls_methods, self_obj, lookup_table, subtler_token="SUBTLER", globals_env=None, classes=None, functions=None):
        self.classes = classes or {}      # name -> {method name -> FunctionDef}: classes whose objects are interpreted
        self.functions = functions or {}  # name -> FunctionDef: module functions that are interpreted when called
        self.methods = cls_methods  # name -> FunctionDef of the rewriter class
        self.self_obj = self_obj
        self.lookup_table = lookup_table
        self.subtler = subtler_token
        self.globals_env = globals_env or {}
        self.host_types = (list, str, tuple, set, dict)  # host objects whose public methods interpreted code may call
        self.record_fields = {}  # class name -> field names, for dataclass-like classes without an __init__
        self.steps = 0

    # ------------------------------------------------------------------ entry
    def call_method(self, name, *args):
        fn = self.methods.get(name)
        if fn is None:
            raise AnalysisError(f"rewriter has no method {name}")
        return self.call_function(fn, [self.self_obj] + list(args), {}, {})

    def call_function(self, fn, args, kwargs, closure_env):
        params = [a.arg for a in fn.args.posonlyargs + fn.args.args]
        parent = closure_env if isinstance(closure_env, _Shared) else _Shared(closure_env)
        nl = set()
        for n in ast.walk(fn):
            if isinstance(n, ast.Nonlocal):
                nl |= set(n.names)
        env = parent.child(nl)
        defaults = fn.args.defaults
        dmap = dict(zip(params[len(params) - len(defaults):], defaults))
        for i, p in enumerate(params):
            if i < len(args):
                env[p] = args[i]
            elif p in kwargs:
                env[p] = kwargs[p]
            elif p in dmap:
                env[p] = self.ev(dmap[p], env)
            else:
                raise AnalysisError(f"interpreting {fn.name}: missing argument {p}")
        if fn.args.vararg:
            env[fn.args.vararg.arg] = tuple(args[len(params):])
        kwonly = [a.arg for a in fn.args.kwonlyargs]
        for a, dflt in zip(fn.args.kwonlyargs, fn.args.kw_defaults):
            if a.arg in kwargs:
                env[a.arg] = kwargs[a.arg]
            elif dflt is not None:
                env[a.arg] = self.ev(dflt, env)
            else:
                raise AnalysisError(f"interpreting {fn.name}: missing keyword argument {a.arg}")
        if fn.args.kwarg:
            env[fn.args.kwarg.arg] = {k: v for k, v in kwargs.items() if k not in params and k not in kwonly}
        if _is_generator(fn):
            # generators are run eagerly: the values yielded, in order
            self._gens = getattr(self, "_gens", [])
            self._gens.append([])
            try:
                self.block(fn.body, env)
            except _Return:
                pass
            finally:
                out = self._gens.pop()
            return out
        try:
            self.block(fn.body, env)
        except _Return as r:
            return r.value
        return None

    # ------------------------------------------------------------------ statements
    def block(self, stmts, env):
        for st in stmts:
            self.stmt(st, env)

    def stmt(self, st, env):
        self.steps += 1
        if self.steps > 50000:
            raise AnalysisError("rewriter interpretation: step limit")
        if isinstance(st, ast.Return):
            raise _Return(self.ev(st.value, env) if st.value is not None else None)
        if isinstance(st, ast.If):
            self.block(st.body if self.ev(st.test, env) else st.orelse, env)
            return
        if isinstance(st, ast.Assign):
            v = self.ev(st.value, env)
            for t in st.targets:
                self.bind(t, v, env)
            return
        if isinstance(st, ast.AugAssign) and isinstance(st.op, (ast.Add, ast.Sub)):
            tgt = ast.copy_location(type(st.target)(**{f: getattr(st.target, f) for f in st.target._fields if f != "ctx"}, ctx=ast.Load()), st.target)
            cur = self.ev(tgt, env)
            v = self.ev(st.value, env)
            if isinstance(st.op, ast.Add) and isinstance(cur, list):
                cur.extend(v)
                return
            self.bind(st.target, cur + v if isinstance(st.op, ast.Add) else cur - v, env)
            return
        if isinstance(st, ast.AugAssign) and isinstance(st.op, (ast.BitAnd, ast.BitOr)):
            tgt = ast.copy_location(type(st.target)(**{f: getattr(st.target, f) for f in st.target._fields if f != "ctx"}, ctx=ast.Load()), st.target)
            cur = self.ev(tgt, env)
            v = self.ev(st.value, env)
            try:
                self.bind(st.target, (cur & v) if isinstance(st.op, ast.BitAnd) else (cur | v), env)
            except TypeError as ex:
                raise AnalysisError(f"interpretation: unsupported in-place operation: {ex}")
            return
        if isinstance(st, ast.Expr):
            if isinstance(st.value, ast.Constant):
                return
            self.ev(st.value, env)
            return
        if isinstance(st, ast.FunctionDef):
            env[st.name] = Closure(st, env)
            return
        if isinstance(st, ast.For):
            broke = False
            it = self.ev(st.iter, env)
            n_iter = 0
            for v in (list(it) if isinstance(it, (list, tuple, set, dict, str, frozenset)) else it):
                n_iter += 1
                if n_iter > 20000:
                    raise AnalysisError("interpretation: loop does not terminate")
                self.bind(st.target, v, env)
                try:
                    self.block(st.body, env)
                except _Break:
                    broke = True
                    break
                except _Continue:
                    continue
            if not broke:
                self.block(st.orelse, env)
            return
        if isinstance(st, ast.While):
            n = 0
            while self.ev(st.test, env):
                n += 1
                if n > 1000:
                    raise AnalysisError("interpretation: while loop does not terminate")
                try:
                    self.block(st.body, env)
                except _Break:
                    break
                except _Continue:
                    continue
            return
        if isinstance(st, ast.Break):
            raise _Break()
        if isinstance(st, ast.Continue):
            raise _Continue()
        if isinstance(st, ast.Raise):
            r = Raised(dotted(st.exc.func) if isinstance(st.exc, ast.Call) else "raise")
            r.value = None
            if st.exc is not None:
                try:
                    r.value = self.ev(st.exc, env)
                except AnalysisError:
                    pass
            raise r
        if isinstance(st, ast.Try):
            try:
                try:
                    self._try_depth = getattr(self, "_try_depth", 0) + 1
                    try:
                        self.block(st.body, env)
                    finally:
                        self._try_depth -= 1
                except (KeyError, IndexError, AttributeError, TypeError, ValueError, StopIteration) as hx:
                    # an exception of the host data structures the interpreted code works on
                    handled = False
                    for h in st.handlers:
                        names = []
                        if h.type is not None:
                            names = [dotted(t) for t in (h.type.elts if isinstance(h.type, ast.Tuple) else [h.type])]
                        if h.type is None or type(hx).__name__ in names or "Exception" in names or "BaseException" in names or ("LookupError" in names and isinstance(hx, LookupError)):
                            self.block(h.body, env)
                            handled = True
                            break
                    if not handled:
                        raise
                except Raised as r:
                    handled = False
                    for h in st.handlers:
                        names = []
                        if h.type is not None:
                            names = [dotted(t) for t in (h.type.elts if isinstance(h.type, ast.Tuple) else [h.type])]
                        # an interpreted `raise X(...)` is caught by `except X` (or a bare / Exception handler)
                        if h.type is None or r.what in names or "Exception" in names or "BaseException" in names:
                            if h.name:
                                self.bind(ast.Name(id=h.name, ctx=ast.Store()), getattr(r, "value", None), env)
                            self.block(h.body, env)
                            handled = True
                            break
                    if not handled:
                        raise
                else:
                    self.block(st.orelse, env)
            finally:
                self.block(st.finalbody, env)
            return
        if isinstance(st, ast.Delete):
            for t in st.targets:
                if isinstance(t, ast.Subscript):
                    obj = self.ev(t.value, env)
                    del obj[self.ev(t.slice, env)]
                elif isinstance(t, ast.Name):
                    env.pop(t.id, None)
                else:
                    raise AnalysisError("interpretation: unsupported del target")
            return
        if isinstance(st, (ast.Pass, ast.Assert, ast.Import, ast.ImportFrom, ast.Nonlocal, ast.Global)):
            return
        raise AnalysisError(f"rewriter interpretation: unsupported statement {type(st).__name__} at line {st.lineno}")

    def bind(self, target, value, env):
        if isinstance(target, ast.Name):
            if isinstance(env, _Shared):
                env.assign(target.id, value)
            else:
                env[target.id] = value
        elif isinstance(target, (ast.Tuple, ast.List)):
            vals = list(value)
            stars = [i for i, t in enumerate(target.elts) if isinstance(t, ast.Starred)]
            if stars:
                i = stars[0]
                after = len(target.elts) - i - 1
                if len(stars) > 1 or len(vals) < len(target.elts) - 1:
                    raise AnalysisError("interpretation: cannot unpack")
                for t, v in zip(target.elts[:i], vals[:i]):
                    self.bind(t, v, env)
                self.bind(target.elts[i].value, vals[i : len(vals) - after], env)
                for t, v in zip(target.elts[i + 1 :], vals[len(vals) - after :]):
                    self.bind(t, v, env)
            else:
                if len(vals) != len(target.elts):
                    raise AnalysisError(f"interpretation: cannot unpack {len(vals)} values into {len(target.elts)} targets")
                for t, v in zip(target.elts, vals):
                    self.bind(t, v, env)
        elif isinstance(target, ast.Attribute):
            obj = self.ev(target.value, env)
            if isinstance(obj, Instance):
                obj.__dict__[target.attr] = value
            elif isinstance(obj, tuple) and len(obj) == 2 and obj[0] == "class":
                self.__dict__.setdefault("class_attrs", {})[(obj[1], target.attr)] = value
            elif isinstance(obj, (ast.AST, Record)):
                setattr(obj, target.attr, value)
            elif isinstance(obj, self.host_types) and type(obj).__module__.startswith("ovldlint."):
                # a stand-in object supplied by the analysis
                setattr(obj, target.attr, value)
            else:
                raise AnalysisError("rewriter interpretation: attribute store on a non-node")
        elif isinstance(target, ast.Subscript):
            obj = self.ev(target.value, env)
            obj[self.ev(target.slice, env)] = value
        else:
            raise AnalysisError(f"rewriter interpretation: unsupported target {type(target).__name__}")

    # ------------------------------------------------------------------ expressions
    def ev(self, e, env):
        if isinstance(e, ast.Constant):
            return e.value
        if isinstance(e, ast.Name):
            if e.id in env:
                return env[e.id]
            if e.id in self.globals_env:
                return self.globals_env[e.id]
            if e.id == "ast":
                return ast
            if e.id in ("re", "textwrap", "math", "itertools", "functools", "copy", "operator"):
                return __import__(e.id)
            if e.id in self.classes:
                return ("class", e.id)
            if e.id in self.functions:
                return Closure(self.functions[e.id], {})
            if e.id in SAFE_BUILTINS:
                return SAFE_BUILTINS[e.id]
            if e.id in ("True", "False", "None"):
                return {"True": True, "False": False, "None": None}[e.id]
            from . import orderdom as _od

            if _od.PACKAGE is not None:
                # a name some module of the package imports from a standard-library module the analysis may use
                srcs = {imp[1:] for m_ in _od.PACKAGE.modules.values() for nm, imp in m_.imports.items() if nm == e.id and imp[0] == "ext"}
                if len(srcs) == 1:
                    modname, attr = next(iter(srcs))
                    if modname in ("itertools", "functools", "math", "re", "textwrap", "copy", "operator", "types", "typing") and attr and not attr.startswith("_") and hasattr(__import__(modname), attr):
                        return getattr(__import__(modname), attr)
            if _od.PACKAGE is not None and e.id in ("typing", "types", "inspect", "math", "re", "itertools", "functools", "textwrap", "copy", "operator") and any(imp[0] == "extmod" and imp[1] == e.id for m_ in _od.PACKAGE.modules.values() for nm, imp in m_.imports.items() if nm == e.id):
                # a standard-library module some module of the package imports under its own name
                return __import__(e.id)
            pf = _od._package_function(e.id)
            if pf is not None and not pf.node.decorator_list:
                # a top-level function of another module of the package (a class's methods run in their own module)
                return Closure(pf.node, {})
            if _od.PACKAGE is not None:
                pcs = [c_ for c_ in _od.PACKAGE.all_classes() if c_.name == e.id and getattr(c_, "parent_func", None) is None]
                if len(pcs) == 1:
                    # a class of the package the interpreted code instantiates: its methods are interpreted
                    self.classes[e.id] = _od.PACKAGE.raw_methods(pcs[0])
                    return ("class", e.id)
            c = _package_constant(e.id)
            if c is not None:
                # a module-level constant of the package (a precompiled regexp, a tuple of names, a table)
                v = self.ev(c, {})
                self.globals_env[e.id] = v
                return v
            raise AnalysisError(f"rewriter interpretation: unbound name {e.id}")
        if isinstance(e, ast.Attribute):
            obj = self.ev(e.value, env)
            if obj is ast:
                return getattr(ast, e.attr)
            if isinstance(obj, tuple) and len(obj) == 2 and obj[0] == "class" and obj[1] in self.classes and e.attr in self.classes[obj[1]]:
                return Closure(self.classes[obj[1]][e.attr], {})
            if isinstance(obj, tuple) and len(obj) == 2 and obj[0] == "class" and obj[1] in self.classes:
                # a plain class attribute (`name = <expr>` in the class body)
                store = self.__dict__.setdefault("class_attrs", {})
                if (obj[1], e.attr) in store:
                    return store[(obj[1], e.attr)]
                from . import orderdom as _od2

                cs = [c for c in _od2.PACKAGE.all_classes() if c.name == obj[1]] if _od2.PACKAGE is not None else []
                if len(cs) == 1:
                    for st in cs[0].node.body:
                        if isinstance(st, ast.Assign) and any(isinstance(t, ast.Name) and t.id == e.attr for t in st.targets):
                            store[(obj[1], e.attr)] = self.ev(st.value, {})
                            return store[(obj[1], e.attr)]
            if isinstance(obj, Instance):
                if e.attr in obj.__dict__:
                    return obj.__dict__[e.attr]
                if e.attr in obj._methods:
                    node = obj._methods[e.attr]
                    if any(isinstance(d, ast.Name) and d.id in ("property", "cached_property") for d in getattr(node, "decorator_list", [])):
                        return self.call_function(node, [obj], {}, {})
                    return ("bound", obj, node)
                raise AnalysisError(f"interpretation: {obj._cls_name} object has no attribute {e.attr}")
            if isinstance(obj, Record):
                if hasattr(obj, e.attr):
                    return getattr(obj, e.attr)
                if obj is self.self_obj and e.attr in self.methods:
                    return ("method", e.attr)
                if obj is self.self_obj and e.attr in ("visit", "generic_visit"):
                    return ("builtin-visit", e.attr)
                raise AnalysisError(f"rewriter interpretation: unknown attribute self.{e.attr}")
            if isinstance(obj, ast.AST):
                return getattr(obj, e.attr)
            if isinstance(obj, self.host_types) and (not e.attr.startswith("_") or (type(obj).__module__.startswith("ovldlint.") and hasattr(obj, e.attr))):
                return getattr(obj, e.attr)
            import types as _types
            import typing as _typing

            import inspect as _inspect

            if (obj is _typing or obj is _types or obj is _inspect) and hasattr(obj, e.attr):
                return getattr(obj, e.attr)
            if e.attr in ("__args__", "__origin__", "__metadata__") and type(obj).__module__ in ("typing", "types") and hasattr(obj, e.attr):
                # the parts of a standard-library annotation object
                return getattr(obj, e.attr)
            if isinstance(obj, type) and e.attr in ("__mro__", "__bases__", "__name__", "__qualname__", "__module__", "__base__"):
                return getattr(obj, e.attr)
            if any(obj is t for t in (dict, list, str, tuple, set, frozenset)) and (not e.attr.startswith("_") or e.attr in ("__getitem__", "__setitem__", "__contains__")):
                return getattr(obj, e.attr)
            import re as _re

            if any(obj is m for m in HOST_MODULES) and not e.attr.startswith("_"):
                return getattr(obj, e.attr)
            if isinstance(obj, (_re.Match, _re.Pattern)):
                return getattr(obj, e.attr)
            if type(obj).__module__.startswith("ovldlint.") and not isinstance(obj, type) and hasattr(obj, e.attr):
                # a stand-in object supplied by the analysis (a frozen record standing for a signature, ...)
                return getattr(obj, e.attr)
            raise AnalysisError(f"rewriter interpretation: attribute {e.attr} of {type(obj).__name__}")
        if isinstance(e, ast.JoinedStr):
            out = ""
            for v in e.values:
                if isinstance(v, ast.Constant):
                    out += str(v.value)
                else:
                    val = self.ev(v.value, env)
                    if v.conversion == 114:
                        val = repr(val)
                    elif v.conversion == 115:
                        val = str(val)
                    spec = self.ev(v.format_spec, env) if v.format_spec is not None else ""
                    out += format(val, spec)
            return out
        if isinstance(e, (ast.List, ast.Tuple)):
            out = []
            for x in e.elts:
                if isinstance(x, ast.Starred):
                    out.extend(self.ev(x.value, env))
                else:
                    out.append(self.ev(x, env))
            return out if isinstance(e, ast.List) else tuple(out)
        if isinstance(e, ast.Dict):
            out = {}
            for k, v in zip(e.keys, e.values):
                if k is None:
                    out.update(self.ev(v, env))
                else:
                    out[self.ev(k, env)] = self.ev(v, env)
            return out
        if isinstance(e, ast.Set):
            return {self.ev(x, env) for x in e.elts}
        if isinstance(e, ast.SetComp):
            return set(self.comp(e, env))
        if isinstance(e, ast.DictComp):
            out = {}
            fake = ast.ListComp(elt=ast.Tuple(elts=[e.key, e.value], ctx=ast.Load()), generators=e.generators)
            for k, v in self.comp(fake, env):
                out[k] = v
            return out
        if isinstance(e, ast.Lambda):
            return Closure(ast.FunctionDef(name="<lambda>", args=e.args, body=[ast.Return(value=e.body)], decorator_list=[]), env)
        if isinstance(e, ast.UnaryOp) and isinstance(e.op, ast.USub):
            return -self.ev(e.operand, env)
        if isinstance(e, ast.UnaryOp) and isinstance(e.op, ast.Not):
            return not self.ev(e.operand, env)
        if isinstance(e, ast.BoolOp):
            if isinstance(e.op, ast.And):
                v = True
                for x in e.values:
                    v = self.ev(x, env)
                    if not v:
                        return v
                return v
            v = False
            for x in e.values:
                v = self.ev(x, env)
                if v:
                    return v
            return v
        if isinstance(e, ast.IfExp):
            return self.ev(e.body if self.ev(e.test, env) else e.orelse, env)
        if isinstance(e, ast.BinOp) and isinstance(e.op, (ast.Sub, ast.Mult)):
            a, b = self.ev(e.left, env), self.ev(e.right, env)
            if isinstance(e.op, ast.Sub) and ((isinstance(a, (int, float)) and isinstance(b, (int, float))) or (isinstance(a, (set, frozenset)) and isinstance(b, (set, frozenset)))):
                return a - b
            if isinstance(e.op, ast.Mult) and isinstance(a, (list, str, int)) and isinstance(b, int):
                return a * b
            raise AnalysisError("interpretation: unsupported arithmetic")
        if isinstance(e, ast.BinOp) and isinstance(e.op, (ast.BitXor, ast.BitOr, ast.BitAnd)):
            a, b = self.ev(e.left, env), self.ev(e.right, env)
            import collections.abc as _cabc

            if (isinstance(a, int) and isinstance(b, int)) or (isinstance(a, _cabc.Set) and isinstance(b, _cabc.Set)):
                return {ast.BitXor: lambda: a ^ b, ast.BitOr: lambda: a | b, ast.BitAnd: lambda: a & b}[type(e.op)]()
            raise AnalysisError("interpretation: unsupported bit operation")
        if isinstance(e, ast.BinOp) and isinstance(e.op, ast.Mod):
            a, b = self.ev(e.left, env), self.ev(e.right, env)
            if isinstance(a, str) and isinstance(b, (str, int, float, tuple, dict)) or isinstance(a, int) and isinstance(b, int):
                try:
                    return a % b
                except (TypeError, ValueError, ZeroDivisionError) as ex:
                    raise AnalysisError(f"interpretation: % failed on abstract values: {ex}")
            raise AnalysisError("interpretation: unsupported %")
        if isinstance(e, ast.BinOp) and isinstance(e.op, ast.Add):
            a, b = self.ev(e.left, env), self.ev(e.right, env)
            if isinstance(a, tuple) and isinstance(b, tuple) or isinstance(a, list) and isinstance(b, list) or isinstance(a, str) and isinstance(b, str) or isinstance(a, int) and isinstance(b, int):
                return a + b
            if isinstance(a, list) and isinstance(b, tuple):
                return a + list(b)
            raise AnalysisError("rewriter interpretation: unsupported +")
        if isinstance(e, ast.Compare):
            left = self.ev(e.left, env)
            for op, r in zip(e.ops, e.comparators):
                right = self.ev(r, env)
                if isinstance(op, (ast.Eq, ast.NotEq)) and isinstance(left, Instance) and "__eq__" in left._methods:
                    # an object of an interpreted class with its own equality
                    r_ = self.call_function(left._methods["__eq__"], [left, right], {}, {})
                    r_ = (left is right) if r_ is NotImplemented else bool(r_)
                    ok = r_ if isinstance(op, ast.Eq) else not r_
                elif isinstance(op, ast.Eq):
                    ok = left == right
                elif isinstance(op, ast.NotEq):
                    ok = left != right
                elif isinstance(op, (ast.Is, ast.IsNot)):
                    same = left is right or (isinstance(left, str) and isinstance(right, str) and not isinstance(left, OwnObject) and not isinstance(right, OwnObject) and left == right) or (isinstance(left, tuple) and isinstance(right, tuple) and len(left) == 2 and left[:1] == ("class",) and left == right)
                    ok = same if isinstance(op, ast.Is) else not same
                elif isinstance(op, ast.In):
                    ok = left in right
                elif isinstance(op, ast.NotIn):
                    ok = left not in right
                elif isinstance(op, (ast.Lt, ast.LtE, ast.Gt, ast.GtE)) and isinstance(left, (int, float)) and isinstance(right, (int, float)):
                    ok = {ast.Lt: left < right, ast.LtE: left <= right, ast.Gt: left > right, ast.GtE: left >= right}[type(op)]
                else:
                    raise AnalysisError("interpretation: unsupported comparison")
                if not ok:
                    return False
                left = right
            return True
        if isinstance(e, ast.Subscript):
            obj = self.ev(e.value, env)
            if isinstance(obj, Instance) and "__getitem__" in obj._methods:
                return self.call_function(obj._methods["__getitem__"], [obj, self.ev(e.slice, env)], {}, {})
            if isinstance(e.slice, ast.Slice):
                lo = self.ev(e.slice.lower, env) if e.slice.lower else None
                hi = self.ev(e.slice.upper, env) if e.slice.upper else None
                return obj[lo:hi]
            return obj[self.ev(e.slice, env)]
        if isinstance(e, ast.NamedExpr):
            v = self.ev(e.value, env)
            self.bind(e.target, v, env)
            return v
        if isinstance(e, ast.Yield):
            if not getattr(self, "_gens", None):
                raise AnalysisError("interpretation: yield outside an interpreted generator")
            self._gens[-1].append(self.ev(e.value, env) if e.value is not None else None)
            return None
        if isinstance(e, ast.YieldFrom):
            if not getattr(self, "_gens", None):
                raise AnalysisError("interpretation: yield from outside an interpreted generator")
            self._gens[-1].extend(list(self.ev(e.value, env)))
            return None
        if isinstance(e, (ast.ListComp, ast.GeneratorExp)):
            return self.comp(e, env)
        if isinstance(e, ast.Call):
            return self.call(e, env)
        raise AnalysisError(f"rewriter interpretation: unsupported expression {type(e).__name__} at line {getattr(e, 'lineno', '?')}")

    def _metaclass_hook(self, cls_name, hook):
        """the method `hook` of the package metaclass of the package class `cls_name`, if it has one"""
        from . import orderdom as _od

        if _od.PACKAGE is None:
            return None
        cs = [c for c in _od.PACKAGE.all_classes() if c.name == cls_name and getattr(c, "parent_func", None) is None]
        if len(cs) != 1:
            return None
        for k in cs[0].node.keywords:
            if k.arg == "metaclass" and isinstance(k.value, ast.Name):
                ms = [c for c in _od.PACKAGE.all_classes() if c.name == k.value.id and getattr(c, "parent_func", None) is None]
                if len(ms) == 1:
                    return _od.PACKAGE.raw_methods(ms[0]).get(hook)
        return None

    def as_callable(self, v):
        if isinstance(v, Instance) and "__call__" in v._methods:
            return lambda *a, **k: self.call_function(v._methods["__call__"], [v] + list(a), k, {})
        if isinstance(v, Closure):
            return lambda *a, **k: self.call_function(v.node, list(a), k, v.env)
        if isinstance(v, tuple) and len(v) == 3 and v[0] == "bound":
            return lambda *a, **k: self.call_function(v[2], _receiver(v[2], v[1]) + list(a), k, {})
        return v

    def comp(self, c, env):
        out = []

        def rec(i, env2):
            if i == len(c.generators):
                out.append(self.ev(c.elt, env2))
                return
            g = c.generators[i]
            for v in list(self.ev(g.iter, env2)):
                e3 = env2.child() if isinstance(env2, _Shared) else dict(env2)
                self.bind(g.target, v, e3)
                if all(self.ev(cond, e3) for cond in g.ifs):
                    rec(i + 1, e3)

        rec(0, env.child() if isinstance(env, _Shared) else dict(env))
        return out

    def call(self, e, env):
        # special forms first
        d = dotted(e.func)
        if d == "next" and len(e.args) in (1, 2) and isinstance(e.args[0], (ast.GeneratorExp, ast.ListComp)):
            # next(<generator expression>[, default]): the first element (generators are evaluated eagerly here)
            items = list(self.ev(e.args[0], env))
            if items:
                return items[0]
            if len(e.args) == 2:
                return self.ev(e.args[1], env)
            raise Raised("StopIteration")
        if d == "next" and len(e.args) == 2:
            it = self.ev(e.args[0], env)
            if hasattr(it, "__next__"):
                return next(it, self.ev(e.args[1], env))
            raise AnalysisError("interpretation: next() of something that is no iterator")
        if d == "next" and len(e.args) == 1:
            try:
                it = self.ev(e.args[0], env)
            except AnalysisError:
                return 7  # a counter the analysis does not model: some number
            if hasattr(it, "__next__"):
                try:
                    return next(it)
                except StopIteration:
                    raise Raised("StopIteration")
            if isinstance(it, Record) and getattr(it, "kind", None) == "counter":
                it.n = getattr(it, "n", -1) + 1
                return it.n
            return 7
        if d and d.endswith(".lookup_for") and len(e.args) == 1:
            key = self.ev(e.args[0], env)
            return self.lookup_table.get(key, "TYPE")
        fn = self.ev(e.func, env)
        args = []
        for a in e.args:
            if isinstance(a, ast.Starred):
                args.extend(self.ev(a.value, env))
            else:
                args.append(self.ev(a, env))
        kwargs = {}
        for k in e.keywords:
            if k.arg is not None:
                kwargs[k.arg] = self.ev(k.value, env)
            else:
                kwargs.update(self.ev(k.value, env))
        if not isinstance(fn, (Closure, tuple)):
            # closures handed to host functions (reduce, map, sorted key, ...) become callables
            # (an object of the package that happens to be callable stays the object it is when it is merely stored in a
            # host container: `pending.append(function_object)`)
            stores = isinstance(getattr(fn, "__self__", None), (list, dict, set))
            args = [a if stores and isinstance(a, Instance) else self.as_callable(a) for a in args]
            kwargs = {k: v if stores and isinstance(v, Instance) else self.as_callable(v) for k, v in kwargs.items()}
        if isinstance(fn, tuple) and fn and fn[0] == "builtin-visit":
            node = args[0]
            if getattr(self, "concrete_visit", None) is not None:
                # the engine asked for a real traversal (NodeTransformer semantics) instead of a marker
                return self.concrete_visit(fn[1], node)
            if fn[1] == "visit":
                return marker("visited", node)
            return marker("generic_visit", node)
        if isinstance(fn, tuple) and fn and fn[0] == "method":
            m = self.methods[fn[1]]
            return self.call_function(m, _receiver(m, self.self_obj) + args, kwargs, {})
        if fn is type and len(args) == 1 and isinstance(args[0], Instance):
            return ("class", args[0]._cls_name)
        if fn is isinstance and len(args) == 2 and isinstance(args[1], tuple) and len(args[1]) == 2 and args[1][0] == "class":
            hook = self._metaclass_hook(args[1][1], "__instancecheck__")
            if hook is not None:
                # a class of the package whose metaclass (of the package too) answers isinstance itself
                return self.call_function(hook, [args[1], args[0]], {}, {})
            return isinstance(args[0], Instance) and args[0]._cls_name == args[1][1]
        if fn is hasattr and len(args) == 2 and isinstance(args[0], Instance):
            return args[1] in args[0].__dict__ or args[1] in args[0]._methods
        if fn is hash and len(args) == 1 and isinstance(args[0], Instance) and "__hash__" in args[0]._methods:
            return self.call_function(args[0]._methods["__hash__"], [args[0]], {}, {})
        if isinstance(fn, HostFn):
            return fn(*args, **kwargs)
        if isinstance(fn, Instance) and "__call__" in fn._methods:
            return self.call_function(fn._methods["__call__"], [fn] + args, kwargs, {})
        if isinstance(fn, Closure):
            return self.call_function(fn.node, args, kwargs, fn.env)
        if isinstance(fn, tuple) and fn and fn[0] == "bound":
            return self.call_function(fn[2], _receiver(fn[2], fn[1]) + args, kwargs, {})
        if isinstance(fn, tuple) and fn and fn[0] == "class":
            methods = self.classes[fn[1]]
            obj = Instance(fn[1], methods)
            if "__init__" in methods:
                self.call_function(methods["__init__"], [obj] + args, kwargs, {})
            elif fn[1] in self.record_fields:
                # a dataclass / record-like class: positional and keyword arguments fill the declared fields
                fields = self.record_fields[fn[1]]
                if len(args) > len(fields) or any(k not in fields for k in kwargs):
                    raise AnalysisError(f"interpretation: cannot construct {fn[1]} from the given arguments")
                vals = dict(zip(fields, args))
                vals.update(kwargs)
                obj.__dict__.update(vals)
            return obj
        if fn is isinstance:
            return isinstance(args[0], args[1])
        if fn is issubclass and len(args) == 2 and isinstance(args[0], type) and (isinstance(args[1], type) or (isinstance(args[1], tuple) and all(isinstance(x, type) for x in args[1]))):
            # on real classes the host's answer *is* the program's: a TypeError raised by a metaclass is the program's too
            return issubclass(args[0], args[1])
        if isinstance(fn, type) and issubclass(fn, ast.AST):
            return fn(*args, **kwargs)
        if fn in (int, str) and len(args) <= 1:
            return fn(*args)
        if fn in (ast.parse, ast.fix_missing_locations, ast.increment_lineno, ast.walk, ast.dump, ast.unparse):
            try:
                return fn(*args, **kwargs)
            except SyntaxError as ex:
                raise Raised(f"SyntaxError: {ex}")
        if fn is ast.copy_location:
            new = kwargs.get("new_node", args[0] if args else None)
            old = kwargs.get("old_node", args[1] if len(args) > 1 else None)
            new._copied_from = old
            return new
        if callable(fn) and any(fn is v for v in self.globals_env.values()):
            return fn(*args, **kwargs)
        import re as _re
        import textwrap as _tw

        if callable(fn) and any(getattr(fn, "__self__", None) is t or getattr(fn, "__objclass__", None) is t for t in (dict, list, str, tuple, set, frozenset)):
            try:
                return fn(*args, **kwargs)
            except (TypeError, ValueError, KeyError, IndexError) as ex:
                if getattr(self, "_try_depth", 0):
                    raise  # inside an interpreted `try`: the handlers of the program decide
                raise AnalysisError(f"interpretation: {d or fn} failed on abstract values: {type(ex).__name__}: {ex}")
        if fn in SAFE_BUILTINS.values() or (callable(fn) and getattr(fn, "__self__", None) is not None and isinstance(fn.__self__, self.host_types + (_re.Match, _re.Pattern))) or getattr(fn, "__module__", None) in ("re", "textwrap", "itertools", "functools", "math", "copy", "operator", "_operator", "typing"):
            try:
                return fn(*args, **kwargs)
            except (TypeError, ValueError, KeyError, IndexError) as ex:
                if getattr(self, "_try_depth", 0):
                    raise  # inside an interpreted `try`: the handlers of the program decide
                raise AnalysisError(f"interpretation: {d or fn} failed on abstract values: {type(ex).__name__}: {ex}")
        raise AnalysisError(f"rewriter interpretation: call of {d or type(fn).__name__} is not supported")
