"""Anchors found by role (DESIGN.md appendix A).  A missing anchor raises AnalysisError."""

import ast

from .model import AnalysisError, call_name, dotted, is_self_attr, str_value


def _memo(fn):
    def wrapper(repo):
        cache = repo.__dict__.setdefault("_anchor_cache", {})
        if fn.__name__ not in cache:
            cache[fn.__name__] = fn(repo)
        return cache[fn.__name__]

    wrapper.__name__ = fn.__name__
    return wrapper


def _one(items, what):
    items = list(items)
    if len(items) != 1:
        names = [getattr(i, "key", str(i)) for i in items]
        raise AnalysisError(f"anchor '{what}': expected exactly one, found {len(items)} {names}")
    return items[0]


def _lift(repo, funcs):
    """A private helper that did not exist in the reference tree is not an anchor: its top-level callers are
    (a refactoring moved part of the anchored function's body into it)."""
    from .inline import BASELINE

    known = {f"{m}.{q}" for m, qs in BASELINE.items() for q in qs} if isinstance(BASELINE, dict) else set()
    out = []
    seen = set()
    work = list(funcs)
    while work:
        f = work.pop()
        if f.key in seen:
            continue
        seen.add(f.key)
        is_new_helper = bool(known) and f.name.startswith("_") and not f.name.startswith("__") and f"{f.module.name}.{f.name}" not in known
        if is_new_helper:
            callers = [g for g in repo.all_funcs() if g.cls is None and g.parent is None and g is not f and any(isinstance(c, ast.Call) and isinstance(c.func, ast.Name) and c.func.id == f.name for c in ast.walk(g.node))]
            if callers:
                work.extend(callers)
                continue
        if f not in out:
            out.append(f)
    return out


def self_attrs_assigned(fnode, selfname="self"):
    out = {}
    for n in ast.walk(fnode):
        tgts = []
        if isinstance(n, ast.Assign):
            tgts = n.targets
            val = n.value
        elif isinstance(n, ast.AnnAssign):
            tgts = [n.target]
            val = n.value
        else:
            continue
        for t in tgts:
            for tt in ast.walk(t):
                if is_self_attr(tt, selfname=selfname) and isinstance(tt.ctx, ast.Store):
                    out.setdefault(tt.attr, val)
    return out


@_memo
def cache_classes(repo):
    """dict subclasses defining __missing__ -> (per_position, multi)."""
    found = [
        c
        for c in repo.all_classes()
        if "dict" in c.base_names and "__missing__" in c.methods
    ]
    if len(found) != 2:
        raise AnalysisError(
            f"anchor 'cache classes': expected two dict subclasses with __missing__, found {[c.key for c in found]}"
        )
    multi = [
        c
        for c in found
        if any(
            isinstance(n, ast.Call) and call_name(n) in [o.name for o in found if o is not c]
            for n in ast.walk(c.node)
        )
    ]
    multi = _one(multi, "multi-position cache class (constructs the per-position one)")
    single = _one([c for c in found if c is not multi], "per-position cache class")
    return single, multi


def typemap(repo):
    return cache_classes(repo)[0]


def multimap(repo):
    return cache_classes(repo)[1]


@_memo
def layer_sorter(repo):
    return _one(
        [
            f
            for f in repo.all_funcs()
            if any(call_name(c) == "TopologicalSorter" for c in ast.walk(f.node) if isinstance(c, ast.Call))
        ],
        "layer sorter (function building a TopologicalSorter)",
    )


def _mentions_hook(f, attrname):
    """A two-parameter top-level function that asks its operands for the hook: hasattr(x, '<hook>'), x.<hook>, or the
    hook's name handed to a helper."""
    if len(f.params) != 2:
        return False
    for n in ast.walk(f.node):
        if isinstance(n, ast.Constant) and n.value == attrname:
            return True
        if isinstance(n, ast.Attribute) and n.attr == attrname:
            return True
    return False


def _hasattr_tests(fnode, attrname):
    return [
        c
        for c in ast.walk(fnode)
        if isinstance(c, ast.Call)
        and call_name(c) == "hasattr"
        and len(c.args) == 2
        and isinstance(c.args[1], ast.Constant)
        and c.args[1].value == attrname
    ]


@_memo
def typeorder_fn(repo):
    return _one(
        _lift(repo, [f for f in repo.all_funcs() if f.cls is None and f.parent is None and (_hasattr_tests(f.node, "__type_order__") or _mentions_hook(f, "__type_order__"))]),
        "type order function (tests hasattr(., '__type_order__'))",
    )


@_memo
def subclasscheck_fn(repo):
    return _one(
        _lift(repo, [f for f in repo.all_funcs() if f.cls is None and f.parent is None and (_hasattr_tests(f.node, "__is_supertype__") or _mentions_hook(f, "__is_supertype__"))]),
        "subtype function (tests hasattr(., '__is_supertype__'))",
    )


@_memo
def order_enum(repo):
    def ok(c):
        return "Enum" in c.base_names and {"LESS", "MORE", "SAME", "NONE"} <= set(c.class_attrs())

    return _one([c for c in repo.all_classes() if ok(c)], "Order enum")


FUNCTION_CLASS_STATE = ("_defns", "mixins", "children", "_locked", "_compiled")


@_memo
def function_class(repo):
    def ok(c):
        init = c.methods.get("__init__")
        return init is not None and set(FUNCTION_CLASS_STATE) <= set(self_attrs_assigned(init.node))

    return _one([c for c in repo.all_classes() if ok(c)], "function class (initialises _defns, mixins, children, _locked, _compiled)")


@_memo
def guard_method(repo):
    oc = function_class(repo)

    def ok(m):
        for n in ast.walk(m.node):
            if isinstance(n, ast.If) and any(is_self_attr(t, "_locked") for t in ast.walk(n.test)):
                if any(isinstance(s, ast.Raise) for b in n.body for s in ast.walk(b)):
                    return True
        return False

    return _one([m for m in oc.methods.values() if ok(m)], "guard method (raises under a test of _locked)")


@_memo
def lock_method(repo):
    oc = function_class(repo)

    def ok(m):
        if m.name == "__init__":
            return False
        for n in ast.walk(m.node):
            if isinstance(n, ast.Assign) and any(is_self_attr(t, "_locked") for t in n.targets):
                if isinstance(n.value, ast.Constant) and n.value.value is True:
                    return True
        return False

    return _one([m for m in oc.methods.values() if ok(m)], "lock method (sets _locked = True)")


@_memo
def build_method(repo):
    oc = function_class(repo)

    def ok(m):
        if m.name == "__init__":
            return False
        for n in ast.walk(m.node):
            if isinstance(n, ast.Assign) and any(is_self_attr(t, "_compiled") for t in n.targets):
                if isinstance(n.value, ast.Constant) and n.value.value is True:
                    return True
            # parallel assignment: `old, self._compiled = self._compiled, True`
            if isinstance(n, ast.Assign) and len(n.targets) == 1 and isinstance(n.targets[0], ast.Tuple) and isinstance(n.value, ast.Tuple) and len(n.targets[0].elts) == len(n.value.elts):
                for t, v in zip(n.targets[0].elts, n.value.elts):
                    if is_self_attr(t, "_compiled") and isinstance(v, ast.Constant) and v.value is True:
                        return True
        return False

    return _one([m for m in oc.methods.values() if ok(m)], "build method (sets _compiled = True)")


@_memo
def update_method(repo):
    oc = function_class(repo)
    b = build_method(repo)

    def ok(m):
        if m is b:
            return False
        for n in ast.walk(m.node):
            if isinstance(n, ast.If) and any(is_self_attr(t, "_compiled") for t in ast.walk(n.test)):
                # positive test (not `not self._compiled`)
                if isinstance(n.test, ast.UnaryOp):
                    continue
                for s in n.body:
                    for c in ast.walk(s):
                        if isinstance(c, ast.Call) and call_name(c) == f"self.{b.name}":
                            return True
        return False

    return _one([m for m in oc.methods.values() if ok(m)], "update method (rebuilds under `if self._compiled`)")


@_memo
def entry_generator(repo):
    def ok(f):
        m = f.module
        for c in ast.walk(f.node):
            if (
                isinstance(c, ast.Call)
                and isinstance(c.func, ast.Attribute)
                and c.func.attr == "format"
                and isinstance(c.func.value, ast.Name)
                and "OVLD.map" in m.str_constants.get(c.func.value.id, "")
            ):
                return True
        return False

    return _one([f for f in repo.all_funcs() if f.parent is None and ok(f)], "entry-point generator (formats the template that reads OVLD.map)")


@_memo
def dependent_generator(repo):
    def ok(f):
        for n in ast.walk(f.node):
            s = str_value(n) if isinstance(n, (ast.Constant, ast.JoinedStr)) else None
            if s and "FALLTHROUGH" in s:
                return True
        return False

    cands = [f for f in repo.all_funcs() if f.parent is None and f.cls is None and ok(f)]
    if len(cands) > 1:
        # a helper the generator delegates emission to is not the generator: keep the callers
        called = {c.func.id for f in cands for c in ast.walk(f.node) if isinstance(c, ast.Call) and isinstance(c.func, ast.Name)}
        roots = [f for f in cands if f.name not in called]
        if roots:
            cands = roots
    return _one(cands, "dependent-dispatch generator (templates mention FALLTHROUGH)")


@_memo
def rewriter(repo):
    return _one(
        [c for c in repo.all_classes() if any(b in ("ast.NodeTransformer", "NodeTransformer") for b in c.base_names)],
        "rewriter (ast.NodeTransformer subclass)",
    )


@_memo
def recompiler(repo):
    def names_of(f):
        return {call_name(c) for c in ast.walk(f.node) if isinstance(c, ast.Call)}

    def ok(f):
        names = names_of(f)
        if "FunctionType" not in names:
            return False
        if "compile" in names:
            return True
        # the compiling half moved into a private helper of the module that did not exist in the reference tree
        for g in _lift(repo, [h for h in f.module.funcs.values() if h.parent is None and h.cls is None and "compile" in names_of(h)]):
            if g is f:
                return True
        return False

    f = _one([f for f in repo.all_funcs() if f.parent is None and f.cls is None and ok(f)], "re-compiler (calls compile and FunctionType)")
    _unroll_planting_loops(f)
    return f


def _unroll_planting_loops(f):
    """`for name, value in {<const>: <expr>, ..}.items(): X.__globals__[name] = value` (the table written in place or
    held in a local assigned once) is what its straight-line unrolling is: the rules that read the plantings see one
    store per entry.  Done once, in place, on the model's copy of the function."""
    if getattr(f, "_plantings_unrolled", False):
        return
    f._plantings_unrolled = True

    def table_of(it):
        if isinstance(it, ast.Call) and isinstance(it.func, ast.Attribute) and it.func.attr == "items" and not it.args:
            d = it.func.value
            if isinstance(d, ast.Name):
                defs = [a.value for a in ast.walk(f.node) if isinstance(a, ast.Assign) and len(a.targets) == 1 and isinstance(a.targets[0], ast.Name) and a.targets[0].id == d.id]
                d = defs[0] if len(defs) == 1 else None
            if isinstance(d, ast.Dict) and d.keys and all(isinstance(k, ast.Constant) and isinstance(k.value, str) for k in d.keys):
                return d
        return None

    class Unroll(ast.NodeTransformer):
        def visit_For(self, node):
            self.generic_visit(node)
            d = table_of(node.iter)
            t = node.target
            if d is None or node.orelse or not (isinstance(t, ast.Tuple) and len(t.elts) == 2 and all(isinstance(e, ast.Name) for e in t.elts)):
                return node
            kname, vname = t.elts[0].id, t.elts[1].id
            ok = all(
                isinstance(st, ast.Assign) and len(st.targets) == 1 and isinstance(st.targets[0], ast.Subscript) and isinstance(st.targets[0].value, ast.Attribute) and st.targets[0].value.attr == "__globals__" and isinstance(st.targets[0].slice, ast.Name) and st.targets[0].slice.id == kname and isinstance(st.value, ast.Name) and st.value.id == vname
                for st in node.body
            )
            if not ok:
                return node
            import copy

            out = []
            for k, v in zip(d.keys, d.values):
                for st in node.body:
                    new = copy.deepcopy(st)
                    new.targets[0].slice = ast.copy_location(ast.Constant(value=k.value), st.targets[0].slice)
                    new.value = ast.copy_location(copy.deepcopy(v), st.value)
                    out.append(ast.copy_location(new, st))
            return out

    Unroll().visit(f.node)
    ast.fix_missing_locations(f.node)


@_memo
def rewriter_roles(repo):
    """Which attribute of the rewriter holds the emitted global name for: the function ('ovld'), its table ('map'),
    the method's own code ('code').  Found by what the re-compiler binds under each name."""
    rc = recompiler(repo)
    rw = rewriter(repo)
    owner = rc.params[1] if len(rc.params) > 1 else None
    ctor = [c for c in ast.walk(rc.node) if isinstance(c, ast.Call) and call_name(c) == rw.name]
    if len(ctor) != 1:
        raise AnalysisError(f"anchor 'rewriter construction': expected one in {rc.key}, found {len(ctor)}")
    init = rw.methods.get("__init__")
    if init is None:
        raise AnalysisError(f"anchor 'rewriter roles': {rw.key} has no __init__")
    a = init.node.args
    iparams = [x.arg for x in a.posonlyargs + a.args][1:]
    passed = {}
    for i, arg in enumerate(ctor[0].args):
        if i < len(iparams):
            passed[iparams[i]] = dotted(arg)
    for k in ctor[0].keywords:
        if k.arg:
            passed[k.arg] = dotted(k.value)
    # what is bound under each variable in the method's globals
    bound = {}
    for n in ast.walk(rc.node):
        key = val = None
        if isinstance(n, ast.Assign) and isinstance(n.targets[0], ast.Subscript) and isinstance(n.targets[0].value, ast.Attribute) and n.targets[0].value.attr == "__globals__":
            key, val = n.targets[0].slice, n.value
        elif isinstance(n, ast.Call) and isinstance(n.func, ast.Attribute) and n.func.attr == "setdefault" and isinstance(n.func.value, ast.Attribute) and n.func.value.attr == "__globals__" and len(n.args) == 2:
            key, val = n.args
        if key is not None and isinstance(key, ast.Name):
            bound[key.id] = val
    roles = {}
    selfattr = {}
    rvn = (a.posonlyargs + a.args)[0].arg
    for n in ast.walk(init.node):
        if isinstance(n, ast.Assign) and isinstance(n.value, ast.Name) and n.value.id in iparams:
            for t in n.targets:
                if is_self_attr(t, selfname=rvn):
                    selfattr[n.value.id] = t.attr
    for param, var in passed.items():
        v = bound.get(var)
        if v is None or param not in selfattr:
            continue
        if isinstance(v, ast.Attribute) and v.attr == "__code__":
            roles["code"] = (selfattr[param], param, var)
        elif isinstance(v, ast.Attribute) and v.attr == "map":
            roles["map"] = (selfattr[param], param, var)
        elif (isinstance(v, ast.Attribute) and v.attr == "dispatch") or (isinstance(v, ast.Name) and v.id == owner):
            roles["ovld"] = (selfattr[param], param, var)
    return roles


@_memo
def adapter(repo):
    """The function that decides between recompiling and renaming a method."""
    rc = recompiler(repo)

    def ok(f):
        names = {call_name(c) for c in ast.walk(f.node) if isinstance(c, ast.Call)}
        return rc.name in names and f is not rc

    return _one([f for f in rc.module.funcs.values() if f.parent is None and f.cls is None and ok(f)], "adapter (calls the re-compiler)")


@_memo
def normalizer(repo):
    def ok(c):
        return "__call__" in c.methods and "register_generic" in c.methods

    return _one([c for c in repo.all_classes() if ok(c)], "type normaliser (callable class with register_generic)")


class Registered(tuple):
    """(handler function, generic expression) with `.bindings`: closure variables of a factory-made handler -> expr."""

    def __new__(cls, f, g, bindings=None):
        o = super().__new__(cls, (f, g))
        o.bindings = bindings or {}
        return o


def _subst_names(e, env):
    class T(ast.NodeTransformer):
        def visit_Name(self, n):
            return env.get(n.id, n)

    import copy

    return T().visit(copy.deepcopy(e))


@_memo
def generic_handlers(repo):
    """Functions registered as handlers of a generic with <normaliser instance>.register_generic: as a decorator
    `@x.register_generic(G)`, or by a module-level call `x.register_generic(G, handler)` - possibly in a loop over a
    literal tuple of tuples, the handler possibly made by a factory function of the module (`factory(V)` returning an
    inner function) -> list of (func, generic expr) with `.bindings`."""
    out = []
    for f in repo.all_funcs():
        for d in f.node.decorator_list:
            if isinstance(d, ast.Call) and isinstance(d.func, ast.Attribute) and d.func.attr == "register_generic" and d.args:
                out.append(Registered(f, d.args[0]))

    def direct(mod, call, env):
        if not (isinstance(call, ast.Call) and isinstance(call.func, ast.Attribute) and call.func.attr == "register_generic" and len(call.args) == 2):
            return
        g, h = _subst_names(call.args[0], env), _subst_names(call.args[1], env)
        if isinstance(h, ast.Name) and h.id in mod.funcs:
            out.append(Registered(mod.funcs[h.id], g))
        elif isinstance(h, ast.Call) and isinstance(h.func, ast.Name) and h.func.id in mod.funcs and not h.keywords:
            fac = mod.funcs[h.func.id]
            rets = [r.value for r in ast.walk(fac.node) if isinstance(r, ast.Return) and isinstance(r.value, ast.Name)]
            inner = fac.children.get(rets[0].id) if len(rets) == 1 else None
            if inner is None or len(h.args) != len(fac.params):
                raise AnalysisError(f"anchor 'generic handlers': cannot tell which function `{ast.unparse(h)}` registers")
            out.append(Registered(inner, g, dict(zip(fac.params, h.args))))
        else:
            raise AnalysisError(f"anchor 'generic handlers': cannot tell which function `{ast.unparse(h)}` registers")

    for mod in repo.modules.values():
        for st in mod.tree.body:
            if isinstance(st, ast.Expr):
                direct(mod, st.value, {})
            elif isinstance(st, ast.For) and isinstance(st.iter, (ast.Tuple, ast.List)) and any(isinstance(x, ast.Attribute) and x.attr == "register_generic" for x in ast.walk(st)):
                for item in st.iter.elts:
                    if isinstance(st.target, ast.Name):
                        env = {st.target.id: item}
                    elif isinstance(st.target, ast.Tuple) and isinstance(item, (ast.Tuple, ast.List)) and len(item.elts) == len(st.target.elts) and all(isinstance(t, ast.Name) for t in st.target.elts):
                        env = {t.id: v for t, v in zip(st.target.elts, item.elts)}
                    else:
                        raise AnalysisError("anchor 'generic handlers': registration loop not understood")
                    for b in st.body:
                        if isinstance(b, ast.Expr):
                            direct(mod, b.value, env)
    if not out:
        raise AnalysisError("anchor 'generic handlers': no function decorated with register_generic")
    return out


@_memo
def dependent_meta(repo):
    def ok(c):
        return "type" in c.base_names and "check" in c.methods and "codegen" in c.methods

    return _one([c for c in repo.all_classes() if ok(c)], "dependent-type metaclass (derives type, defines check and codegen)")


@_memo
def cls_namespace(repo):
    def ok(c):
        return "dict" in c.base_names and "__setitem__" in c.methods

    cands = [c for c in repo.all_classes() if ok(c)]
    if len(cands) > 1:
        # the one the metaclass's __prepare__ instantiates
        metas = [c for c in repo.all_classes() if "type" in c.base_names and "__prepare__" in c.methods]
        used = {n.func.id for m in metas for n in ast.walk(m.methods["__prepare__"].node) if isinstance(n, ast.Call) and isinstance(n.func, ast.Name)}
        cands = [c for c in cands if c.name in used] or cands
    return _one(cands, "class-namespace dict (dict subclass with __setitem__)")


@_memo
def overload_meta(repo):
    def ok(c):
        return "type" in c.base_names and "__prepare__" in c.methods

    return _one([c for c in repo.all_classes() if ok(c)], "overloading metaclass (defines __prepare__)")


@_memo
def subtler_fn(repo):
    """The per-argument key function for type-valued arguments: a one-parameter module function with several
    branches returning type[...]."""

    def ok(f):
        if f.cls is not None or f.parent is not None or len(f.params) != 1:
            return False
        subs = 0
        for n in ast.walk(f.node):
            if isinstance(n, ast.Return) and n.value is not None:
                v = n.value
                if isinstance(v, ast.Subscript) and dotted(v.value) == "type":
                    subs += 1
        return subs >= 2

    return _one(_lift(repo, [f for f in repo.all_funcs() if ok(f)]), "type-valued key function (several branches returning type[...])")


@_memo
def argument_analyzer(repo):
    def ok(c):
        return "lookup_for" in c.methods or any(
            any(isinstance(n, ast.Name) and n.id == subtler_fn(repo).name for n in ast.walk(m.node)) and "compile" in c.methods
            for m in c.methods.values()
        )

    return _one([c for c in repo.all_classes() if ok(c) and c is not function_class(repo)], "argument analyser (per-position key selection)")


@_memo
def signature_class(repo):
    def ok(c):
        attrs = {st.target.id for st in c.node.body if isinstance(st, ast.AnnAssign) and isinstance(st.target, ast.Name)}
        return {"req_pos", "max_pos", "req_names", "types"} <= attrs

    return _one([c for c in repo.all_classes() if ok(c)], "signature record (req_pos, max_pos, req_names, types)")
