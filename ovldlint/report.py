"""Obligations, known findings, evidence files and verdicts."""

import json
import os
import re
import time

from .model import AnalysisError, Repo

VERIF = os.path.dirname(os.path.dirname(os.path.abspath(__file__)))
KNOWN_FILE = os.path.join(VERIF, "KNOWN_FINDINGS.txt")


class Ob:
    __slots__ = ("rule", "construct", "loc", "text", "ok", "detail")

    def __init__(self, rule, construct, loc, text, ok, detail=""):
        self.rule = rule
        self.construct = construct
        self.loc = loc
        self.text = text
        self.ok = bool(ok)
        self.detail = detail

    @property
    def key(self):
        return f"{self.rule}@{self.construct}"

    def as_dict(self):
        return {
            "rule": self.rule,
            "key": self.key,
            "loc": self.loc,
            "obligation": self.text,
            "ok": self.ok,
            **({"detail": self.detail} if self.detail else {}),
        }


class Ctx:
    """What a rule sees: the parsed repo, and sinks for obligations and notes."""

    def __init__(self, repo, prop, tier):
        self.repo = repo
        self.prop = prop
        self.tier = tier
        self.obs = []
        self.notes = []
        self.funcs = set()
        self.rule = None
        self.cache = {}

    def ob(self, construct, loc, text, ok, detail=""):
        o = Ob(self.rule, construct, loc, text, ok, detail)
        self.obs.append(o)
        return o.ok

    def note(self, text):
        self.notes.append(f"{self.rule}: {text}")

    def touch(self, *funcs):
        for f in funcs:
            if f is not None:
                self.funcs.add(f.key if hasattr(f, "key") else str(f))

    def require(self, cond, msg):
        if not cond:
            raise AnalysisError(f"{self.rule}: {msg}")
        return cond


def load_known():
    findings = {}
    fixed = []
    if not os.path.exists(KNOWN_FILE):
        return findings, fixed
    with open(KNOWN_FILE, encoding="utf-8") as f:
        for line in f:
            line = line.strip()
            if not line or line.startswith("#"):
                continue
            m = re.match(r"finding:\s+property=(\S+)\s+key=(\S+)\s+::\s+(.*)$", line)
            if m:
                findings[(m.group(1), m.group(2))] = m.group(3)
                continue
            m = re.match(r"fixed:\s+property=(\S+)\s+(\S+)\s+(.*)$", line)
            if m:
                fixed.append((m.group(1), m.group(2), m.group(3)))
    return findings, fixed


def run_property(prop, tier, rules, out=print, root=None, evdir=None):
    """rules: list of (rule_id, tier_tag 'P1'|'P2', fn, title).  Returns exit code."""
    t0 = time.time()
    try:
        seed = int(os.environ.get("VERIF_SEED", "0") or 0)
    except ValueError:
        seed = 0
    evdir = evdir or os.environ.get("OVLD_EVIDENCE") or os.path.join(VERIF, "evidence")
    evpath = os.path.join(evdir, f"{prop}.json")
    os.makedirs(os.path.dirname(evpath), exist_ok=True)
    try:
        repo = Repo(root)
        ctx = Ctx(repo, prop, tier)
        ran = []
        for rid, tag, fn, title in rules:
            if tag == "P2" and tier != "thorough":
                continue
            ctx.rule = rid
            before = len(ctx.obs)
            fn(ctx)
            n = len(ctx.obs) - before
            if n == 0:
                raise AnalysisError(
                    f"{rid} ({title}) matched no site: the rule would pass vacuously"
                )
            ran.append({"rule": rid, "title": title, "tier": tag, "obligations": n})
    except AnalysisError as e:
        out(f"ANALYSIS-ERROR property={prop} {e}")
        _write_evidence(evpath, prop, tier, seed, None, [], [], t0, error=str(e))
        return 2
    except Exception as e:  # a bug in the checker must not look like a violation
        import traceback

        tb = traceback.format_exc().strip().splitlines()
        out(f"ANALYSIS-ERROR property={prop} internal error: {type(e).__name__}: {e}")
        for ln in tb[-6:]:
            out("    " + ln)
        _write_evidence(evpath, prop, tier, seed, None, [], [], t0, error=f"{type(e).__name__}: {e}")
        return 2

    known, _fixed = load_known()
    failed = [o for o in ctx.obs if not o.ok]
    kf, viol = [], []
    seen = set()
    for o in failed:
        if o.key in seen:
            continue
        seen.add(o.key)
        if (prop, o.key) in known:
            kf.append(o)
        else:
            viol.append(o)

    files = sorted({o.loc.split(":")[0] for o in ctx.obs})
    out(
        f"{prop} {tier}: {len(ran)} rules, {len(ctx.obs)} obligations over "
        f"{len(ctx.funcs)} functions ({len(files)} files)"
    )
    for o in kf:
        out(f"KNOWN-FINDING: property={prop} {o.key} :: {known[(prop, o.key)]}")
    vdir = os.path.join(evdir, "violations")
    vpaths = []
    if viol:
        os.makedirs(vdir, exist_ok=True)
    for i, o in enumerate(viol, 1):
        p = os.path.join(vdir, f"{prop}-{i}.json")
        with open(p, "w", encoding="utf-8") as f:
            json.dump(
                {"property": prop, "tier": tier, **o.as_dict(), "repo": repo.root}, f, indent=1
            )
        vpaths.append(p)
        out(f"{o.loc} {o.rule} {o.text}: {o.detail}")
        out(f"VIOLATION property={prop} replay={p}")
    _write_evidence(evpath, prop, tier, seed, ctx, ran, kf, t0, viol=viol)
    return 1 if viol else 0


def _write_evidence(path, prop, tier, seed, ctx, ran, kf, t0, viol=(), error=None):
    if ctx is not None:
        obs = ctx.obs
        distinct = len({o.key for o in obs})
        samples = [o.as_dict() for o in obs][:400]
        cov = {
            "explanation": (
                "Static analysis of /repo/src/ovld (ast; no import, no execution). Each rule "
                "enumerates its sites by role on this run and emits one obligation per site; "
                "an obligation is discharged when the structural condition holds at that site. "
                "A failed obligation is a VIOLATION unless its rule@construct key is listed in "
                "KNOWN_FINDINGS.txt. The rules decide necessary structural clauses of the "
                "property, not the behaviour as a whole (DESIGN.md section 4)."
            ),
            "obligations": len(obs),
            "discharged": sum(1 for o in obs if o.ok),
            "evaluations": len(obs),
            "distinct_nontrivial": distinct,
            "rule": "one obligation per (rule, construct) matched in the current source; "
            "distinct = distinct rule@construct keys; every obligation is anchored on a real site",
            "rules": ran,
            "functions_analysed": sorted(ctx.funcs),
            "known_findings": [o.key for o in kf],
            "notes": ctx.notes,
            "samples": samples,
            "checker_cmd": f"./check {prop} {tier}",
            "trusted_base": ["CPython ast module (parser)", "the rule definitions in /verif/ovldlint/rules"],
            "exhaustive": True,
        }
    else:
        cov = {"explanation": f"analysis error: {error}", "obligations": 0, "discharged": 0}
    ev = {
        "property_id": prop,
        "tier": tier,
        "seed": seed,
        "level": "other",
        "coverage": cov,
        "assumptions": [
            "the nine modules under src/ovld are the whole program (generated code is read from its templates)",
            "rules are necessary conditions: a pass does not prove the behavioural property",
        ],
        "wall_s": round(time.time() - t0, 3),
        "violations": len(viol),
    }
    with open(path, "w", encoding="utf-8") as f:
        json.dump(ev, f, indent=1)
