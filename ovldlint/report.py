"""Obligations, known findings, evidence files and verdicts."""

import json
import os
import re
import time

from .model import AnalysisError, Repo

VERIF = os.path.dirname(os.path.dirname(os.path.abspath(__file__)))
KNOWN_FILE = os.path.join(VERIF, "KNOWN_FINDINGS.txt")


class Ob:
    __slots__ = ("rule", "construct", "loc", "text", "ok", "detail")

    def __init__(self, rule, construct, loc, text, ok, detail=""):
        self.rule = rule
        self.construct = construct
        self.loc = loc
        self.text = text
        self.ok = bool(ok)
        self.detail = detail

    @property
    def key(self):
        return f"{self.rule}@{self.construct}"

    def as_dict(self):
        return {
            "rule": self.rule,
            "key": self.key,
            "loc": self.loc,
            "obligation": self.text,
            "ok": self.ok,
            **({"detail": self.detail} if self.detail else {}),
        }


class Ctx:
    """What a rule sees: the parsed repo, and sinks for obligations and notes."""

    def __init__(self, repo, prop, tier):
        self.repo = repo
        self.prop = prop
        self.tier = tier
        self.obs = []
        self.notes = []
        self.funcs = set()
        self.rule = None
        self.cache = {}

    def ob(self, construct, loc, text, ok, detail=""):
        o = Ob(self.rule, construct, loc, text, ok, detail)
        self.obs.append(o)
        return o.ok

    def note(self, text):
        self.notes.append(f"{self.rule}: {text}")

    def touch(self, *funcs):
        for f in funcs:
            if f is not None:
                self.funcs.add(f.key if hasattr(f, "key") else str(f))

    def require(self, cond, msg):
        if not cond:
            raise AnalysisError(f"{self.rule}: {msg}")
        return cond


def load_known():
    findings = {}
    fixed = []
    if not os.path.exists(KNOWN_FILE):
        return findings, fixed
    with open(KNOWN_FILE, encoding="utf-8") as f:
        for line in f:
            line = line.strip()
            if not line or line.startswith("#"):
                continue
            m = re.match(r"finding:\s+property=(\S+)\s+key=(\S+)\s+::\s+(.*)$", line)
            if m:
                findings[(m.group(1), m.group(2))] = m.group(3)
                continue
            m = re.match(r"fixed:\s+property=(\S+)\s+(\S+)\s+(.*)$", line)
            if m:
                fixed.append((m.group(1), m.group(2), m.group(3)))
    return findings, fixed


def self_validate(prop, rules):
    """Thorough tier only: run this property's rules over the variant corpus (single-edit variants and seeded
    changes applied to scratch copies of the current tree) and compare with the frozen expectations.  This
    validates the checker, not the tree: a mismatch is reported but never changes the verdict."""
    import glob
    import multiprocessing as mp
    import re
    import shutil
    import subprocess
    import tempfile

    st = os.path.join(VERIF, "selftest")
    try:
        expect = json.load(open(os.path.join(st, "expect.json")))
    except (OSError, ValueError):
        return None
    variants = []
    for pth in sorted(glob.glob(os.path.join(st, "survey", "b*.json"))) + [os.path.join(st, "extra.json")]:
        if os.path.exists(pth):
            for x in json.load(open(pth)):
                variants.append(("edit", x[0], x[1], x[2], x[3], x[4] if len(x) > 4 else None))
    seeded = os.path.join(VERIF, "seeded")
    if os.path.isdir(seeded):
        for sid in sorted(os.listdir(seeded)):
            mp_ = os.path.join(seeded, sid, "meta.json")
            if os.path.exists(mp_):
                meta = json.load(open(mp_))
                variants.append(("patch", sid, os.path.join(seeded, sid, "patch.diff"), meta.get("property"), None, None))
    refactors = os.path.join(VERIF, "refactors")
    if os.path.isdir(refactors):
        for rid in sorted(os.listdir(refactors)):
            pf = os.path.join(refactors, rid, "patch.diff")
            if os.path.exists(pf):
                variants.append(("patch", rid, pf, "<silent>", None, None))
    jobs = []
    for v in variants:
        if v[0] == "patch" and v[3] == "<silent>":
            jobs.append((v, "silent"))
            continue
        if v[0] == "edit":
            e = expect.get(v[1])
            if e is None:
                continue
            if e.get("silent") or prop in e.get("fire", []):
                jobs.append((v, "silent" if e.get("silent") else "fire"))
        else:
            if v[3] == prop:
                jobs.append((v, "fire"))
    results = _pool_map(_sv_one, [(prop, rules_id(rules), v, want, repo_root()) for v, want in jobs])
    return results


def rules_id(rules):
    return [r[0] for r in rules]


def repo_root():
    from .model import repo_root as rr

    return rr()


def _pool_map(fn, items):
    import multiprocessing as mp

    if not items:
        return []
    with mp.Pool(min(16, len(items))) as pool:
        return pool.map(fn, items)


def _sv_one(arg):
    import re
    import shutil
    import subprocess
    import tempfile

    from .rules import rules_for

    prop, rids, v, want, root = arg
    tmp = tempfile.mkdtemp(prefix="ovldlint-sv-")
    try:
        shutil.copytree(os.path.join(root, "src", "ovld"), os.path.join(tmp, "src", "ovld"))
        if v[0] == "edit":
            _, name, file, old, new, mode = v
            path = os.path.join(tmp, file)
            s = open(path).read()
            if mode == "word":
                if not re.search(r"\b%s\b" % re.escape(old), s):
                    return (name, want, "skipped")
                s = re.sub(r"\b%s\b" % re.escape(old), new, s)
            else:
                if old not in s:
                    return (name, want, "skipped")
                s = s.replace(old, new, 1)
            open(path, "w").write(s)
        else:
            name = v[1]
            subprocess.run(["git", "init", "-q"], cwd=tmp, capture_output=True)
            ap = subprocess.run(["git", "apply", "--whitespace=nowarn", v[2]], cwd=tmp, capture_output=True, text=True)
            if ap.returncode != 0:
                return (name, want, "skipped")
        rc = run_property(prop, "thorough", rules_for(prop), out=lambda *_: None, root=tmp, evdir=os.path.join(tmp, "ev"), selfval=False)
        got = {0: "silent", 1: "fire", 2: "error"}[rc]
        return (name, want, got)
    finally:
        shutil.rmtree(tmp, ignore_errors=True)


def run_property(prop, tier, rules, out=print, root=None, evdir=None, selfval=True):
    """rules: list of (rule_id, tier_tag 'P1'|'P2', fn, title).  Returns exit code."""
    t0 = time.time()
    try:
        seed = int(os.environ.get("VERIF_SEED", "0") or 0)
    except ValueError:
        seed = 0
    evdir = evdir or os.environ.get("OVLD_EVIDENCE") or os.path.join(VERIF, "evidence")
    evpath = os.path.join(evdir, f"{prop}.json")
    os.makedirs(os.path.dirname(evpath), exist_ok=True)
    try:
        repo = Repo(root)
        ctx = Ctx(repo, prop, tier)
        from . import orderdom

        orderdom.PACKAGE = repo
        ran = []
        undecided = []
        for rid, tag, fn, title in rules:
            if tag == "P2" and tier != "thorough":
                continue
            ctx.rule = rid
            before = len(ctx.obs)
            try:
                fn(ctx)
                n = len(ctx.obs) - before
                if n == 0:
                    raise AnalysisError(
                        f"{rid} ({title}) matched no site: the rule would pass vacuously"
                    )
            except AnalysisError as e:
                # this rule could not be decided on this tree.  The other rules still run: a violation one of them
                # establishes stands on its own (exit 1); without one the run is analysis-broken (exit 2), never a pass
                del ctx.obs[before:]
                undecided.append((rid, str(e)))
                continue
            ran.append({"rule": rid, "title": title, "tier": tag, "obligations": n})
        if undecided:
            known_, _f = load_known()
            fresh = [o for o in ctx.obs if not o.ok and (prop, o.key) not in known_]
            if not fresh:
                raise AnalysisError(undecided[0][1])
    except AnalysisError as e:
        out(f"ANALYSIS-ERROR property={prop} {e}")
        _write_evidence(evpath, prop, tier, seed, None, [], [], t0, error=str(e))
        return 2
    except Exception as e:  # a bug in the checker must not look like a violation
        import traceback

        tb = traceback.format_exc().strip().splitlines()
        out(f"ANALYSIS-ERROR property={prop} internal error: {type(e).__name__}: {e}")
        for ln in tb[-6:]:
            out("    " + ln)
        _write_evidence(evpath, prop, tier, seed, None, [], [], t0, error=f"{type(e).__name__}: {e}")
        return 2

    known, _fixed = load_known()
    failed = [o for o in ctx.obs if not o.ok]
    kf, viol = [], []
    seen = set()
    for o in failed:
        if o.key in seen:
            continue
        seen.add(o.key)
        if (prop, o.key) in known:
            kf.append(o)
        else:
            viol.append(o)

    files = sorted({o.loc.split(":")[0] for o in ctx.obs})
    out(
        f"{prop} {tier}: {len(ran)} rules, {len(ctx.obs)} obligations over "
        f"{len(ctx.funcs)} functions ({len(files)} files)"
    )
    for o in kf:
        out(f"KNOWN-FINDING: property={prop} {o.key} :: {known[(prop, o.key)]}")
    for rid, msg in undecided:
        out(f"UNDECIDED rule={rid} {msg}")
    vdir = os.path.join(evdir, "violations")
    vpaths = []
    if viol:
        os.makedirs(vdir, exist_ok=True)
    for i, o in enumerate(viol, 1):
        p = os.path.join(vdir, f"{prop}-{i}.json")
        with open(p, "w", encoding="utf-8") as f:
            json.dump(
                {"property": prop, "tier": tier, **o.as_dict(), "repo": repo.root}, f, indent=1
            )
        vpaths.append(p)
        out(f"{o.loc} {o.rule} {o.text}: {o.detail}")
        out(f"VIOLATION property={prop} replay={p}")
    sv = None
    if tier == "thorough" and selfval and root is None:
        try:
            sv = self_validate(prop, rules)
        except Exception as e:  # the self-validation must never decide the verdict
            out(f"SELF-VALIDATION-SKIPPED {type(e).__name__}: {e}")
        if sv is not None:
            fired = [r for r in sv if r[1] == "fire"]
            silent = [r for r in sv if r[1] == "silent"]
            bad = [r for r in sv if r[2] != "skipped" and r[1] != r[2]]
            out(
                f"{prop} self-validation: {sum(1 for r in fired if r[2] == 'fire')}/{sum(1 for r in fired if r[2] != 'skipped')} must-fire variants reported, "
                f"{sum(1 for r in silent if r[2] == 'silent')}/{sum(1 for r in silent if r[2] != 'skipped')} must-stay-silent variants silent"
            )
            for r in bad:
                out(f"SELF-VALIDATION-MISMATCH {prop} variant={r[0]} expected={r[1]} got={r[2]}")
    _write_evidence(evpath, prop, tier, seed, ctx, ran, kf, t0, viol=viol, sv=sv)
    return 1 if viol else 0


def _write_evidence(path, prop, tier, seed, ctx, ran, kf, t0, viol=(), error=None, sv=None):
    if ctx is not None:
        obs = ctx.obs
        distinct = len({o.key for o in obs})
        samples = [o.as_dict() for o in obs][:400]
        cov = {
            "explanation": (
                "Static analysis of /repo/src/ovld (ast; no import, no execution). Each rule "
                "enumerates its sites by role on this run and emits one obligation per site; "
                "an obligation is discharged when the structural condition holds at that site. "
                "A failed obligation is a VIOLATION unless its rule@construct key is listed in "
                "KNOWN_FINDINGS.txt. The rules decide necessary structural clauses of the "
                "property, not the behaviour as a whole (DESIGN.md section 4)."
            ),
            "obligations": len(obs),
            "discharged": sum(1 for o in obs if o.ok),
            "evaluations": len(obs),
            "distinct_nontrivial": distinct,
            "rule": "one obligation per (rule, construct) matched in the current source; "
            "distinct = distinct rule@construct keys; every obligation is anchored on a real site",
            "rules": ran,
            "functions_analysed": sorted(ctx.funcs),
            "known_findings": [o.key for o in kf],
            "notes": ctx.notes,
            "samples": samples,
            "checker_cmd": f"./check {prop} {tier}",
            "trusted_base": ["CPython ast module (parser)", "the rule definitions in /verif/ovldlint/rules"],
            "exhaustive": True,
        }
        if sv is not None:
            cov["self_validation"] = {
                "what": "this property's rules re-run on scratch copies of the current tree with one variant applied each (single-edit variants from the mutation survey, reverse patches of the repaired defects, behaviour-preserving refactorings, and changes seeded by independent sub-agents); validates the checker, never the verdict",
                "must_fire": sum(1 for r in sv if r[1] == "fire" and r[2] != "skipped"),
                "fired": sum(1 for r in sv if r[1] == "fire" and r[2] == "fire"),
                "must_stay_silent": sum(1 for r in sv if r[1] == "silent" and r[2] != "skipped"),
                "silent": sum(1 for r in sv if r[1] == "silent" and r[2] == "silent"),
                "skipped_no_longer_applicable": sum(1 for r in sv if r[2] == "skipped"),
                "mismatches": [list(r) for r in sv if r[2] != "skipped" and r[1] != r[2]],
                "fired_variants": sorted(r[0] for r in sv if r[1] == "fire" and r[2] == "fire"),
            }
    else:
        cov = {"explanation": f"analysis error: {error}", "obligations": 0, "discharged": 0}
    ev = {
        "property_id": prop,
        "tier": tier,
        "seed": seed,
        "level": "other",
        "coverage": cov,
        "assumptions": [
            "the nine modules under src/ovld are the whole program (generated code is read from its templates)",
            "rules are necessary conditions: a pass does not prove the behavioural property",
        ],
        "wall_s": round(time.time() - t0, 3),
        "violations": len(viol),
    }
    with open(path, "w", encoding="utf-8") as f:
        json.dump(ev, f, indent=1)
