"""Source model of the ovld package: parsed modules, functions, classes, import map.

Nothing here imports or executes /repo.  The tree is selected by OVLD_REPO (default /repo).
"""

import ast
import os
import symtable


class AnalysisError(Exception):
    """An anchor vanished or a construct is outside what the analysis understands (exit 2)."""


def repo_root():
    return os.environ.get("OVLD_REPO", "/repo")


PKG_REL = "src/ovld"


class FuncInfo:
    def __init__(self, module, qualname, node, cls=None, parent=None):
        self.module = module
        self.qualname = qualname
        self.node = node
        self.cls = cls  # ClassInfo or None
        self.parent = parent  # enclosing FuncInfo or None
        self.children = {}

    @property
    def name(self):
        return self.node.name

    @property
    def key(self):
        return f"{self.module.name}.{self.qualname}"

    @property
    def params(self):
        a = self.node.args
        return [x.arg for x in a.posonlyargs + a.args + a.kwonlyargs] + (
            [a.vararg.arg] if a.vararg else []
        ) + ([a.kwarg.arg] if a.kwarg else [])

    def loc(self, node=None):
        node = node or self.node
        return f"{self.module.rel}:{getattr(node, 'lineno', '?')}"

    def __repr__(self):
        return f"<Func {self.key}>"


class ClassInfo:
    def __init__(self, module, qualname, node, parent_func=None):
        self.module = module
        self.qualname = qualname
        self.node = node
        self.methods = {}
        self.parent_func = parent_func

    @property
    def name(self):
        return self.node.name

    @property
    def key(self):
        return f"{self.module.name}.{self.qualname}"

    @property
    def base_names(self):
        return [dotted(b) for b in self.node.bases]

    def class_attrs(self):
        out = {}
        for st in self.node.body:
            if isinstance(st, ast.Assign):
                for t in st.targets:
                    if isinstance(t, ast.Name):
                        out[t.id] = st.value
            elif isinstance(st, ast.AnnAssign) and isinstance(st.target, ast.Name):
                out[st.target.id] = st.value
        return out

    def loc(self, node=None):
        node = node or self.node
        return f"{self.module.rel}:{getattr(node, 'lineno', '?')}"

    def __repr__(self):
        return f"<Class {self.key}>"


class Module:
    def __init__(self, name, path, rel):
        self.name = name
        self.path = path
        self.rel = rel
        with open(path, encoding="utf-8") as f:
            self.src = f.read()
        try:
            self.tree = ast.parse(self.src, filename=path)
        except SyntaxError as e:
            raise AnalysisError(f"{rel} does not parse: {e}")
        self.inlined = []
        if os.environ.get("OVLDLINT_NO_INLINE") != "1":
            from .inline import inline_new_helpers, propagate_all

            try:
                self.tree, self.inlined = inline_new_helpers(name, self.tree)
            except RecursionError:  # pragma: no cover
                self.inlined = []
            propagate_all(self.tree)
        self.funcs = {}
        self.classes = {}
        self.imports = {}  # local name -> (module, name) for in-package; ('ext', dotted) otherwise
        self.str_constants = {}
        self.assigns = {}  # module-level simple assignments name -> value node
        self._index()
        try:
            self.symtable = symtable.symtable(self.src, path, "exec")
        except SyntaxError as e:  # pragma: no cover
            raise AnalysisError(f"{rel} symtable: {e}")

    def _index(self):
        for st in self.tree.body:
            if isinstance(st, ast.ImportFrom):
                for al in st.names:
                    local = al.asname or al.name
                    if st.level >= 1:
                        self.imports[local] = ("pkg", st.module or "", al.name)
                    else:
                        self.imports[local] = ("ext", st.module, al.name)
            elif isinstance(st, ast.Import):
                for al in st.names:
                    local = al.asname or al.name.split(".")[0]
                    self.imports[local] = ("extmod", al.name, None)
            elif isinstance(st, ast.Assign):
                for t in st.targets:
                    if isinstance(t, ast.Name):
                        self.assigns[t.id] = st.value
                        if isinstance(st.value, ast.Constant) and isinstance(
                            st.value.value, str
                        ):
                            self.str_constants[t.id] = st.value.value
            elif isinstance(st, ast.Try):
                # utils.py: try: from types import UnionType ...
                for sub in st.body:
                    if isinstance(sub, ast.ImportFrom):
                        for al in sub.names:
                            self.imports[al.asname or al.name] = ("ext", sub.module, al.name)
                    elif isinstance(sub, ast.Assign):
                        for t in sub.targets:
                            if isinstance(t, ast.Name):
                                self.assigns[t.id] = sub.value
        self._walk(self.tree.body, "", None, None)

    def _walk(self, body, prefix, cls, parent_func):
        for st in body:
            if isinstance(st, (ast.FunctionDef, ast.AsyncFunctionDef)):
                qn = prefix + st.name
                # several module-level `def _` (generic handlers) share a name: disambiguate
                if qn in self.funcs:
                    k = 2
                    while f"{qn}#{k}" in self.funcs:
                        k += 1
                    qn = f"{qn}#{k}"
                fi = FuncInfo(self, qn, st, cls=cls, parent=parent_func)
                if qn in self.inlined:
                    # a helper introduced by an extract-method refactoring: analysed where it is called
                    self._walk(st.body, qn + ".", None, fi)
                    continue
                self.funcs[qn] = fi
                if cls is not None:
                    cls.methods.setdefault(st.name, fi)
                if parent_func is not None:
                    parent_func.children[st.name] = fi
                self._walk(st.body, qn + ".", None, fi)
            elif isinstance(st, ast.ClassDef):
                qn = prefix + st.name
                ci = ClassInfo(self, qn, st, parent_func)
                self.classes[qn] = ci
                self._walk(st.body, qn + ".", ci, parent_func)
            elif isinstance(st, (ast.If, ast.Try, ast.With, ast.For, ast.While)):
                for fld in ("body", "orelse", "finalbody"):
                    self._walk(getattr(st, fld, []) or [], prefix, cls, parent_func)
                for h in getattr(st, "handlers", []) or []:
                    self._walk(h.body, prefix, cls, parent_func)


class Repo:
    MODULES = ("__init__", "abc", "core", "dependent", "mro", "recode", "typemap", "types", "utils")

    def __init__(self, root=None):
        self.root = root or repo_root()
        self.pkg = os.path.join(self.root, PKG_REL)
        if not os.path.isdir(self.pkg):
            raise AnalysisError(f"package directory {self.pkg} not found")
        self.modules = {}
        for fn in sorted(os.listdir(self.pkg)):
            if fn.endswith(".py"):
                name = fn[:-3]
                self.modules[name] = Module(name, os.path.join(self.pkg, fn), f"{PKG_REL}/{fn}")
        for m in ("core", "typemap", "mro", "recode", "types", "dependent", "utils", "abc"):
            if m not in self.modules:
                raise AnalysisError(f"module {m}.py vanished from {self.pkg}")

    # ------------------------------------------------------------------ lookups
    def mod(self, name):
        return self.modules[name]

    def all_funcs(self):
        for m in self.modules.values():
            yield from m.funcs.values()

    def all_classes(self):
        for m in self.modules.values():
            yield from m.classes.values()

    def func(self, module, qualname, required=True):
        fi = self.modules[module].funcs.get(qualname)
        if fi is None and required:
            raise AnalysisError(f"anchor function {module}.{qualname} not found")
        return fi

    def cls(self, module, qualname, required=True):
        ci = self.modules[module].classes.get(qualname)
        if ci is None and required:
            raise AnalysisError(f"anchor class {module}.{qualname} not found")
        return ci

    def resolve_name(self, module, name):
        """Resolve a global name used in `module` to ('func'|'class', info) in the package."""
        m = module
        seen = set()
        while True:
            if (m.name, name) in seen:
                return None
            seen.add((m.name, name))
            if name in m.funcs:
                return ("func", m.funcs[name])
            if name in m.classes:
                return ("class", m.classes[name])
            imp = m.imports.get(name)
            if imp and imp[0] == "pkg" and imp[1] in self.modules:
                m = self.modules[imp[1]]
                name = imp[2]
                continue
            return None

    def class_mro(self, ci):
        """In-package linearisation (depth-first, good enough for single inheritance chains)."""
        out = [ci]
        for b in ci.node.bases:
            bn = dotted(b)
            if bn is None:
                continue
            r = self.resolve_name(ci.module, bn.split(".")[0]) if "." not in bn else None
            if r and r[0] == "class":
                for c in self.class_mro(r[1]):
                    if c not in out:
                        out.append(c)
        return out

    def raw_methods(self, ci):
        """name -> FunctionDef of the class chain as written in the source (helpers not inlined): what an
        interpretation of the class's objects executes."""
        out = {}
        for c in reversed(self.class_mro(ci)):
            mod = c.module
            if not hasattr(mod, "_raw_tree"):
                mod._raw_tree = ast.parse(mod.src)
            body = mod._raw_tree.body
            node = None
            for part in c.name.split("."):
                node = None
                stack = list(body)
                while stack:
                    st = stack.pop(0)
                    if isinstance(st, (ast.ClassDef, ast.FunctionDef)) and st.name == part:
                        node = st
                        break
                    if isinstance(st, (ast.If, ast.Try, ast.With, ast.For, ast.While)):
                        for fld in ("body", "orelse", "finalbody"):
                            stack.extend(getattr(st, fld, []) or [])
                if node is None:
                    break
                body = node.body
            if isinstance(node, ast.ClassDef):
                for st in node.body:
                    if isinstance(st, ast.FunctionDef):
                        out[st.name] = st
        return out

    def find_method(self, ci, name):
        for c in self.class_mro(ci):
            if name in c.methods:
                return c.methods[name]
        return None

    def subclasses_of(self, ci):
        out = []
        for c in self.all_classes():
            if c is not ci and ci in self.class_mro(c):
                out.append(c)
        return out


# ---------------------------------------------------------------------- AST helpers


def dotted(node):
    """a.b.c -> 'a.b.c'; Name -> id; else None."""
    parts = []
    while isinstance(node, ast.Attribute):
        parts.append(node.attr)
        node = node.value
    if isinstance(node, ast.Name):
        parts.append(node.id)
        return ".".join(reversed(parts))
    return None


def call_name(call):
    return dotted(call.func) if isinstance(call, ast.Call) else None


def src(node):
    try:
        return ast.unparse(node)
    except Exception:  # pragma: no cover
        return "<?>"


def short(node, n=90):
    s = " ".join(src(node).split())
    return s if len(s) <= n else s[: n - 3] + "..."


def walk_no_nested(node, include_self=True):
    """ast.walk that does not descend into nested function/class/lambda bodies."""
    stack = [node] if include_self else list(ast.iter_child_nodes(node))
    first = True
    while stack:
        n = stack.pop()
        yield n
        if not first or not include_self:
            if isinstance(n, (ast.FunctionDef, ast.AsyncFunctionDef, ast.ClassDef, ast.Lambda)):
                continue
        first = False
        stack.extend(reversed(list(ast.iter_child_nodes(n))))


def func_body_nodes(fnode):
    """All nodes in the function's own body (not nested defs' bodies, but including the nested def nodes)."""
    for st in fnode.body:
        yield from _walk_stop(st)


def _walk_stop(n):
    yield n
    if isinstance(n, (ast.FunctionDef, ast.AsyncFunctionDef, ast.ClassDef, ast.Lambda)):
        return
    for c in ast.iter_child_nodes(n):
        yield from _walk_stop(c)


def calls_in(node, nested=True):
    it = ast.walk(node) if nested else walk_no_nested(node)
    return [n for n in it if isinstance(n, ast.Call)]


def names_in(node, ctx=None):
    out = []
    for n in ast.walk(node):
        if isinstance(n, ast.Name) and (ctx is None or isinstance(n.ctx, ctx)):
            out.append(n.id)
    return out


def is_self_attr(node, attr=None, selfname="self"):
    return (
        isinstance(node, ast.Attribute)
        and isinstance(node.value, ast.Name)
        and node.value.id == selfname
        and (attr is None or node.attr == attr)
    )


def contains(node, pred):
    return any(pred(n) for n in ast.walk(node))


def _single_def(fnode, name):
    if fnode is None:
        return None
    defs = [n for n in ast.walk(fnode) if isinstance(n, ast.Assign) and len(n.targets) == 1 and isinstance(n.targets[0], ast.Name) and n.targets[0].id == name]
    others = [n for n in ast.walk(fnode) if isinstance(n, ast.Name) and n.id == name and isinstance(n.ctx, ast.Store)]
    if len(defs) == 1 and len(others) == 1:
        return defs[0].value
    # `name = <a>` followed, in the same straight-line block and before any use, by `name += <b>` steps: <a> + <b>
    augs = [n for n in ast.walk(fnode) if isinstance(n, ast.AugAssign) and isinstance(n.target, ast.Name) and n.target.id == name]
    if len(defs) == 1 and augs and len(others) == 1 + len(augs) and all(isinstance(a.op, ast.Add) for a in augs):
        body = getattr(fnode, "body", [])
        if defs[0] in body and all(a in body for a in augs):
            last = max(a.lineno for a in augs)
            loads = [n for n in ast.walk(fnode) if isinstance(n, ast.Name) and n.id == name and isinstance(n.ctx, ast.Load)]
            if min(a.lineno for a in augs) > defs[0].lineno and all(n.lineno > last for n in loads):
                val = defs[0].value
                for a in sorted(augs, key=lambda a: a.lineno):
                    val = ast.copy_location(ast.BinOp(left=val, op=ast.Add(), right=a.value), a)
                return val
    return None


def _format_fields(fmt):
    """Split a str.format template into ('lit', text) / ('field', name) parts (final text: {{ -> {)."""
    out = []
    i = 0
    buf = ""
    auto = 0
    while i < len(fmt):
        c = fmt[i]
        if c == "{":
            if fmt[i : i + 2] == "{{":
                buf += "{"
                i += 2
                continue
            j = fmt.find("}", i)
            if j < 0:
                return None
            field = fmt[i + 1 : j]
            conv = ""
            if "!" in field:
                conv = "!" + field.split("!")[1].split(":")[0]
            field = field.split("!")[0].split(":")[0]
            if buf:
                out.append(("lit", buf))
                buf = ""
            if field == "":
                field = str(auto)
                auto += 1
            out.append(("field", field, conv))
            i = j + 1
            continue
        if c == "}":
            if fmt[i : i + 2] == "}}":
                buf += "}"
                i += 2
                continue
            return None
        buf += c
        i += 1
    if buf:
        out.append(("lit", buf))
    return out


def template_of(node, fnode=None, depth=0):
    """The text a string-building expression produces, with §expr§ holes for the non-literal parts.

    Understands literals, f-strings, `"...".format(...)`, `+` concatenation, `str(x)` and (given the enclosing
    function) names assigned once from such expressions.  None if the expression does not build a string this way."""
    if depth > 6:
        return None
    if isinstance(node, ast.Constant) and isinstance(node.value, str):
        return node.value
    if isinstance(node, ast.JoinedStr):
        out = []
        for v in node.values:
            if isinstance(v, ast.Constant):
                out.append(str(v.value))
            elif isinstance(v, ast.FormattedValue):
                conv = {-1: "", 114: "!r", 115: "!s", 97: "!a"}.get(v.conversion, "")
                inner = None
                if isinstance(v.value, ast.Name) and not conv:
                    d = _single_def(fnode, v.value.id)
                    if d is not None and isinstance(d, (ast.BinOp, ast.JoinedStr)) :
                        inner = template_of(d, fnode, depth + 1)
                out.append(inner if inner is not None else "§" + src(v.value) + conv + "§")
        return "".join(out)
    if isinstance(node, ast.Call) and isinstance(node.func, ast.Attribute) and node.func.attr == "format":
        base = node.func.value
        if isinstance(base, ast.Name):
            base = _single_def(fnode, base.id) or base
        if not (isinstance(base, ast.Constant) and isinstance(base.value, str)):
            return None
        parts = _format_fields(base.value)
        if parts is None or any(isinstance(a, ast.Starred) for a in node.args) or any(k.arg is None for k in node.keywords):
            return None
        kw = {k.arg: k.value for k in node.keywords}
        out = []
        for part in parts:
            kind, val = part[0], part[1]
            conv = part[2] if len(part) > 2 else ""
            if kind == "lit":
                out.append(val)
                continue
            arg = None
            if val.isdigit() and int(val) < len(node.args):
                arg = node.args[int(val)]
            elif val in kw:
                arg = kw[val]
            if arg is None:
                return None
            t = None
            if isinstance(arg, (ast.JoinedStr, ast.BinOp)) or (isinstance(arg, ast.Constant) and isinstance(arg.value, str)):
                t = template_of(arg, fnode, depth + 1)
            elif isinstance(arg, ast.Name):
                d = _single_def(fnode, arg.id)
                if d is not None and isinstance(d, (ast.BinOp, ast.JoinedStr)):
                    t = template_of(d, fnode, depth + 1)
            elif isinstance(arg, ast.Call) and call_name(arg) == "repr" and len(arg.args) == 1:
                t = "§" + src(arg.args[0]) + "!r§"
            out.append(t if t is not None and not conv else "§" + src(arg) + conv + "§")
        return "".join(out)
    if isinstance(node, ast.BinOp) and isinstance(node.op, ast.Add):
        a = template_of(node.left, fnode, depth + 1)
        b = template_of(node.right, fnode, depth + 1)
        if a is None and isinstance(node.left, ast.Name):
            a = "§" + node.left.id + "§"
        if b is None and isinstance(node.right, ast.Name):
            b = "§" + node.right.id + "§"
        if a is None or b is None:
            return None
        return a + b
    if isinstance(node, ast.Call) and call_name(node) == "str" and len(node.args) == 1:
        return "§" + src(node.args[0]) + "§"
    if isinstance(node, ast.Call) and call_name(node) == "repr" and len(node.args) == 1:
        return "§" + src(node.args[0]) + "!r§"
    if isinstance(node, ast.Name):
        d = _single_def(fnode, node.id)
        if d is not None and not isinstance(d, ast.Name):
            return template_of(d, fnode, depth + 1)
    return None


def str_value(node, fnode=None):
    """Value of a string-building expression rendered with §holes§; None otherwise."""
    if isinstance(node, (ast.Constant, ast.JoinedStr)):
        return template_of(node, fnode) if not (isinstance(node, ast.Constant) and not isinstance(node.value, str)) else None
    if fnode is not None or isinstance(node, (ast.BinOp, ast.Call)):
        t = template_of(node, fnode)
        return t
    return None


def parent_map(root):
    pm = {}
    for n in ast.walk(root):
        for c in ast.iter_child_nodes(n):
            pm[c] = n
    return pm


def enclosing_stmt(node, pm):
    while node in pm and not isinstance(node, ast.stmt):
        node = pm[node]
    return node


def assigned_names(target):
    """Names bound by an assignment target."""
    out = []
    for n in ast.walk(target):
        if isinstance(n, ast.Name) and isinstance(n.ctx, ast.Store):
            out.append(n.id)
    return out
