"""C08 - recurse always re-enters the overloaded function that was actually called."""

import ast

from .. import anchors as A
from ..cfg import all_stmts
from ..effects import func_writes
from ..model import AnalysisError, call_name, dotted, is_self_attr, short, src, str_value
from .common import cfg_of, recv_name


def _search_fn(ctx):
    ad = A.adapter(ctx.repo)
    names = {call_name(c) for c in ast.walk(ad.node) if isinstance(c, ast.Call)}
    cands = [f for f in ad.module.funcs.values() if f.parent is None and f.name in names and any(isinstance(x, ast.Attribute) and x.attr == "co_names" for x in ast.walk(f.node))]
    ctx.require(len(cands) == 1, f"expected one name-search helper used by {ad.key}, found {[c.key for c in cands]}")
    return cands[0]


def r1_self_references_found(ctx):
    from . import adaptexec
    from .common import run_fallback
    from .rewriter import law_all_names

    n0 = len(ctx.obs)
    try:
        adaptexec.law(ctx, "all-references", "call_next-found", "plain-methods-renamed")
        law_all_names(ctx)
    except AnalysisError as e:
        del ctx.obs[n0:]
        run_fallback(ctx, _r1_self_references_found_shape, e, "adapter")


def _r1_self_references_found_shape(ctx):
    repo = ctx.repo
    ad = A.adapter(repo)
    sf = _search_fn(ctx)
    ctx.touch(ad, sf)
    fnp, ownerp = ad.params[0], ad.params[1]
    calls = [c for c in ast.walk(ad.node) if isinstance(c, ast.Call) and call_name(c) == sf.name]
    ctx.require(calls, f"{ad.key} no longer calls {sf.name}")
    # the recurse search: the call whose value tuple mentions the owner
    rec = [c for c in calls if any(isinstance(x, ast.Name) and x.id == ownerp for x in ast.walk(c.args[1]))] if all(len(c.args) >= 2 for c in calls) else []
    mod = ad.module
    recurse_syms = [k for k, v in mod.assigns.items() if isinstance(v, ast.Call) and call_name(v) == "Unusable"]
    ctx.require(len(recurse_syms) >= 2, "the recurse / call_next placeholder symbols were not found")
    want_any = [c for c in calls if len(c.args) >= 2 and isinstance(c.args[1], ast.Tuple)]
    best = None
    for c in want_any:
        elts = [src(e) for e in c.args[1].elts]
        if "recurse" in elts:
            best = (c, elts)
    ctx.require(best is not None, f"{ad.key}: no search for the recurse symbol")
    c, elts = best
    need = {"recurse": "the recurse symbol", ownerp: "the function object itself", f"{ownerp}.dispatch": "the function's entry point (the name the user sees)"}
    for e, what in need.items():
        ctx.ob(
            f"{ad.key}:searches:{e}",
            ad.loc(c),
            f"the adapter searches the method for references to {what}",
            e in elts,
            f"references to {what} are not searched for: a method that names {'its own function' if e != 'recurse' else 'recurse'} keeps calling the function it was first registered in when it runs inside a variant",
        )
    from .rewriter import law_all_names

    law_all_names(ctx)
    # every name found is handed to the re-compiler (not just the first)
    rc = A.recompiler(repo)
    hand = [x for x in ast.walk(ad.node) if isinstance(x, ast.Call) and call_name(x) == rc.name]
    ctx.require(hand, f"{ad.key} no longer calls {rc.name}")
    found_var = None
    for s in ast.walk(ad.node):
        if isinstance(s, ast.Assign) and any(x is c for x in ast.walk(s.value)) and isinstance(s.targets[0], ast.Name):
            found_var = s.targets[0].id
    for h in hand:
        arg = h.args[2] if len(h.args) > 2 else None
        whole = isinstance(arg, ast.Name) and arg.id == found_var
        ctx.ob(
            f"{ad.key}:all-names-rewritten",
            ad.loc(h),
            f"all the names found for recurse / the function itself (`{found_var}`) are handed to the re-compiler",
            whole,
            f"`{short(arg, 40) if arg is not None else '?'}` hands over only part of the names found: a method that uses both recurse(...) and its own function's name keeps one of them unrewritten (UsageError, or re-entering the parent instead of the variant)",
        )
    for cc in calls:
        ok = len(cc.args) >= 4 and src(cc.args[3]) == f"{fnp}.__closure__" and src(cc.args[2]) == f"{fnp}.__globals__" and src(cc.args[0]) == f"{fnp}.__code__"
        ctx.ob(f"{ad.key}:search-scope:{short(cc.args[1], 30)}", ad.loc(cc), "the search is given the method's code, globals and closure cells", ok, "the search is not given the method's closure cells (or globals): a recurse / self reference held in a closure variable is not found and not rewritten")
    # the search function: cells by free-variable name, globals by name, nested code constants
    co, vals, glb = sf.params[0], sf.params[1], sf.params[2]
    clo = sf.params[3] if len(sf.params) > 3 else None
    cells = False
    for n in ast.walk(sf.node):
        if isinstance(n, ast.For) and isinstance(n.iter, ast.Call) and call_name(n.iter) == "zip" and [src(a) for a in n.iter.args] == [f"{co}.co_freevars", clo]:
            if any(isinstance(x, ast.Attribute) and x.attr == "cell_contents" for x in ast.walk(n)) and any(isinstance(x, (ast.Yield, ast.YieldFrom)) for x in ast.walk(n)):
                cells = True
    ctx.ob(f"{sf.key}:closure-cells", sf.loc(), "closure cells are compared (by identity) against the searched objects, paired with the code's free-variable names", cells, "closure cells are not inspected: recurse captured from an enclosing scope (e.g. imported inside a factory function) is not rewritten")
    globs = False
    for n in ast.walk(sf.node):
        if isinstance(n, ast.For) and src(n.iter) == f"{co}.co_names":
            if any(isinstance(x, ast.Call) and isinstance(x.func, ast.Attribute) and x.func.attr == "get" and dotted(x.func.value) == glb for x in ast.walk(n)) and any(isinstance(x, (ast.Yield, ast.YieldFrom)) for x in ast.walk(n)):
                globs = True
    ctx.ob(f"{sf.key}:global-names", sf.loc(), "every global name the code uses is looked up in the method's globals and compared against the searched objects", globs, "global names are not inspected: the ordinary `from ovld import recurse` is not recognised")
    nested = False
    for n in ast.walk(sf.node):
        if isinstance(n, ast.For) and src(n.iter) == f"{co}.co_consts":
            if any(isinstance(x, ast.Call) and call_name(x) == sf.name for x in ast.walk(n)):
                nested = True
    ctx.ob(f"{sf.key}:nested-code", sf.loc(), "the search descends into nested code objects (lambdas, comprehensions, inner functions)", nested, "nested code objects are not searched: recurse used only inside a lambda or comprehension is not rewritten")


def r2_synthesised_names_bound(ctx):
    repo = ctx.repo
    rc = A.recompiler(repo)
    rw = A.rewriter(repo)
    oc = A.function_class(repo)
    ctx.touch(rc)
    ownerp = rc.params[1]
    # names handed to the rewriter
    ctor = [c for c in ast.walk(rc.node) if isinstance(c, ast.Call) and call_name(c) == rw.name]
    ctx.require(len(ctor) == 1, f"{rc.key}: expected one construction of the rewriter")
    init = rw.methods.get("__init__")
    ctx.require(init is not None, f"{rw.key} has no __init__")
    ia = init.node.args
    iparams = [x.arg for x in ia.posonlyargs + ia.args][1:]
    handed = {}
    for i, a_ in enumerate(ctor[0].args):
        if i < len(iparams) and isinstance(a_, ast.Name):
            handed[iparams[i]] = a_.id
    for k in ctor[0].keywords:
        if k.arg and isinstance(k.value, ast.Name):
            handed[k.arg] = k.value.id
    # keep the ones that are emitted names: variables defined in the re-compiler as name templates
    name_vars = {s.targets[0].id for s in all_stmts(rc.node) if isinstance(s, ast.Assign) and isinstance(s.targets[0], ast.Name) and isinstance(s.value, ast.JoinedStr)}
    handed = {k: v for k, v in handed.items() if v in name_vars}
    ctx.require(len(handed) >= 3, f"{rc.key}: expected the three generated global names to be handed to the rewriter")
    roles = A.rewriter_roles(repo)
    role_of = {v[1]: r for r, v in roles.items()}
    stores = {}
    for st in all_stmts(rc.node):
        if isinstance(st, ast.Assign) and isinstance(st.targets[0], ast.Subscript) and isinstance(st.targets[0].value, ast.Attribute) and st.targets[0].value.attr == "__globals__":
            k = st.targets[0].slice
            stores[dotted(k) if not isinstance(k, ast.Constant) else repr(k.value)] = st
        if isinstance(st, ast.Expr) and isinstance(st.value, ast.Call) and isinstance(st.value.func, ast.Attribute) and st.value.func.attr == "setdefault" and isinstance(st.value.func.value, ast.Attribute) and st.value.func.value.attr == "__globals__":
            k = st.value.args[0]
            stores[dotted(k) if not isinstance(k, ast.Constant) else repr(k.value)] = st
    want_by_role = {"ovld": (f"{ownerp}.dispatch", ownerp), "map": (f"{ownerp}.map",), "code": None}
    want_val = {kw: want_by_role.get(role_of.get(kw)) for kw in handed}
    for kw, var in handed.items():
        st = stores.get(var)
        ok = st is not None
        if ok and want_val.get(kw):
            v = st.value if isinstance(st, ast.Assign) else st.value.args[1]
            ok = src(v) in want_val[kw]
        ctx.ob(f"{rc.key}:binds:{kw}", rc.loc(st) if st is not None else rc.loc(), f"the name the rewriter emits for `{kw}` is bound in the rewritten method's globals{' to ' + ' / '.join(want_val[kw]) if want_val.get(kw) else ''}", ok, f"the rewriter emits the name held in `{var}` but the re-compiler does not bind it{' to the owner`s object' if st is not None else ''}: the rewritten method fails with NameError or re-enters another function")
    # literal global names the rewriter emits
    lits = set()
    import builtins

    for m in rw.methods.values():
        for c in ast.walk(m.node):
            if isinstance(c, ast.Call) and call_name(c) == "ast.Name" and any(k.arg == "ctx" and "Load" in src(k.value) for k in c.keywords):
                idv = next((k.value for k in c.keywords if k.arg == "id"), c.args[0] if c.args else None)
                cands = []
                if isinstance(idv, ast.Constant):
                    cands = [idv]
                elif isinstance(idv, ast.Name):
                    for a in ast.walk(m.node):
                        if isinstance(a, ast.Assign) and any(dotted(t) == idv.id for t in a.targets):
                            cands += [x for x in ast.walk(a.value) if isinstance(x, ast.Constant) and not any(isinstance(p_, ast.JoinedStr) for p_ in [a.value])]
                for k in cands:
                    if isinstance(k.value, str) and k.value != "self" and not hasattr(builtins, k.value):
                        lits.add(k.value)
    # names built from a template: the per-site temporaries are stored (walrus) and loaded under the same template; a
    # template that is only ever *loaded* is a global the re-compiler has to provide - and a global that varies with
    # the call site but does not carry the function's number is shared by every function of the module
    def templates(ctxname):
        out = {}
        for m in rw.methods.values():
            local_defs = {}
            for a in ast.walk(m.node):
                if isinstance(a, ast.Assign) and len(a.targets) == 1 and isinstance(a.targets[0], ast.Name) and isinstance(a.value, ast.JoinedStr):
                    local_defs[a.targets[0].id] = a.value
            for c in ast.walk(m.node):
                if isinstance(c, ast.Call) and call_name(c) == "ast.Name" and any(k.arg == "ctx" and ctxname in src(k.value) for k in c.keywords):
                    idv = next((k.value for k in c.keywords if k.arg == "id"), c.args[0] if c.args else None)
                    if isinstance(idv, ast.Name) and idv.id in local_defs:
                        idv = local_defs[idv.id]
                    if isinstance(idv, ast.JoinedStr):
                        import re as _re

                        # the literal parts and the number of holes identify the template, not the holes' expressions
                        out[_re.sub(r"§[^§]*§", "§", str_value(idv) or src(idv))] = (m, c)
        return out

    loaded, stored = templates("Load"), templates("Store")
    load_only = {t: v for t, v in loaded.items() if t not in stored}
    for t, (m_, c_) in sorted(load_only.items()):
        ctx.touch(m_)
        ctx.ob(
            f"{m_.key}:templated-global:{t[:30]}",
            m_.loc(c_),
            "a name the rewriter builds from a template and only loads is one of its per-site temporaries (stored under the same template)",
            False,
            f"the rewriter emits the global name `{t}` (built per call site, never assigned by the rewritten code): it has to be planted in the module's globals under a name that does not carry the function's number, so every overloaded function of the module shares it and the one built last decides for all of them",
        )
    if not lits and load_only:
        return
    ctx.require(lits, "the rewriter no longer emits a named helper global (restructured)")
    for lit in sorted(lits):
        st = stores.get(repr(lit))
        ctx.ob(f"{rc.key}:binds:{lit}", rc.loc(st) if st is not None else rc.loc(), f"the helper name {lit} emitted by the rewriter is bound in the method's globals", st is not None, f"the rewriter emits {lit} but nothing binds it")
    # the names embed the function's unique id
    for kw in [k for k in handed if role_of.get(k) in ("ovld", "map")]:
        var = handed.get(kw)
        defs = [s for s in all_stmts(rc.node) if isinstance(s, ast.Assign) and any(dotted(t) == var for t in s.targets)]
        ok = len(defs) == 1 and f"§{ownerp}.id§" in (str_value(defs[0].value) or "")
        ctx.ob(f"{rc.key}:unique:{kw}", rc.loc(defs[0]) if defs else rc.loc(), f"the per-function global for `{kw}` embeds the function's unique id", ok, f"`{short(defs[0], 60) if defs else var}` does not embed the function's unique id: two overloaded functions whose methods share a module's globals overwrite each other's entry, and recurse re-enters the wrong function")
    init = oc.methods["__init__"]
    ctx.touch(init)
    ids = [s for s in all_stmts(init.node) if isinstance(s, ast.Assign) and any(is_self_attr(t, "id", selfname=recv_name(init)) for t in s.targets)]
    ok = len(ids) == 1 and isinstance(ids[0].value, ast.Call) and call_name(ids[0].value) == "next" and isinstance(ids[0].value.args[0], ast.Name)
    if ok:
        cnt = oc.module.assigns.get(ids[0].value.args[0].id)
        ok = isinstance(cnt, ast.Call) and call_name(cnt) in ("itertools.count", "count")
    ctx.ob(f"{init.key}:unique-id", init.loc(ids[0]) if ids else init.loc(), "every overloaded function takes its id from one shared counter", ok, "function ids are not drawn from a shared counter: two functions can mangle to the same global names")


def r3_adapts_originals_for_itself(ctx):
    repo = ctx.repo
    oc = A.function_class(repo)
    ad = A.adapter(repo)
    build = A.build_method(repo)
    users = [m for m in oc.methods.values() if any(isinstance(c, ast.Call) and call_name(c) == ad.name for c in ast.walk(m.node))]
    ctx.require(len(users) == 1, f"expected one method of the function class calling {ad.name}")
    m = users[0]
    ctx.touch(m, build)
    rv = recv_name(m)
    call = [c for c in ast.walk(m.node) if isinstance(c, ast.Call) and call_name(c) == ad.name][0]
    # arguments by the adapter's parameters (positional or by keyword)
    bound = dict(zip(ad.params, call.args))
    bound.update({k.arg: k.value for k in call.keywords if k.arg})
    first, second = (bound.get(ad.params[0]), bound.get(ad.params[1])) if len(ad.params) >= 2 else (None, None)
    ok_owner = second is not None and dotted(second) == rv
    ctx.ob(f"{m.key}:owner-is-self", m.loc(call), "each function adapts methods for itself (the owner handed to the adapter is the receiver)", ok_owner, f"`{short(call, 70)}` adapts the method for another function: recurse inside an inherited method re-enters the parent instead of the variant that was called")
    fn_arg = dotted(first) if first is not None else None
    ok_orig = fn_arg in m.params
    ctx.ob(f"{m.key}:adapts-parameter", m.loc(call), "the adapter is given the function passed in by the build loop (an original from the effective table)", ok_orig, "the adapter is not given the build loop's original function")
    # the build loop takes originals from the effective table
    brv = recv_name(build)
    loops = [lp for lp in ast.walk(build.node) if isinstance(lp, ast.For) and any(isinstance(c, ast.Call) and is_self_attr(c.func, m.name, selfname=brv) for c in ast.walk(lp))]
    ok_loop = False
    for lp in loops:
        its = src(lp.iter)
        if f"{brv}.defns.items()" in its and isinstance(lp.target, ast.Tuple):
            tv = [dotted(x) for x in lp.target.elts]
            c = [c for c in ast.walk(lp) if isinstance(c, ast.Call) and is_self_attr(c.func, m.name, selfname=brv)][0]
            ok_loop = [dotted(a) for a in c.args] == tv
    ctx.ob(f"{build.key}:fill-from-effective-table", build.loc(loops[0]) if loops else build.loc(), "the build registers every (signature, original function) pair of the effective table (own + inherited)", ok_loop, "the fill loop does not run over the effective table's (signature, function) pairs: inherited methods are missing or re-adapted copies are adapted again")
    # an adapted function never flows into a method table
    w = [x for x in func_writes(m.node, rv) if x.attr == "_defns"]
    ctx.ob(f"{m.key}:adapted-not-stored", m.loc(), "the adapted copy goes to the dispatch table only, never into the method table other functions inherit from", not w, "an adapted copy is stored in the method table: children would inherit a method already bound to the parent")


def r4(ctx):
    from .c09 import copy_carries_everything

    copy_carries_everything(ctx)


def r5(ctx):
    from .c09 import r3_each_argument_once
    from .rewriter import law_key_functions, law_self_first

    r3_each_argument_once(ctx)
    law_key_functions(ctx)
    law_self_first(ctx)


def r7_recurse_call_shapes(ctx):
    """The call-shape laws of the rewriter, as far as they concern recurse / the function's own name."""
    from .rewriter import law_call_shapes

    n0 = len(ctx.obs)
    law_call_shapes(ctx)
    ctx.obs[n0:] = [o for o in ctx.obs[n0:] if "call_next" not in o.construct]


def _more(name):
    def run(ctx):
        from . import more

        getattr(more, name)(ctx)

    run.__name__ = name
    return run


RULES = [
    ("C08.R4", "P1", r4, "the adapted copy keeps defaults and closure cells (by name)"),
    ("C08.R5", "P1", r5, "a rewritten recurse call passes exactly the arguments written, each evaluated once"),
    ("C08.R1", "P1", r1_self_references_found, "all self-references, in globals and cells, at every depth"),
    ("C08.R2", "P1", r2_synthesised_names_bound, "every synthesised name is bound and unique per function"),
    ("C08.R3", "P1", r3_adapts_originals_for_itself, "each function adapts originals for itself"),
    ("C08.R6", "P1", _more("adaptation_is_per_build"), "each build adapts the originals afresh"),
]
