"""C12 - the specificity order on types is mirror-symmetric and matches subclassing."""

import ast

from .. import anchors as A
from ..cfg import all_stmts
from ..model import AnalysisError, call_name, dotted, is_self_attr, parent_map, short, src
from ..norm import atoms
from ..orderdom import MEMBERS, Interp, subsets
from .common import cfg_of, recv_name

OPP = {"LESS": "MORE", "MORE": "LESS", "SAME": "SAME", "NONE": "NONE"}


def _sides(f):
    """name -> 1|2 for names derived from the first / second parameter of a binary type function."""
    p1, p2 = f.params[0], f.params[1]
    side = {p1: 1, p2: 2}
    changed = True
    while changed:
        changed = False
        for s in ast.walk(f.node):
            if isinstance(s, ast.Assign) and len(s.targets) == 1 and isinstance(s.targets[0], ast.Name):
                names = {side.get(n.id) for n in ast.walk(s.value) if isinstance(n, ast.Name) and n.id in side}
                names.discard(None)
                t = s.targets[0].id
                if len(names) == 1 and t not in (p1, p2):
                    v = names.pop()
                    if side.get(t) != v:
                        if t in side and side[t] != v:
                            side[t] = 0  # ambiguous
                        else:
                            side[t] = v
                        changed = True
            if isinstance(s, ast.comprehension) and isinstance(s.iter, ast.Call) and call_name(s.iter) == "zip" and isinstance(s.target, ast.Tuple):
                for tgt, a in zip(s.target.elts, s.iter.args):
                    names = {side.get(n.id) for n in ast.walk(a) if isinstance(n, ast.Name) and n.id in side}
                    names.discard(None)
                    if isinstance(tgt, ast.Name) and len(names) == 1:
                        v = names.pop()
                        if side.get(tgt.id) != v:
                            side[tgt.id] = v
                            changed = True
    return side


def _side_of(e, side):
    s = {side.get(n.id) for n in ast.walk(e) if isinstance(n, ast.Name) and n.id in side}
    s.discard(None)
    return s.pop() if len(s) == 1 else None


def r1_swap_parity(ctx):
    f = A.typeorder_fn(ctx.repo)
    ctx.touch(f)
    side = _sides(f)
    pm = parent_map(f.node)
    calls = []
    for c in ast.walk(f.node):
        if not isinstance(c, ast.Call):
            continue
        if isinstance(c.func, ast.Attribute) and c.func.attr == "__type_order__" and len(c.args) == 1:
            a, b = _side_of(c.func.value, side), _side_of(c.args[0], side)
        elif isinstance(c.func, ast.Name) and c.func.id == f.name and len(c.args) == 2:
            a, b = _side_of(c.args[0], side), _side_of(c.args[1], side)
        else:
            continue
        ctx.require(a in (1, 2) and b in (1, 2) and a != b, f"{f.loc(c)}: cannot orient the operands of `{short(c, 50)}`")
        calls.append((c, a == 2))
    ctx.require(len(calls) >= 4, f"{f.key}: expected the two hook calls and the recursive calls")
    for c, swapped in calls:
        # how does the value reach a return?
        opp = 0
        node = c
        var = None
        while node in pm:
            p = pm[node]
            if isinstance(p, ast.Attribute) and p.attr == "opposite" and isinstance(pm.get(p), ast.Call):
                opp += 1
                node = pm[p]
                continue
            if isinstance(p, ast.NamedExpr) and p.value is node:
                var = p.target.id
                break
            if isinstance(p, ast.Assign) and p.value is node and isinstance(p.targets[0], ast.Name):
                var = p.targets[0].id
                break
            if isinstance(p, (ast.Return, ast.ListComp, ast.GeneratorExp)):
                break
            node = p
        via = "direct"
        if var is not None:
            via = f"via `{var}`"
            # returns of that variable that this definition reaches: the nearest following returns in the same branch
            st = node
            while st in pm and not isinstance(st, ast.stmt):
                st = pm[st]
            cfg = cfg_of(ctx, f)
            reach = cfg.reachable(cfg.node_of(st), strict=False)
            rebinds = [s for s in all_stmts(f.node) if s is not st and isinstance(s, (ast.Assign, ast.If)) and any(isinstance(x, (ast.NamedExpr,)) and x.target.id == var for x in ast.walk(s.test if isinstance(s, ast.If) else s.value)) or (isinstance(s, ast.Assign) and s is not st and any(dotted(t) == var for t in s.targets) and not any(isinstance(x, ast.Name) and x.id == var for x in ast.walk(s.value)))]
            rnodes = [cfg.node_of(s) for s in rebinds if cfg.node_of(s) is not None]
            reach = cfg.reachable(cfg.node_of(st), avoiding=rnodes, strict=False)
            rets = [r for r in all_stmts(f.node) if isinstance(r, ast.Return) and r.value is not None and cfg.node_of(r) in reach and any(isinstance(x, ast.Name) and x.id == var for x in ast.walk(r.value))]
            ctx.require(rets, f"{f.loc(c)}: the result bound to `{var}` never reaches a return")
            counts = set()
            for r in rets:
                k = sum(1 for x in ast.walk(r.value) if isinstance(x, ast.Attribute) and x.attr == "opposite")
                counts.add(k)
            ctx.require(len(counts) == 1, f"{f.loc(c)}: `{var}` is returned both with and without .opposite()")
            opp += counts.pop()
        ok = (opp % 2 == 1) if swapped else (opp == 0)
        ctx.ob(
            f"{f.key}:{'swapped' if swapped else 'in-order'}:{short(c, 40)}",
            f.loc(c),
            f"`{short(c, 50)}` compares the operands {'swapped' if swapped else 'in order'}; its result is returned {'through .opposite()' if swapped else 'as is'} ({via})",
            ok,
            f"the answer of `{short(c, 50)}`, obtained with the operands {'swapped' if swapped else 'in order'}, is returned {'without' if swapped else 'through'} .opposite(): typeorder(a, b) and typeorder(b, a) are no longer mirror images",
        )


def _reflexive_by_interpretation(ctx, f, which):
    """Interpret the function on two operands that are equal but not identical and carry every hook (each hook
    records that it was asked and answers nonsense): -> (ok, detail), or raises AnalysisError."""
    import typing

    from ..metainterp import HostFn, HostInterp, Raised, Record
    from .more import _ORD, _ref_merge

    asked = []

    class Eqv:
        def __init__(self):
            for h in ("__type_order__", "__is_supertype__", "__is_subtype__"):
                setattr(self, h, HostFn(lambda other, h=h: asked.append(h) or _ORD["NONE"]))

        def __eq__(self, other):
            return isinstance(other, Eqv)

        __hash__ = object.__hash__

    en = A.order_enum(ctx.repo)
    order_ns = Record(merge=HostFn(lambda orders: _ref_merge(list(orders))), **_ORD)
    funcs = {n: g.node for n, g in f.module.funcs.items() if g.parent is None and g.cls is None}
    genv = {
        en.name: order_ns, "NotImplemented": NotImplemented, "UnionTypes": (), "typing": typing, "Any": typing.Any, "TypeError": TypeError,
        "get_origin": lambda t: asked.append("get_origin"), "get_args": lambda t: asked.append("get_args") or (),
        "issubclass": lambda a, b: asked.append("issubclass") or False,
    }
    hi = HostInterp({}, Record(), {}, globals_env=genv, classes={}, functions=funcs)
    hi.host_types = hi.host_types + (Eqv,) + (type(_ORD["SAME"]),)
    try:
        r = hi.call_function(f.node, [Eqv(), Eqv()], {}, {})
    except Raised as e:
        return False, f"raises {e.what} for equal operands"
    got = getattr(r, "name", r)
    want = "SAME" if which == "typeorder" else True
    if got != want or (which != "typeorder" and r is not True):
        return False, f"answers {got!r} for two equal operands" + (f" after asking {asked}" if asked else "")
    if asked:
        return False, f"asks {asked} before recognising equal operands"
    return True, ""


def r2_reflexive_first(ctx, which="typeorder"):
    f = A.typeorder_fn(ctx.repo) if which == "typeorder" else A.subclasscheck_fn(ctx.repo)
    ctx.touch(f)
    want = "Order.SAME" if which == "typeorder" else "True"
    try:
        ok, detail = _reflexive_by_interpretation(ctx, f, which)
    except AnalysisError as e:
        ctx.note(f"{f.key}: reflexivity not interpretable ({e}); statement shape read instead")
        ok = None
    if ok is not None:
        ctx.ob(
            f"{f.key}:reflexive-first",
            f.loc(),
            f"{f.name} answers {want} for operands that are equal (not necessarily identical) before consulting any hook, origin or issubclass (interpreted)",
            ok,
            f"{f.name} {detail}: structural types (unions, intersections, literals) that are equal but built separately go through hooks and issubclass and may come out as something other than {want}",
        )
        return
    p1, p2 = f.params[0], f.params[1]
    def inert(s):
        """A statement that cannot decide or consult anything: docstring, assert, counter update."""
        if isinstance(s, ast.Expr) and isinstance(s.value, ast.Constant):
            return True
        if any(isinstance(x, (ast.Return, ast.Raise, ast.Yield, ast.YieldFrom)) for x in ast.walk(s)):
            return False
        for c in ast.walk(s):
            if isinstance(c, ast.Call):
                cn = call_name(c) or ""
                if cn in (f.name, "issubclass", "hasattr", "get_origin", "get_args", "typing.get_origin", "typing.get_args") or cn.split(".")[-1].startswith("__"):
                    return False
        return isinstance(s, (ast.Assert, ast.AugAssign, ast.Assign, ast.AnnAssign, ast.Expr, ast.Pass))

    body = list(f.node.body)
    while body and inert(body[0]):
        body.pop(0)
    first = body[0] if body else None
    want = "Order.SAME" if which == "typeorder" else "True"
    def cmp_of(t, kinds):
        return isinstance(t, ast.Compare) and len(t.ops) == 1 and isinstance(t.ops[0], kinds) and {dotted(t.left), dotted(t.comparators[0])} == {p1, p2}

    test = first.test if isinstance(first, ast.If) else None
    arms = test.values if isinstance(test, ast.BoolOp) and isinstance(test.op, ast.Or) else [test]
    by_value = any(cmp_of(t, ast.Eq) for t in arms) and all(cmp_of(t, (ast.Eq, ast.Is)) for t in arms)
    only_identity = test is not None and all(cmp_of(t, ast.Is) for t in arms)
    ok = isinstance(first, ast.If) and by_value and len(first.body) == 1 and isinstance(first.body[0], ast.Return) and src(first.body[0].value) == want
    ctx.ob(
        f"{f.key}:reflexive-first",
        f.loc(first) if first is not None else f.loc(),
        f"the first thing {f.name} does is answer {want} for equal operands",
        ok,
        (f"{f.name} recognises only the identical object: structural types (unions, intersections, literals) that are equal but built separately go through hooks and issubclass and come out as something other than {want}" if only_identity else f"{f.name} no longer starts with the equality shortcut: a type compared with itself goes through hooks and issubclass and may come out as something other than {want}"),
    )


def r2_reflexive_both(ctx):
    r2_reflexive_first(ctx, which="typeorder")
    r2_reflexive_first(ctx, which="subclasscheck")


def _len_guarded(ctx, f, zcall, a, b):
    """Is the zip call dominated by a test that len(a) == len(b)?"""
    pm = parent_map(f.node)
    # (i) an enclosing `and` whose earlier operand states the equality, or an enclosing if/ifexp test
    node = zcall
    while node in pm:
        p = pm[node]
        if isinstance(p, ast.BoolOp) and isinstance(p.op, ast.And):
            idx = next(i for i, v in enumerate(p.values) if v is node or any(x is node for x in ast.walk(v)))
            for v in p.values[:idx]:
                if _is_len_eq(atoms(v), a, b):
                    return True
        if isinstance(p, ast.If) and not any(x is node for x in ast.walk(p.test)):
            in_body = any(any(x is node for x in ast.walk(s)) for s in p.body)
            if _is_len_eq(atoms(p.test, negate=not in_body), a, b):
                return True
        node = p
    # (ii) an earlier `if len(a) != len(b): return/raise` that dominates
    cfg = cfg_of(ctx, f)
    st = zcall
    while st in pm and not isinstance(st, ast.stmt):
        st = pm[st]
    for g in all_stmts(f.node):
        if isinstance(g, ast.If) and _is_len_eq(atoms(g.test, negate=True), a, b) and g.body and isinstance(g.body[-1], (ast.Return, ast.Raise)):
            if cfg.node_of(g) is not None and cfg.dominated_by(cfg.node_of(st), [cfg.node_of(g)]) and g is not st:
                return True
    return False


def _is_len_eq(ats, a, b):
    for at in ats:
        if at[0] == "cmp" and at[1] == "Eq":
            if {src(at[2]), src(at[3])} == {f"len({a})", f"len({b})"}:
                return True
    return False


def zip_guards(ctx):
    repo = ctx.repo
    n = 0
    for f in repo.all_funcs():
        if f.module.name not in ("mro", "types", "dependent"):
            continue
        for z in ast.walk(f.node):
            if not (isinstance(z, ast.Call) and call_name(z) == "zip" and len(z.args) == 2):
                continue
            a, b = src(z.args[0]), src(z.args[1])
            # both operands are parameter tuples of two types?
            typeish = 0
            for e in z.args:
                s = src(e)
                if s.endswith(".parameters") or s.endswith(".__args__") or s.endswith(".types"):
                    typeish += 1
                elif isinstance(e, ast.Name):
                    for d in ast.walk(f.node):
                        if isinstance(d, ast.Assign) and any(dotted(t) == e.id for t in d.targets) and isinstance(d.value, ast.Call) and call_name(d.value) in ("get_args", "typing.get_args"):
                            typeish += 1
                            break
            if typeish < 2:
                continue
            n += 1
            ctx.touch(f)
            ok = _len_guarded(ctx, f, z, a, b)
            ctx.ob(
                f"{f.key}:zip({a}, {b})",
                f.loc(z),
                f"`zip({a}, {b})` pairs the parameters of two types only under a test that they have the same length",
                ok,
                f"`zip({a}, {b})` is not guarded by len({a}) == len({b}): zip stops at the shorter one, so tuple[int] and tuple[int, str] compare on a common prefix",
            )
    ctx.require(n >= 3, "expected parameter-pairing zips in the order / subtype functions and the product type")


def r3(ctx):
    zip_guards(ctx)


def _method_of_enum(ctx, name):
    en = A.order_enum(ctx.repo)
    m = en.methods.get(name)
    ctx.require(m is not None, f"{en.key} lost {name}")
    return en, m


def combination_order_ignores_member_order(ctx):
    """C06: how a union / an intersection compares with another type does not depend on the order in which its
    members are written (two spellings of one union are equal and share one slot of the tables, keyed by whichever
    was registered first): the order hook interpreted on 2 and 3 members, every assignment of member comparisons, every
    permutation of the members."""
    import itertools

    en = A.order_enum(ctx.repo)
    n = 0
    for c in ctx.repo.all_classes():
        if c.name in ("Union", "Intersection") and "__type_order__" in c.methods:
            m = c.methods["__type_order__"]
            ctx.touch(m)
            rv = recv_name(m)
            other = [p_ for p_ in m.params if p_ != rv][0]
            bad = None
            cases = 0
            for k in (2, 3):
                names = tuple(f"m{i}" for i in range(k))
                for assign in itertools.product(MEMBERS, repeat=k):
                    tab = dict(zip(names, assign))
                    answers = {}
                    for members in itertools.permutations(names):

                        def to(a, b, tab=tab):
                            return tab.get(a, "NONE") if b == "O" else "NONE"

                        plain = {"getattr": lambda o, name, default=None: default, "isinstance": lambda a, b: False, "type": lambda x: "TYPE-OF-" + str(x)}
                        got = Interp(en.name, stubs={"typeorder": to, **plain}).run(m.node, {rv: "SELF", other: "O", f"{rv}.types": members, f"{rv}.__args__": members, c.name: "THE-CLASS"})
                        answers[members] = got
                        cases += 1
                    if len(set(answers.values())) > 1 and bad is None:
                        a_, b_ = list(answers.items())[0], [x for x in answers.items() if x[1] != list(answers.values())[0]][0]
                        bad = f"with member comparisons {tab} the answer is {a_[1]} for the members written {list(a_[0])} and {b_[1]} written {list(b_[0])}"
            n += 1
            ctx.ob(
                f"{m.key}:member-order-irrelevant",
                m.loc(),
                f"{c.name} compares with another type the same way whatever order its members are written in ({cases} cases interpreted)",
                bad is None,
                (bad or "") + ": two spellings of one combination are equal and share one table slot, so which answer is used depends on which spelling was registered first",
            )
    ctx.require(n == 2, "expected the union and the intersection order hooks")


def union_of_narrower_alternatives_is_narrower(ctx):
    """C10: a union whose alternatives that are related to another type are all more specific than it (value-dependent
    alternatives against the bound of one of them) is itself more specific - so the method on the union is preferred over
    the method on the bound when its condition holds, instead of tying with it.  The union's order hook interpreted on
    two and three alternatives of which some are unrelated."""
    import itertools

    en = A.order_enum(ctx.repo)
    cs = [c for c in ctx.repo.all_classes() if c.name == "Union" and "__type_order__" in c.methods]
    ctx.require(len(cs) == 1, "the union's order hook was not found")
    c = cs[0]
    m = c.methods["__type_order__"]
    ctx.touch(m)
    rv = recv_name(m)
    other = [p_ for p_ in m.params if p_ != rv][0]
    bad = None
    cases = 0
    for k in (2, 3):
        names = tuple(f"m{i}" for i in range(k))
        for assign in itertools.product(("LESS", "NONE"), repeat=k):
            if "LESS" not in assign:
                continue
            tab = dict(zip(names, assign))

            def to(a, b, tab=tab):
                return tab.get(a, "NONE") if b == "O" else "NONE"

            plain = {"getattr": lambda o, name, default=None: default, "isinstance": lambda a, b: False, "type": lambda x: "TYPE-OF-" + str(x)}
            got = Interp(en.name, stubs={"typeorder": to, **plain}).run(m.node, {rv: "SELF", other: "O", f"{rv}.types": names, f"{rv}.__args__": names, c.name: "THE-CLASS"})
            cases += 1
            if got != "LESS" and bad is None:
                bad = f"with alternatives that compare {tab} to the other type the union answers {got}"
    ctx.ob(
        f"{m.key}:narrower-alternatives",
        m.loc(),
        f"a union whose related alternatives are all more specific than another type is more specific than it, unrelated alternatives notwithstanding ({cases} cases interpreted)",
        bad is None,
        (bad or "") + ": a method on `Dependent[int, ..] | Dependent[str, ..]` is no longer preferred over the method on `int` when its condition holds - the call is ambiguous",
    )


def r4_tables(ctx):
    en, opp = _method_of_enum(ctx, "opposite")
    en, mrg = _method_of_enum(ctx, "merge")
    ctx.touch(opp, mrg)
    it = Interp(en.name)
    # opposite: the exact involution
    table = {}
    for v in MEMBERS:
        table[v] = it.run(opp.node, {opp.params[0]: v})
    ctx.ob(f"{opp.key}:table", opp.loc(), f"opposite() maps LESS<->MORE and fixes SAME and NONE (computed table: {table})", table == OPP, f"opposite() computes {table}: it is not the involution exchanging LESS and MORE, so reflected comparisons are wrong")
    # merge: decision table over the 15 non-empty subsets
    arg = [p for p in mrg.params if p not in ("self", "cls")][0]

    def spec(S):
        if S == {"SAME"}:
            return "SAME"
        if S <= {"LESS", "SAME"}:
            return "LESS"
        if S <= {"MORE", "SAME"}:
            return "MORE"
        return "NONE"

    bad = []
    commute_bad = []
    n_sets = 0
    for S in subsets(MEMBERS):
        if not S:
            continue
        n_sets += 1
        got = it.run(mrg.node, {arg: tuple(sorted(S))})
        if got != spec(S):
            bad.append((sorted(S), got, spec(S)))
        mirror = it.run(mrg.node, {arg: tuple(sorted(OPP[x] for x in S))})
        if mirror != OPP.get(got):
            commute_bad.append((sorted(S), got, mirror))
    ctx.ob(f"{mrg.key}:table", mrg.loc(), f"merge() of argument-wise comparisons: all SAME -> SAME; LESS/SAME only -> LESS; MORE/SAME only -> MORE; otherwise NONE ({n_sets} subsets enumerated)", not bad, f"merge() deviates, e.g. merge({bad[0][0]}) = {bad[0][1]} (expected {bad[0][2]})" if bad else "")
    ctx.ob(f"{mrg.key}:commutes-with-opposite", mrg.loc(), f"merge(opposite of each) == opposite(merge) on all {n_sets} non-empty subsets", not commute_bad, f"merge does not commute with opposite, e.g. on {commute_bad[0][0]}: {commute_bad[0][1]} vs {commute_bad[0][2]}: generic types compare differently in the two directions" if commute_bad else "")
    # union / intersection: the whole hook interpreted on 1..3 members with every assignment of member comparisons
    import itertools

    repo = ctx.repo
    want = {
        "Union": lambda S: "NONE" if not S else ("MORE" if S & {"MORE", "SAME"} else "LESS"),
        "Intersection": lambda S: "NONE" if not S else ("LESS" if S & {"LESS", "SAME"} else "MORE"),
    }
    tails = {}
    for c in repo.all_classes():
        if c.name in want and "__type_order__" in c.methods:
            m = c.methods["__type_order__"]
            ctx.touch(m)
            rv = recv_name(m)
            other = [p for p in m.params if p != rv][0]
            table = {}
            bad = []
            order_bad = []
            cases = 0
            for k in (1, 2, 3):
                members = tuple(f"m{i}" for i in range(k))
                for assign in itertools.product(MEMBERS, repeat=k):
                    tab = dict(zip(members, assign))

                    def to(a, b, tab=tab):
                        if b != "O" or a not in tab:
                            order_bad.append((a, b))
                            return "NONE"
                        return tab[a]

                    # (the other type is not a combination of the same kind: that case is decided in
                    # more.combination_against_combination)
                    plain = {"getattr": lambda o, name, default=None: default, "isinstance": lambda a, b: False, "type": lambda x: "TYPE-OF-" + str(x)}
                    got = Interp(en.name, stubs={"typeorder": to, **plain}).run(m.node, {rv: "SELF", other: "O", f"{rv}.types": members, f"{rv}.__args__": members, c.name: "THE-CLASS"})
                    cases += 1
                    S = frozenset(x for x in assign if x != "NONE")
                    table[tuple(sorted(S))] = got
                    if got != want[c.name](S):
                        bad.append((dict(tab), got, want[c.name](S)))
            tails[c.name] = table
            rel = "more general than" if c.name == "Union" else "more specific than"
            ctx.ob(f"{m.key}:member-comparisons", m.loc(), f"{c.name} compares its members with the other type member-first", not order_bad, f"{c.name}.__type_order__ calls the order function as {order_bad[:1]}: the member must come first")
            ctx.ob(
                f"{m.key}:tail-table",
                m.loc(),
                f"{c.name}: no related member -> NONE; a member that is {'more general than or the same as' if c.name == 'Union' else 'more specific than or the same as'} the other type -> {'MORE' if c.name == 'Union' else 'LESS'}; else {'LESS' if c.name == 'Union' else 'MORE'} ({cases} cases interpreted)",
                not bad,
                f"{c.name}.__type_order__ answers {bad[0][1]} for member comparisons {bad[0][0]} (expected {bad[0][2]}): a {c.name.lower()} is not {rel} each of its members" if bad else "",
            )
    ctx.require(len(tails) == 2, "expected the union and the intersection order hooks")
    mirror_bad = [S for S in tails["Union"] if OPP.get(tails["Union"][S]) != tails["Intersection"].get(tuple(sorted(OPP[x] for x in S)))]
    ctx.ob("types.Union/Intersection:mirror", "src/ovld/types.py:1", "the union's and the intersection's decision tables are mirror images of each other", not mirror_bad, f"union and intersection orders are not mirror images on {mirror_bad[:1]}")
    # Exactly[T] against T is LESS
    from .c13 import documented_predicates

    try:
        f, ok, detail = documented_predicates(ctx)["Exactly"]
        ctx.touch(f)
        ctx.ob(f"{f.key}:vs-own-class", f.loc(), "Exactly[T] is more specific than T itself (LESS) and otherwise ordered like T (interpreted)", ok, detail + ": a method on Exactly[T] does not win over the method on T")
    except (AnalysisError, KeyError) as e:
        ctx.note(f"Exactly not interpretable ({e}); shape rule used instead")
        _exactly_shape(ctx)


def _exactly_shape(ctx):
    repo = ctx.repo
    ex = [f for f in repo.all_funcs() if f.name == "Exactly"]
    ctx.require(ex, "the Exactly constructor vanished")
    for f in ex:
        ctx.touch(f)
        cls_p, base_p = f.params[0], f.params[1]
        ok = False
        for c in ast.walk(f.node):
            if isinstance(c, ast.Call) and call_name(c) == "TypeRelationship":
                for k in c.keywords:
                    if k.arg == "order" and isinstance(k.value, ast.IfExp):
                        t = k.value.test
                        same = isinstance(t, ast.Compare) and isinstance(t.ops[0], ast.Is) and {dotted(t.left), dotted(t.comparators[0])} == {cls_p, base_p}
                        less = dotted(k.value.body) == "Order.LESS"
                        other = isinstance(k.value.orelse, ast.Call) and call_name(k.value.orelse) == "typeorder" and [dotted(a) for a in k.value.orelse.args] == [base_p, cls_p]
                        ok = same and less and other
        ctx.ob(f"{f.key}:vs-own-class", f.loc(), "Exactly[T] is more specific than T itself (LESS) and otherwise ordered like T", ok, "Exactly[T] is no longer ranked more specific than T: a method on Exactly[T] does not win over the method on T")


def r5_subclass_fallback(ctx):
    """The tail of typeorder on plain classes, decided for the four truth assignments of
    (issubclass(t1, t2), issubclass(t2, t1)) by interpreting the tail."""
    f = A.typeorder_fn(ctx.repo)
    ctx.touch(f)
    p1, p2 = f.params[0], f.params[1]
    # the tail: from the first top-level statement that calls issubclass to the end
    idx = None
    for i, st in enumerate(f.node.body):
        if any(isinstance(c, ast.Call) and call_name(c) == "issubclass" for c in ast.walk(st)):
            idx = i
            break
    ctx.require(idx is not None, f"{f.key}: no issubclass fallback for plain classes")
    tail = f.node.body[idx:]
    fake = ast.FunctionDef(name="tail", args=f.node.args, body=tail, decorator_list=[], lineno=tail[0].lineno)
    want = {(True, True): "SAME", (True, False): "LESS", (False, True): "MORE", (False, False): "NONE"}
    got = {}
    for a in (True, False):
        for b in (True, False):
            table = {("T1", "T2"): a, ("T2", "T1"): b}
            stubs = {"issubclass": lambda x, y, t=table: t[(x, y)], "hasattr": lambda *x: False, "get_origin": lambda *x: None, "get_args": lambda *x: ()}
            try:
                # the whole function on two distinct plain classes (no hooks, no origin)
                got[(a, b)] = Interp(A.order_enum(ctx.repo).name, stubs=stubs).run(f.node, {p1: "T1", p2: "T2", "typing.Any": "<Any>", "Any": "<Any>", "object": "<object>"})
            except AnalysisError:
                got[(a, b)] = Interp(A.order_enum(ctx.repo).name, stubs=stubs).run(fake, {p1: "T1", p2: "T2"})
    bad = {k: v for k, v in got.items() if v != want[k]}
    ctx.ob(
        f"{f.key}:issubclass-fallback",
        f.loc(tail[0]),
        "on plain classes: both directions -> SAME, issubclass(t1, t2) only -> LESS, issubclass(t2, t1) only -> MORE, neither -> NONE (4 cases interpreted)",
        not bad,
        f"the plain-class fallback answers {bad} (expected {dict((k, want[k]) for k in bad)}): two distinct classes that are subclasses of each other (structurally identical protocols, hook-based ABCs) compare LESS in both directions instead of SAME, so one of two equally specific methods silently wins",
    )


def r6_dependent_pairs(ctx):
    """Two value-dependent types: ordered like their bounds; on equal bounds by the mirrored `<` of the types."""
    from .c10 import dependent_order_table

    m, rows = dependent_order_table(ctx)
    ctx.touch(m)
    bad = [r for r in rows if r[0].startswith("dependent") and r[1] != r[2]]
    ctx.ob(
        f"{m.key}:dependent-vs-dependent",
        m.loc(),
        "two value-dependent types are ordered like their bounds; on equal bounds LESS / MORE by the mirrored `<`, else NONE (7 cases interpreted)",
        not bad,
        f"{bad[0][0]}: answers {bad[0][1]} instead of {bad[0][2]}: typeorder(a, b) and typeorder(b, a) stop being mirror images for two dependent types" if bad else "",
    )


def r7_every_pair_compared(ctx):
    """In the layer sorter every pair of applicable types goes through the order function: nothing skips the call."""
    from . import sortexec
    from .common import run_fallback

    n0 = len(ctx.obs)
    try:
        sortexec.law(ctx, "every-pair", "layers")
    except AnalysisError as e:
        del ctx.obs[n0:]
        run_fallback(ctx, _r7_every_pair_compared_shape, e, "layer sorter")


def _r7_every_pair_compared_shape(ctx):
    repo = ctx.repo
    srt = A.layer_sorter(repo)
    to = A.typeorder_fn(repo)
    cands = [srt] + [f for f in srt.module.funcs.values() if f.parent is None and any(isinstance(c, ast.Call) and call_name(c) == f.name for c in ast.walk(srt.node))]
    site = None
    for f in cands:
        for lp in ast.walk(f.node):
            if isinstance(lp, ast.For) and any(isinstance(c, ast.Call) and call_name(c) == to.name for s in lp.body for c in ast.walk(s)) and not any(isinstance(x, ast.For) and any(isinstance(c, ast.Call) and call_name(c) == to.name for c in ast.walk(x)) for s in lp.body for x in ast.walk(s)):
                site = (f, lp)
    ctx.require(site is not None, f"{srt.key}: the pairwise comparison loop was not found")
    f, lp = site
    ctx.touch(f)
    c = cfg_of(ctx, f)
    call_st = [s for b in lp.body for s in ast.walk(b) if isinstance(s, ast.stmt) and not hasattr(s, "body") and any(isinstance(x, ast.Call) and call_name(x) == to.name for x in ast.walk(s))]
    ok = False
    if call_st:
        first = c.node_of(lp.body[0])
        target = c.node_of(call_st[0])
        inside = {c.node_of(x) for b in lp.body for x in ast.walk(b) if isinstance(x, ast.stmt) and c.node_of(x) is not None}
        reach = c.reachable(first, avoiding=[target], strict=False)
        ok = first == target or not any(n not in inside for n in reach if n != c.exc_exit)
    ctx.ob(
        f"{f.key}:every-pair-compared",
        f.loc(lp),
        f"every pair of applicable types reaches `{to.name}(...)`: no path through the pair loop skips the comparison",
        ok,
        "some pairs of applicable types are never compared (a `continue` / condition skips the order function): two types that are ordered (e.g. Literal[True] below Literal[1], by their bounds) end up in the same layer and a call that should prefer one is reported ambiguous",
    )


def _more(name):
    def run(ctx):
        from . import more

        getattr(more, name)(ctx)

    run.__name__ = name
    return run


RULES = [
    ("C12.R7", "P1", r7_every_pair_compared, "every pair of applicable types is compared"),
    ("C12.R6", "P1", r6_dependent_pairs, "dependent vs dependent: ordered by bounds, mirrored"),
    ("C12.R5", "P1", r5_subclass_fallback, "plain classes are ordered by issubclass"),
    ("C12.R1", "P1", r1_swap_parity, "swap parity"),
    ("C12.R2", "P1", r2_reflexive_both, "reflexive shortcut first, by value, in the order and in the subclass test"),
    ("C12.R3", "P1", r3, "no zip of two types' parameters without a length guard"),
    ("C12.R4", "P1", r4_tables, "decision tables of the Order-valued code"),
    ("C12.R8", "P1", _more("dependent_lt_is_antisymmetric"), "parameter-wise strict order is antisymmetric (interpreted)"),
    ("C12.R9", "P1", _more("foreign_operand_is_deferred"), "class-specific order hooks defer on foreign operands"),
]
