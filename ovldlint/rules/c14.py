"""C14 - types passed as arguments dispatch on type[...] by subtype."""

import ast

from .. import anchors as A
from ..model import AnalysisError, call_name, dotted, is_self_attr, parent_map, short, src
from ..skeleton import emissions, from_fstring
from .common import recv_name


def flatten_chain(stmts):
    """[(test|None, body)] for an if/elif/else chain that is the only compound statement of interest."""
    out = []
    for st in stmts:
        if isinstance(st, ast.If):
            cur = st
            while True:
                out.append((cur.test, cur.body, cur))
                if len(cur.orelse) == 1 and isinstance(cur.orelse[0], ast.If):
                    cur = cur.orelse[0]
                    continue
                if cur.orelse:
                    out.append((None, cur.orelse, cur))
                break
    # early-return style: a trailing top-level `return` is the final else
    if stmts and isinstance(stmts[-1], ast.Return) and out and not any(t is None and n is out[-1][2] for t, b, n in out[-1:]):
        out.append((None, [stmts[-1]], stmts[-1]))
    return out


def _is_type_sub(v, what):
    """v is `type[<what>]`"""
    return isinstance(v, ast.Subscript) and dotted(v.value) == "type" and dotted(v.slice) == what


def _branch_return(body):
    for st in body:
        if isinstance(st, ast.Return):
            return st.value
    return None


def r1_subtler_chain(ctx):
    from .common import run_fallback

    try:
        _subtler_by_interpretation(ctx)
    except AnalysisError as e:
        run_fallback(ctx, _r1_subtler_chain_shape, e, "type-valued key function")


def _subtler_by_interpretation(ctx):
    """Interpret the key function on host values of every kind it distinguishes."""
    import types
    import typing

    from ..metainterp import HostInterp, Raised, Record

    f = A.subtler_fn(ctx.repo)
    ctx.touch(f)

    class Plain:
        pass

    import abc

    class WithMeta(abc.ABC):
        pass

    union_types = tuple(t for t in (type(typing.Union[int, str]), getattr(types, "UnionType", None)) if t is not None)
    genv = {"typing": typing, "types": types, "GenericAlias": types.GenericAlias, "UnionType": getattr(types, "UnionType", None), "UnionTypes": union_types, "functools": __import__("functools")}
    funcs = {n: g.node for n, g in f.module.funcs.items() if g.parent is None and g.cls is None and g is not f}
    hi = HostInterp({}, Record(), {}, globals_env=genv, classes={}, functions=funcs)
    cases = [
        ("generic->type[obj]", "a parametrised generic passed as an argument is keyed as type[obj]", list[int], type[list[int]], "generic aliases such as list[int] are no longer keyed as type[list[int]]: type[...] methods stop matching them"),
        ("union->type[obj]", "a union object passed as an argument is keyed as type[obj]", typing.Union[int, str], type[typing.Union[int, str]], "union objects are no longer keyed as type[...]"),
        ("Any->type[object]", "typing.Any passed as an argument is keyed as type[object]", typing.Any, type[object], "typing.Any is not keyed as type[object]: passing Any no longer counts as object"),
        ("class->type[obj]", "a class passed as an argument is keyed as type[obj]", Plain, type[Plain], "classes are no longer keyed as type[cls]"),
        ("class->type[obj]:metaclass", "a class with a metaclass of its own (an ABC, an Enum, a Protocol) is keyed as type[obj] like any class", WithMeta, type[WithMeta], "classes whose metaclass is a subclass of type are keyed by their metaclass: type[...] methods stop matching them"),
        ("default->type(obj)", "ordinary arguments are keyed by their class", 5, int, "ordinary (non-type) arguments no longer dispatch on type(obj)"),
        ("default->type(obj):instance", "an instance of a user class is keyed by that class", Plain(), Plain, "ordinary (non-type) arguments no longer dispatch on type(obj)"),
        ("equal-values-of-other-classes", "True is keyed as bool although it equals 1", True, bool, "an argument is keyed as the class of an equal value"),
    ]
    if hasattr(types, "UnionType"):
        cases.append(("union->type[obj]:pep604", "an `int | str` object passed as an argument is keyed as type[obj]", int | str, type[int | str], "`A | B` objects are no longer keyed as type[...]"))
    hi.host_types = hi.host_types + (types.GenericAlias,)
    for key, text, arg, want, why in cases:
        try:
            # evaluated twice, after a first evaluation on an equal value of another class: a value-keyed memo shows
            if arg is True:
                hi.call_function(f.node, [1], {}, {})
            got = hi.call_function(f.node, [arg], {}, {})
        except Raised as r:
            got = f"raises {r.what}"
        except TypeError as ex:
            raise AnalysisError(f"{f.key}: not interpretable on {arg!r}: {ex}")
        ctx.ob(f"{f.key}:{key}", f.loc(), text + " (interpreted)", got == want and type(got) is type(want), f"for {arg!r} the key is {got!r} instead of {want!r}: {why}")


def _r1_subtler_chain_shape(ctx):
    f = A.subtler_fn(ctx.repo)
    ctx.touch(f)
    p = f.params[0]
    chain = flatten_chain(f.node.body)
    ctx.require(chain, f"{f.key}: no if-chain")

    def disjuncts(t):
        if isinstance(t, ast.BoolOp) and isinstance(t.op, ast.Or):
            out = []
            for v in t.values:
                out += disjuncts(v)
            return out
        return [t]

    def idx(pred):
        for i, (t, body, _) in enumerate(chain):
            if t is not None and any(pred(d) for d in disjuncts(t)):
                return i
        return None

    def isinst_of(t, names):
        if not (isinstance(t, ast.Call) and call_name(t) == "isinstance" and len(t.args) == 2 and dotted(t.args[0]) == p):
            return False
        cls = t.args[1]
        alts = cls.elts if isinstance(cls, ast.Tuple) else [cls]
        return any(dotted(a) in names for a in alts)

    i_generic = idx(lambda t: isinst_of(t, {"GenericAlias", "types.GenericAlias"}))
    i_union = idx(lambda t: isinst_of(t, {"UnionTypes"}))
    i_any = idx(lambda t: isinstance(t, ast.Compare) and isinstance(t.ops[0], ast.Is) and dotted(t.left) == p and dotted(t.comparators[0]) in ("typing.Any", "Any"))
    i_class = idx(lambda t: isinst_of(t, {"type"}))
    default = None
    for st in f.node.body:
        if isinstance(st, ast.Return):
            default = st.value
    for t, body, _ in chain:
        if t is None:
            default = _branch_return(body)

    def ob(key, ok, text, detail, node=None):
        ctx.ob(f"{f.key}:{key}", f.loc(node or f.node), text, ok, detail)

    ob("generic->type[obj]", i_generic is not None and _is_type_sub(_branch_return(chain[i_generic][1]), p), "a parametrised generic passed as an argument is keyed as type[obj]", "generic aliases such as list[int] are no longer keyed as type[list[int]]: type[...] methods stop matching them", chain[i_generic][2] if i_generic is not None else None)
    ob("union->type[obj]", i_union is not None and _is_type_sub(_branch_return(chain[i_union][1]), p), "a union object passed as an argument is keyed as type[obj]", "union objects are no longer keyed as type[...]", chain[i_union][2] if i_union is not None else None)
    ob("Any->type[object]", i_any is not None and _is_type_sub(_branch_return(chain[i_any][1]), "object"), "typing.Any passed as an argument is keyed as type[object]", "typing.Any is not keyed as type[object]: passing Any no longer counts as object", chain[i_any][2] if i_any is not None else None)
    ob("class->type[obj]", i_class is not None and _is_type_sub(_branch_return(chain[i_class][1]), p), "a class passed as an argument is keyed as type[obj]", "classes are no longer keyed as type[cls]", chain[i_class][2] if i_class is not None else None)
    ob("Any-before-class", i_any is not None and i_class is not None and i_any < i_class, "the typing.Any branch precedes the class branch (typing.Any is itself a class on Python 3.11+)", "the class branch catches typing.Any first and keys it as type[typing.Any]: Any no longer counts as object")
    if isinstance(default, ast.Name):
        for n in ast.walk(f.node):
            if isinstance(n, ast.NamedExpr) and n.target.id == default.id:
                default = n.value
            elif isinstance(n, ast.Assign) and any(dotted(t) == default.id for t in n.targets):
                default = n.value
    ob("default->type(obj)", isinstance(default, ast.Call) and call_name(default) == "type" and len(default.args) == 1 and dotted(default.args[0]) == p, "ordinary arguments are keyed by their class", "ordinary (non-type) arguments no longer dispatch on type(obj)")


def key_function_sites(ctx, only=None):
    repo = ctx.repo
    sub = A.subtler_fn(repo)
    an = A.argument_analyzer(repo)
    sel = an.methods.get("lookup_for")
    ctx.require(sel is not None, f"{an.key} has no per-position key selector (lookup_for)")
    ctx.touch(sub, sel)
    n = 0
    for f in repo.all_funcs():
        if f is sub or f is sel:
            continue
        if only is not None and f.name not in only:
            continue
        # is the key function's name visible here under its own name?
        pm = None
        for node in ast.walk(f.node):
            if isinstance(node, ast.Name) and node.id == sub.name and isinstance(node.ctx, ast.Load):
                # nested defs are visited on their own
                if pm is None:
                    pm = parent_map(f.node)
                owner = node
                skip = False
                while owner in pm:
                    owner = pm[owner]
                    if isinstance(owner, (ast.FunctionDef, ast.Lambda)) and owner is not f.node:
                        skip = True
                        break
                if skip:
                    continue
                par = pm.get(node)
                # comparisons `x is subtler_type` and injection into a globals dict are not key-building
                if isinstance(par, ast.Compare):
                    continue
                if isinstance(par, ast.Assign) and par.value is node and isinstance(par.targets[0], ast.Subscript):
                    continue
                if isinstance(par, ast.Dict):
                    continue
                if f.name.startswith("display_"):
                    ctx.note(f"{f.key} ({f.loc(node)}) keys its diagnostic printout with {sub.name} unconditionally; no property speaks about the diagnostic display")
                    continue
                n += 1
                ctx.touch(f)
                ctx.ob(
                    f"{f.key}:{sub.name}-unconditional",
                    f.loc(node),
                    f"a lookup key built from argument values goes through the per-position selector ({sel.name})",
                    False,
                    f"`{short(par if par is not None else node, 60)}` keys every argument with {sub.name} regardless of position, unlike the entry point: for a class argument at a position that dispatches on plain classes it looks up type[cls] where the call looks up the metaclass",
                )
    if only is None:
        # positive inventory: the generators' key fragments
        def _skel(ctx_):
            n_ = 0
            gen = A.entry_generator(repo)
            ctx.touch(gen)
            from .c03 import entrygen

            lookup_list = entrygen(ctx).lookup
            for e in emissions(gen.node):
                try:
                    sk = from_fstring(e.arg)
                except AnalysisError:
                    continue
                for h in sk.holes.values():
                    pass
                txt = sk.text
                looks = [h for h in sk.holes.values() if "lookup_for" in h or sel.name in h]
                is_key_fragment = e.sink == lookup_list or "TARGS.append" in txt
                if not is_key_fragment or not sk.holes:
                    continue
                # constant fragments such as "*TARGS" carry no key function
                if not any(c.isalpha() for c in txt.replace("TARGS", "")) and not looks:
                    continue
                n_ += 1
                ctx.ob(
                    f"{gen.key}:key-fragment:{short(e.arg, 40)}",
                    gen.loc(e.node),
                    "a key fragment of the generated entry point applies the per-position selector",
                    bool(looks),
                    f"`{short(e.arg, 60)}` builds a key element without the per-position selector: type-valued arguments at that position are keyed by their metaclass",
                )

        from .c03 import _with_fallback

        _with_fallback(ctx, ("key-functions",), _skel)
        n += 1
        from .rewriter import law_key_functions

        law_key_functions(ctx)
        n += 1
    # methods of the function class that subscript the table with a key built from their arguments
    oc = A.function_class(repo)
    for m in oc.methods.values():
        if only is not None and m.name not in only:
            continue
        rv = recv_name(m)
        if not m.node.args.vararg:
            continue
        va = m.node.args.vararg.arg
        subs = [x for x in ast.walk(m.node) if isinstance(x, ast.Subscript) and is_self_attr(x.value, "map", selfname=rv) and isinstance(x.ctx, ast.Load)]
        if not subs or not any(isinstance(x, ast.Name) and x.id == va for x in ast.walk(m.node)):
            continue
        verdict = _method_key_by_interpretation(ctx, oc, m, sel)
        if verdict is not None:
            ok_i, detail_i = verdict
            n += 1
            ctx.touch(m)
            ctx.ob(
                f"{m.key}:key-selector",
                m.loc(subs[0]),
                f"{m.name}() looks the table up under one element per argument, each built by the key function the per-position selector gives for that position (interpreted)",
                ok_i,
                f"{m.name}() {detail_i}: it names / continues to a different method than the call itself",
            )
            continue
        # expressions the key is built from (def chain of the subscript's key), and aliases of the selector
        aliases = {sel.name}
        for a in ast.walk(m.node):
            if isinstance(a, ast.Assign) and isinstance(a.value, ast.Attribute) and a.value.attr == sel.name:
                aliases |= {t.id for t in a.targets if isinstance(t, ast.Name)}
        exprs = [subs[0].slice]
        seen = set()
        for _ in range(4):
            for e in list(exprs):
                for x in ast.walk(e):
                    if isinstance(x, ast.Name) and x.id not in seen:
                        seen.add(x.id)
                        for a in ast.walk(m.node):
                            if isinstance(a, ast.Assign) and any(isinstance(t, ast.Name) and t.id == x.id for t in a.targets):
                                exprs.append(a.value)
                            elif isinstance(a, ast.Call) and isinstance(a.func, ast.Attribute) and a.func.attr in ("append", "extend", "insert", "add") and dotted(a.func.value) == x.id:
                                exprs.extend(a.args)
                            elif isinstance(a, ast.AugAssign) and dotted(a.target) == x.id:
                                exprs.append(a.value)
        uses = [
            c
            for e in exprs
            for c in ast.walk(e)
            if isinstance(c, ast.Call) and ((isinstance(c.func, ast.Name) and c.func.id in aliases) or (isinstance(c.func, ast.Attribute) and c.func.attr == sel.name))
        ]
        n += 1
        ctx.touch(m)
        ctx.ob(
            f"{m.key}:key-selector",
            m.loc(subs[0]),
            f"{m.name}() builds the key for `{short(subs[0], 30)}` from its arguments through the per-position selector",
            bool(uses),
            f"{m.name}() builds its lookup key without the per-position selector: it names / continues to a different method than the call itself",
        )
    ctx.require(n, "no key-building site found")


def _method_key_by_interpretation(ctx, oc, m, sel):
    """Interpret a method of the function class that takes the call's arguments and subscripts the table: the key it
    uses must be (caller's code object,)? + (selector(i)(arg_i) for every argument).  None if not interpretable."""
    from ..metainterp import HostFn, HostInterp, Raised, Record

    keys = []

    class _Map(dict):
        def __missing__(self, key):
            keys.append(key)
            return HostFn(lambda *a, **k: ("CALL", key, a, k))

    class _Sel:
        def get(self, k, default=None):
            return HostFn(lambda v, k=k: (("type-valued" if k == 0 else "plain"), k, v))

    CODE = Record(kind="caller's code")
    analysis = Record()
    setattr(analysis, sel.name, HostFn(lambda k: _Sel().get(k)))
    me = Record(map=_Map(), _compiled=True, _locked=False, name="f", children=[], mixins=[])
    # the attribute through which the selector is reached: `self.<attr>.<selector>`
    attrs = {x.value.attr for mm in oc.methods.values() for x in ast.walk(mm.node) if isinstance(x, ast.Attribute) and x.attr == sel.name and isinstance(x.value, ast.Attribute)}
    for a in attrs:
        setattr(me, a, analysis)
    build = A.build_method(ctx.repo)
    ensurers = {build.name} | {mm.name for mm in oc.methods.values() if any(is_self_attr(c.func, build.name, selfname=recv_name(mm)) for c in ast.walk(mm.node) if isinstance(c, ast.Call)) and mm is not m}
    for e in ensurers:
        setattr(me, e, HostFn(lambda *a, **k: None))
    methods = {n: mm.node for n, mm in oc.methods.items() if n not in ensurers}
    genv = {"sys": Record(_getframe=HostFn(lambda n=0: Record(f_code=CODE, f_back=Record(f_code=CODE))))}
    hi = HostInterp(methods, me, _Sel(), globals_env=genv, classes={}, functions={})
    try:
        hi.call_function(m.node, [me, "v0", "v1"], {}, {})
    except (AnalysisError, Raised) as e:
        ctx.note(f"{m.key} not interpretable ({e}); key derivation checked syntactically")
        return None
    if len(keys) != 1:
        return False, f"subscripts the table {len(keys)} times for one call"
    key = list(keys[0]) if isinstance(keys[0], (tuple, list)) else [keys[0]]
    if key and key[0] is CODE:
        key = key[1:]
    want = [("type-valued", 0, "v0"), ("plain", 1, "v1")]
    if key != want:
        return False, f"looks up {key} where the per-position selector gives {want}"
    return True, ""


def get_callgraph_for(ctx):
    from ..callgraph import CallGraph

    if "callgraph" not in ctx.cache:
        ctx.cache["callgraph"] = CallGraph(ctx.repo)
    return ctx.cache["callgraph"]


def r2(ctx):
    key_function_sites(ctx)


def normaliser_chain(ctx):
    nz = A.normalizer(ctx.repo)
    call = nz.methods["__call__"]
    rv = recv_name(call)
    params = [p for p in call.params if p != rv]
    return nz, call, params[0], flatten_chain(call.node.body)


def _assigned_in(body, name):
    for st in body:
        if isinstance(st, ast.Assign) and any(isinstance(t, ast.Name) and t.id == name for t in st.targets):
            return st.value
    return None


def r3_normaliser_type_branches(ctx):
    nz, call, t, chain = normaliser_chain(ctx)
    ctx.touch(call)

    def find(pred):
        for test, body, node in chain:
            if test is None:
                continue
            alts = test.values if isinstance(test, ast.BoolOp) and isinstance(test.op, ast.Or) else [test]
            if any(pred(a) for a in alts):
                return body, node
        return None, None

    def is_(test, what):
        return isinstance(test, ast.Compare) and len(test.ops) == 1 and isinstance(test.ops[0], ast.Is) and dotted(test.left) == t and dotted(test.comparators[0]) in what

    def result(body):
        v = _assigned_in(body, t)
        return v if v is not None else _branch_return(body)

    b, node = find(lambda x: is_(x, {"type"}))
    ctx.ob(f"{call.key}:type->type[object]", call.loc(node or call.node), "a bare `type` annotation is normalised to type[object]", b is not None and _is_type_sub(result(b), "object"), "bare `type` is no longer normalised to type[object]: a method annotated `type` stops matching classes passed as arguments")
    for what, label in (({"typing.Any", "Any"}, "Any"), ({"inspect._empty", "_empty"}, "missing")):
        b, node = find(lambda x, w=what: is_(x, w))
        ctx.ob(f"{call.key}:{label}->object", call.loc(node or call.node), f"a {label} annotation is normalised to object", b is not None and dotted(result(b)) == "object", f"a {label} annotation is no longer normalised to object")
    # type[...] annotations are kept as they are
    kept = False
    knode = None
    for test, body, node in chain:
        if test is not None and isinstance(test, ast.Compare) and isinstance(test.ops[0], ast.Is) and dotted(test.comparators[0]) == "type" and dotted(test.left) != t:
            v = _branch_return(body)
            kept = dotted(v) == t
            knode = node
    ctx.ob(f"{call.key}:type[...]-kept", call.loc(knode or call.node), "an annotation whose origin is `type` is kept unchanged", kept, "type[...] annotations are no longer passed through unchanged")


def r4_positions(ctx):
    from .c03 import r2_one_name_three_roles

    r2_one_name_three_roles(ctx)


def r5_generic_arguments(ctx):
    from .c12 import zip_guards
    from .c13 import r2_covariance

    r2_covariance(ctx)
    zip_guards(ctx)


def r6_entry_point_republished(ctx):
    from .c05 import r3_rebuild_from_nothing

    r3_rebuild_from_nothing(ctx)


def r7_every_parameter_can_be_type_valued(ctx):
    """The set of positions / names keyed by the type-valued key function is filled from every parameter of every
    method - positional or keyword-only - whose annotation is a generic alias."""
    repo = ctx.repo
    an = A.argument_analyzer(repo)
    sel = an.methods.get("lookup_for")
    ctx.require(sel is not None, "no per-position selector")
    attrs = [x.attr for x in ast.walk(sel.node) if is_self_attr(x, selfname=recv_name(sel))]
    ctx.require(attrs, f"{sel.key}: the selector consults no attribute")
    cattr = attrs[0]
    n = 0
    from .common import holds_at

    for m in an.methods.values():
        rv = recv_name(m)
        for c in ast.walk(m.node):
            if isinstance(c, ast.Call) and isinstance(c.func, ast.Attribute) and c.func.attr in ("update", "add") and is_self_attr(c.func.value, cattr, selfname=rv):
                n += 1
                ctx.touch(m)
                # restricted to positional parameters?
                restricted = holds_at(ctx, m, c, lambda a: a[0] == "cmp" and a[1] == "IsNot" and "position" in src(a[2]) + src(a[3]) and "None" in (src(a[2]), src(a[3])))
                filt = False
                for g in ast.walk(c):
                    if isinstance(g, ast.comprehension):
                        for cond in g.ifs:
                            if "position" in src(cond):
                                filt = True
                ctx.ob(
                    f"{m.key}:{cattr}",
                    m.loc(c),
                    f"`{short(c, 60)}` records every parameter with a generic-alias annotation, positional or keyword-only",
                    not restricted and not filt,
                    f"`{short(c, 60)}` only runs for positional parameters: a keyword-only parameter annotated type[...] is keyed with type(), so a class passed for it is looked up as its metaclass and no type[...] method ever applies",
                )
    ctx.require(n, f"{an.key}: nothing fills `{cattr}`")


def r7(ctx):
    from . import arganal

    r7_every_parameter_can_be_type_valued(ctx)
    arganal.law(ctx, "key-function")


def _more(name):
    def run(ctx):
        from . import more

        getattr(more, name)(ctx)

    run.__name__ = name
    return run


RULES = [
    ("C14.R7", "P1", r7, "keyword-only parameters can be type-valued too"),
    ("C14.R4", "P1", r4_positions, "the key function is chosen for the parameter's real position"),
    ("C14.R5", "P1", r5_generic_arguments, "parametrised generics are compared argument-wise under a length test"),
    ("C14.R6", "P1", r6_entry_point_republished, "a rebuild re-publishes the entry point's helpers (the type-valued key function among them)"),
    ("C14.R1", "P1", r1_subtler_chain, "the type-valued key function's branches"),
    ("C14.R2", "P1", r2, "one key function everywhere"),
    ("C14.R3", "P1", r3_normaliser_type_branches, "normaliser branches for type / Any"),
    ("C14.R8", "P1", _more("annotations_pass_the_normaliser"), "every annotation read passes the normaliser"),
]
