"""Where a recurse / call_next call may stand (C09: "every syntactically valid placement of such a call is accepted").

Sample methods with the call in one placement each - a statement, a comprehension's element, condition and iterable,
a lambda, a default value, a nested definition, an f-string, a conditional expression, a with item, a subscript, a
decorator of a nested definition, a generator, a chained comparison, a nested call - are parsed, rewritten by the
*interpreted* rewriter under real tree-traversal semantics (`ast.NodeTransformer`: `visit` dispatches to the
rewriter's `visit_<Class>` method if it has one, else to the generic visit, which replaces each child by what its visit
returns), and the resulting tree is compiled by the host compiler.  Nothing is run.  A placement whose rewritten
tree does not compile is one the package rejects (the user sees the SyntaxError on the first call).
"""

import ast

from ..metainterp import Raised
from ..model import AnalysisError
from . import rewriter as RW

PLACEMENTS = {
    "a statement": "return {C}(xs, ys)",
    "an argument of another call": "return len({C}(xs, ys))",
    "nested in its own argument": "return {C}(xs, {C}(ys, xs))",
    "a comprehension element": "return [{C}(x, ys) for x in xs]",
    "a comprehension condition": "return [x for x in xs if {C}(x, ys)]",
    "a comprehension iterable": "return [y for y in {C}(xs, ys)]",
    "the iterable of a second comprehension clause": "return [z for y in xs for z in {C}(y, ys)]",
    "a generator expression iterable": "return sum(y for y in {C}(xs, ys))",
    "a dict comprehension iterable": "return {{k: 1 for k in {C}(xs, ys)}}",
    "a comprehension iterable, after a nested comprehension": "return [y for y in ([q for q in xs], {C}(xs, ys))]",
    "the condition of a comprehension that is itself an iterable": "return [y for y in [q for q in xs if {C}(q, ys)]]",
    "the element of a comprehension that is itself an iterable": "return [y for y in [{C}(q, ys) for q in xs]]",
    "a class body defined in the method": "class K:\n        val = {C}(xs, ys)\n    return K.val",
    "a lambda body": "return (lambda a: {C}(a, ys))(xs)",
    "a conditional expression": "return {C}(xs, ys) if xs else {C}(ys, xs)",
    "an f-string": "return f'{{{C}(xs, ys)}}'",
    "a subscript": "return ys[{C}(xs, ys)]",
    "a with item": "with {C}(xs, ys) as w:\n        return w",
    "a for loop iterable": "for y in {C}(xs, ys):\n        return y",
    "a nested definition": "def inner(a):\n        return {C}(a, ys)\n    return inner(xs)",
    "a default of a nested definition": "def inner(a={C}(xs, ys)):\n        return a\n    return inner()",
    "a yield": "yield {C}(xs, ys)",
    "a chained comparison": "return 0 < {C}(xs, ys) < 9",
    "an assignment expression of the method": "return (w := {C}(xs, ys)) + w",
    "a keyword argument value": "return dict(a={C}(xs, ys))",
    "a starred argument": "return print(*{C}(xs, ys))",
    "an assert": "assert {C}(xs, ys)\n    return xs",
    "a try body": "try:\n        return {C}(xs, ys)\n    except TypeError:\n        return None",
}


def _sample(placement, callee, is_method):
    head = "def method(self, xs, ys):" if is_method else "def method(xs, ys):"
    return f"{head}\n    " + PLACEMENTS[placement].replace("{C}", callee) + "\n"


def rewrite_sample(ctx, placement, callee, is_method):
    """-> ('compiled', None) | ('rejected', message) | ('refused', what the rewriter raised)"""
    rw, hi, self_obj = RW._setup(ctx, is_method, {})
    src = _sample(placement, callee, is_method)
    tree = ast.parse(src)
    methods = hi.methods

    def visit(node):
        m = methods.get("visit_" + type(node).__name__)
        if m is not None:
            return hi.call_method("visit_" + type(node).__name__, node)
        return generic_visit(node)

    def generic_visit(node):
        for field, old in ast.iter_fields(node):
            if isinstance(old, list):
                new_values = []
                for v in old:
                    if isinstance(v, ast.AST):
                        v = visit(v)
                        if v is None:
                            continue
                        if not isinstance(v, ast.AST):
                            new_values.extend(v)
                            continue
                    new_values.append(v)
                old[:] = new_values
            elif isinstance(old, ast.AST):
                new = visit(old)
                if new is None:
                    delattr(node, field)
                else:
                    setattr(node, field, new)
        return node

    hi.concrete_visit = lambda kind, node: visit(node) if kind == "visit" else generic_visit(node)
    try:
        if "visit" in methods:
            out = hi.call_method("visit", tree)
        else:
            out = visit(tree)
    except Raised as r:
        return ("refused", r.what)
    except (AttributeError, TypeError, KeyError, IndexError, ValueError) as ex:
        # the interpreted rewriter fails on this tree the way it would under ast.NodeTransformer (e.g. it hands
        # something that is no node to `visit`)
        return ("refused", f"{type(ex).__name__}: {ex}")
    if not isinstance(out, ast.AST):
        raise AnalysisError(f"{rw.key}: the rewriter returns no tree for a whole module")
    ast.fix_missing_locations(out)
    # names the compiler will not leave alone: inside a class body a name with two leading underscores (and no two
    # trailing ones) is class-private - it is compiled as _<Class><name>, which nothing binds
    for cd in ast.walk(out):
        if isinstance(cd, ast.ClassDef):
            stored = {x.id for x in ast.walk(cd) if isinstance(x, ast.Name) and isinstance(x.ctx, ast.Store)}
            for x in ast.walk(cd):
                if isinstance(x, ast.Name) and isinstance(x.ctx, ast.Load) and x.id not in stored and x.id.startswith("__") and not x.id.endswith("__"):
                    return ("rejected", f"NameError at run time: inside the class body the emitted name `{x.id}` is compiled as the class-private `_{cd.name.lstrip('_')}{x.id}`, which nothing binds")
    try:
        compile(out, "<sample>", "exec")
    except SyntaxError as ex:
        return ("rejected", f"SyntaxError: {ex.msg}")
    except (TypeError, ValueError) as ex:
        raise AnalysisError(f"{rw.key}: the rewritten sample is not a tree the compiler takes ({type(ex).__name__}: {ex})")
    return ("compiled", None)


def law(ctx):
    """one obligation per placement and callee (recurse / call_next); methods and plain functions together"""
    m, loc = RW.rw_loc(ctx)
    ctx.touch(m)
    # the samples themselves must be valid Python before rewriting (this guards the table above)
    for pl in PLACEMENTS:
        for callee in ("REC", "CN"):
            compile(_sample(pl, callee, False), "<sample>", "exec")
    for callee, label in (("REC", "recurse"), ("CN", "call_next")):
        for pl in PLACEMENTS:
            outcomes = {}
            for is_method in (False, True):
                outcomes[is_method] = rewrite_sample(ctx, pl, callee, is_method)
            bad = [(im, o) for im, o in outcomes.items() if o[0] != "compiled"]
            what = ""
            if bad:
                im, o = bad[0]
                what = f"a {'method' if im else 'function'} with `{label}(...)` as {pl} is " + ("rewritten into a tree the compiler rejects (" + o[1] + ")" if o[0] == "rejected" else f"refused by the rewriter ({o[1]})")
            ctx.ob(
                f"{m.key}:placement:{label}:{pl.replace(' ', '-').replace(',', '')}",
                loc,
                f"`{label}(...)` standing as {pl} is rewritten into a tree that compiles (rewriter interpreted under NodeTransformer semantics on a sample method and a sample function; host compiler, nothing run)",
                not bad,
                what + ": a syntactically valid placement of the call is not accepted - the function fails with that error at its first call",
            )
