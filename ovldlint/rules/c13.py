"""C13 - type-level matching agrees with the documented meaning of each type (thin: structure only)."""

import ast

from .. import anchors as A
from ..model import call_name, dotted, is_self_attr, short, src
from ..norm import atoms
from .c11 import r4_connective_is_quantifier
from .c12 import _len_guarded, r2_reflexive_first, zip_guards
from .common import recv_name


def r1(ctx):
    r2_reflexive_first(ctx, which="subclasscheck")


def r2_covariance(ctx):
    """Interpret the subtype function on two parametrised generics whose origins are subclass-related: the answer is
    the conjunction of the recursive answers on the argument pairs (a_i, b_i), and False when the lengths differ."""
    import itertools

    from ..model import AnalysisError
    from ..orderdom import Interp

    f = A.subclasscheck_fn(ctx.repo)
    ctx.touch(f)
    p1, p2 = f.params[0], f.params[1]
    bad = None
    n = 0
    try:
        for la, lb in ((2, 2), (1, 1), (1, 2), (2, 1), (3, 3)):
            a = tuple(f"a{i}" for i in range(la))
            b = tuple(f"b{i}" for i in range(lb))
            for truth in itertools.product((True, False), repeat=min(la, lb)):
                calls = []

                def rec(x, y, truth=truth, calls=calls, a=a, b=b):
                    calls.append((x, y))
                    if x in a and y in b and a.index(x) == b.index(y):
                        return truth[a.index(x)]
                    return True  # a mispaired question is answered favourably: it must not have been asked

                stubs = {
                    "hasattr": lambda o, name: False,
                    "get_origin": lambda t: {"G1": "O1", "G2": "O2"}.get(t),
                    "typing.get_origin": lambda t: {"G1": "O1", "G2": "O2"}.get(t),
                    "get_args": lambda t, a=a, b=b: {"G1": a, "G2": b}.get(t, ()),
                    "typing.get_args": lambda t, a=a, b=b: {"G1": a, "G2": b}.get(t, ()),
                    "isinstance": lambda o, t: o in ("O1", "O2"),
                    "issubclass": lambda x, y: (x, y) == ("O1", "O2"),
                    f.name: rec,
                }
                got = Interp(A.order_enum(ctx.repo).name, stubs=stubs).run(f.node, {p1: "G1", p2: "G2", "UnionTypes": (), "type": "type"})
                want = la == lb and all(truth)
                mispaired = [c for c in calls if not (c[0] in a and c[1] in b and a.index(c[0]) == b.index(c[1]))]
                n += 1
                if (bool(got) != want or mispaired) and bad is None:
                    bad = (a, b, dict(zip(zip(a, b), truth)), got, mispaired)
    except AnalysisError as e:
        ctx.note(f"{f.key} not interpretable ({e}); shape rule used instead")
        return _r2_covariance_shape(ctx)
    ctx.ob(
        f"{f.key}:covariant-arguments",
        f.loc(),
        f"parametrised generics are compared argument-wise, covariantly, under a length test ({n} cases interpreted)",
        bad is None,
        (f"for G1[{', '.join(bad[0])}] against G2[{', '.join(bad[1])}] with argument answers {bad[2]} the function answers {bad[3]}" + (f" after asking about {bad[4]}" if bad[4] else "") + ": list[Dog] would (not) be accepted where list[Animal] is expected") if bad else "",
    )


def _r2_covariance_shape(ctx):
    f = A.subclasscheck_fn(ctx.repo)
    ctx.touch(f)
    p1, p2 = f.params[0], f.params[1]
    side = {}
    for s in ast.walk(f.node):
        if isinstance(s, ast.Assign) and isinstance(s.value, ast.Call) and call_name(s.value) in ("get_args", "typing.get_args") and isinstance(s.targets[0], ast.Name):
            side[s.targets[0].id] = 1 if dotted(s.value.args[0]) == p1 else 2 if dotted(s.value.args[0]) == p2 else 0
    rec = []
    for c in ast.walk(f.node):
        if isinstance(c, (ast.GeneratorExp, ast.ListComp)) and isinstance(c.elt, ast.Call) and call_name(c.elt) == f.name:
            g = c.generators[0]
            if isinstance(g.iter, ast.Call) and call_name(g.iter) == "zip" and isinstance(g.target, ast.Tuple):
                tg = [dotted(x) for x in g.target.elts]
                its = [side.get(dotted(a)) for a in g.iter.args]
                args = [dotted(a) for a in c.elt.args]
                rec.append((c, tg, its, args, g))
    ctx.require(rec, f"{f.key}: no argument-wise recursion over zipped type arguments")
    pm = None
    for c, tg, its, args, g in rec:
        in_order = its == [1, 2] and args == tg
        ok_all = False
        from ..model import parent_map

        pm = pm or parent_map(f.node)
        par = pm.get(c)
        ok_all = isinstance(par, ast.Call) and call_name(par) == "all"
        guarded = _len_guarded(ctx, f, g.iter, src(g.iter.args[0]), src(g.iter.args[1]))
        ctx.ob(
            f"{f.key}:covariant-arguments",
            f.loc(c),
            f"parametrised generics are compared argument-wise, covariantly: all({f.name}(a1, a2)) over zip(args of {p1}, args of {p2}), under a length test",
            in_order and ok_all and guarded,
            f"`{short(par if par is not None else c, 70)}` is not the covariant, all-arguments comparison under a length guard: list[Dog] would (not) be accepted where list[Animal] is expected",
        )


def r3(ctx):
    zip_guards(ctx)


def r4(ctx):
    r4_connective_is_quantifier(ctx)


PROTOCOL = ("codegen", "__type_order__", "__is_supertype__", "__is_subtype__", "__subclasscheck__", "__instancecheck__")


def r5_forwarders(ctx):
    repo = ctx.repo
    def forwarded_attr(c):
        """the attribute of the class object through which __subclasscheck__ is forwarded: cls.<attr>.__subclasscheck__(x)"""
        m = c.methods["__subclasscheck__"]
        rv = recv_name(m)
        for r in ast.walk(m.node):
            if isinstance(r, ast.Return) and isinstance(r.value, ast.Call) and isinstance(r.value.func, ast.Attribute) and is_self_attr(r.value.func.value, selfname=rv):
                return r.value.func.value.attr
        return None

    def handler_attr(c):
        new = c.methods.get("__new__")
        if new is not None:
            for d in ast.walk(new.node):
                if isinstance(d, ast.Dict) and len(d.keys) == 1 and isinstance(d.keys[0], ast.Constant) and isinstance(d.keys[0].value, str):
                    return d.keys[0].value
        return None

    metas = [c for c in repo.all_classes() if "type" in c.base_names and "__instancecheck__" in c.methods and "__subclasscheck__" in c.methods and (forwarded_attr(c) or handler_attr(c))]
    ctx.require(len(metas) == 1, f"expected one handler-forwarding metaclass, found {[m.key for m in metas]}")
    mc = metas[0]
    HATTR = handler_attr(mc) or forwarded_attr(mc)
    # by interpretation: each protocol method of the class object answers with what the handler's method of the same
    # name answers for the same argument
    from ..metainterp import HostFn, HostInterp, Instance, Raised, Record

    raw = repo.raw_methods(mc)
    funcs = {n_: g.node for n_, g in mc.module.funcs.items() if g.parent is None and g.cls is None and not g.node.decorator_list}
    interpreted = {}
    try:
        for name in PROTOCOL:
            if name not in raw:
                continue
            asked = []
            handler = Record(kind="handler")
            for other in PROTOCOL:
                setattr(handler, other, HostFn(lambda *a, other=other: asked.append((other, a)) or ("answer of", other)))
            t = Instance(mc.name, raw)
            t.__dict__[HATTR] = handler
            hi = HostInterp(raw, t, {}, globals_env={}, classes={}, functions=funcs)
            nparams = len([a for a in raw[name].args.posonlyargs + raw[name].args.args]) - 1
            args = [Record(kind="the argument")][:nparams]
            got = hi.call_function(raw[name], [t] + args, {}, {})
            interpreted[name] = got == ("answer of", name) and asked == [(name, tuple(args))]
    except (AnalysisError, Raised, TypeError, AttributeError) as e:
        ctx.note(f"{mc.key}: forwarders not interpretable ({e}); statement shape read instead")
        interpreted = None
    n = 0
    if interpreted is not None:
        for name, ok in interpreted.items():
            m = mc.methods.get(name)
            if m is None:
                continue
            ctx.touch(m)
            n += 1
            ctx.ob(f"{m.key}:forwards", m.loc(), f"the class object forwards {name} to its handler's {name} with the same argument (interpreted)", ok, f"{mc.name}.{name} does not forward to the handler's method of the same name: isinstance / issubclass / ordering on the type object answer a different question")
    for name in PROTOCOL if interpreted is None else ():
        m = mc.methods.get(name)
        if m is None:
            continue
        ctx.touch(m)
        rv = recv_name(m)
        others = [p for p in m.params if p != rv]
        rets = [r for r in ast.walk(m.node) if isinstance(r, ast.Return) and r.value is not None]
        ok = len(rets) == 1
        if ok:
            v = rets[0].value
            ok = isinstance(v, ast.Call) and isinstance(v.func, ast.Attribute) and v.func.attr == name and is_self_attr(v.func.value, HATTR, selfname=rv) and [dotted(a) for a in v.args] == others
        n += 1
        ctx.ob(f"{m.key}:forwards", m.loc(), f"the class object forwards {name} to its handler's {name} with the same argument", ok, f"{mc.name}.{name} does not forward to the handler's method of the same name: isinstance / issubclass / ordering on the type object answer a different question")
    ctx.require(n >= 4, f"{mc.key}: too few protocol methods")
    # __subclasscheck__ is __is_supertype__ in the handler siblings; __instancecheck__ of the single-function handler
    sibs = [c for c in repo.all_classes() if "__subclasscheck__" in c.methods and "__is_supertype__" in c.methods and c is not mc and "type" not in c.base_names and not any(b.endswith("MC") for b in c.base_names)]
    ctx.require(len(sibs) >= 3, f"expected the single-function handler, the union and the intersection, found {[s.key for s in sibs]}")
    for c in sibs:
        m = c.methods["__subclasscheck__"]
        ctx.touch(m)
        rv = recv_name(m)
        arg = [p for p in m.params if p != rv][0]
        rets = [r for r in ast.walk(m.node) if isinstance(r, ast.Return) and r.value is not None]
        ok = len(rets) == 1 and isinstance(rets[0].value, ast.Call) and is_self_attr(rets[0].value.func, "__is_supertype__", selfname=rv) and [dotted(a) for a in rets[0].value.args] == [arg]
        ctx.ob(f"{m.key}:is-supertype", m.loc(), f"{c.name}.__subclasscheck__ is its __is_supertype__", ok, f"issubclass(X, {c.name}-type) no longer agrees with the subtype test used for dispatch")
        ic = c.methods.get("__instancecheck__")
        if ic is not None and not any(isinstance(x, ast.Attribute) and x.attr in ("types", "__args__") for x in ast.walk(ic.node)):
            ctx.touch(ic)
            rv = recv_name(ic)
            arg = [p for p in ic.params if p != rv][0]
            rets = [r for r in ast.walk(ic.node) if isinstance(r, ast.Return) and r.value is not None]
            ok = len(rets) == 1
            if ok:
                v = rets[0].value
                ok = isinstance(v, ast.Call) and call_name(v) in ("issubclass", f"{rv}.__is_supertype__", f"{rv}.__subclasscheck__") and isinstance(v.args[0], ast.Call) and call_name(v.args[0]) == "type" and dotted(v.args[0].args[0]) == arg and (len(v.args) == 1 or dotted(v.args[1]) == rv)
            ctx.ob(f"{ic.key}:class-level-test-on-type", ic.loc(), f"isinstance(obj, {c.name}-type) applies the class-level test to type(obj)", ok, "the instance check no longer applies the class-level test to type(obj): a method on such a type is applicable to values whose class does not satisfy it")


def documented_predicates(ctx):
    """Interpret Exactly / StrictSubclass / HasMethod (the parametrised class checks) on real stand-in classes.
    -> {name: (function, ok, detail)}; raises AnalysisError if not interpretable."""
    from ..metainterp import HostInterp, Raised, Record
    from ..model import AnalysisError

    repo = ctx.repo
    mod = repo.mod("types")
    out = {}
    Super = type("Super", (), {})
    Base = type("Base", (Super,), {"method": lambda self: None})
    Sub = type("Sub", (Base,), {})
    Other = type("Other", (), {})
    # a virtual subclass: issubclass says yes although the class is not in the MRO (ABC.register, __subclasshook__)
    VMeta = type("VMeta", (type,), {"__subclasscheck__": lambda cls, sub: type.__subclasscheck__(cls, sub) or getattr(sub, "__name__", "") == "Virtual"})
    VBase = VMeta("VBase", (), {})
    Virtual = type("Virtual", (), {})
    ORDER = Record(LESS="LESS", MORE="MORE", SAME="SAME", NONE="NONE")
    en = A.order_enum(repo)
    to = A.typeorder_fn(repo)
    for f in mod.funcs.values():
        if f.parent is not None or f.cls is not None or len(f.params) != 2 or f.name not in ("Exactly", "StrictSubclass", "HasMethod"):
            continue
        from ..metainterp import HostFn

        # a value-dependent type bound by Base: the subtype test lets Base and its subclasses in ("might match"),
        # the order function ranks it below its bound
        Dep = Record(label="Dependent[Base, c]", __is_supertype__=HostFn(lambda other: isinstance(other, type) and issubclass(other, Base)))

        def plain_order(a, b):
            """the order of two plain classes (what the order function answers for them)"""
            if a is b:
                return "SAME"
            if b is Dep:
                return "MORE" if issubclass(a, Base) or issubclass(Base, a) else "NONE"
            if a is Dep:
                return "LESS" if issubclass(b, Base) or issubclass(Base, b) else "NONE"
            return "LESS" if issubclass(a, b) else "MORE" if issubclass(b, a) else "NONE"

        genv = {en.name: ORDER, to.name: plain_order, "TypeRelationship": lambda order=None, supertype=None, subtype=None, **k: Record(order=order, supertype=supertype, subtype=subtype)}
        funcs = {n: g.node for n, g in mod.funcs.items() if g.parent is None and g.cls is None and g is not f and not g.node.decorator_list}
        hi = HostInterp({}, Record(), {}, globals_env=genv, classes={}, functions=funcs)

        def run(*a, hi=hi, f=f):
            try:
                return hi.call_function(f.node, list(a), {}, {})
            except Raised as r:
                raise AnalysisError(f"{f.key}: raises {r.what}")

        bad = None
        if f.name == "Exactly":
            r_same, r_sub, r_other, r_super, r_dep = run(Base, Base), run(Sub, Base), run(Other, Base), run(Super, Base), run(Dep, Base)
            for what, r, want_order, want_super in (("the class itself", r_same, "LESS", True), ("a subclass", r_sub, plain_order(Base, Sub), False), ("an unrelated class", r_other, plain_order(Base, Other), False), ("a superclass", r_super, plain_order(Base, Super), False), ("a value-dependent type bound by the class", r_dep, plain_order(Base, Dep), False)):
                if not isinstance(r, Record) or r.order != want_order or bool(r.supertype) != want_super:
                    bad = bad or f"for {what} Exactly[Base] answers order={getattr(r, 'order', r)!r}, supertype={getattr(r, 'supertype', None)!r} (expected {want_order!r}, {want_super})"
        elif f.name == "StrictSubclass":
            for what, arg, base, want in (("a subclass", Sub, Base, True), ("the class itself", Base, Base, False), ("an unrelated class", Other, Base, False), ("a non-class", 5, Base, False), ("a virtual subclass (issubclass says yes, not in the MRO)", Virtual, VBase, True)):
                r = run(arg, base)
                if bool(r) != want:
                    bad = bad or f"for {what} StrictSubclass[Base] answers {r!r} (expected {want})"
        else:
            for what, arg, name, want in (("a class with the method", Base, "method", True), ("a subclass of it", Sub, "method", True), ("a class without it", Other, "method", False)):
                r = run(arg, name)
                if bool(r) != want:
                    bad = bad or f"for {what} HasMethod['method'] answers {r!r} (expected {want})"
        out[f.name] = (f, bad is None, bad or "")
    return out


def r6_documented_predicates(ctx):
    from ..model import AnalysisError
    from .common import run_fallback

    try:
        preds = documented_predicates(ctx)
        if len(preds) < 3:
            raise AnalysisError("expected Exactly, StrictSubclass and HasMethod")
    except AnalysisError as e:
        run_fallback(ctx, _r6_documented_predicates_shape, e, "documented class predicates")
        return
    texts = {"Exactly": ("exactly-the-class", "Exactly[T] is a supertype of a class only when it is T itself (and is then ranked LESS than T, otherwise like T)"), "StrictSubclass": ("proper-subclass", "StrictSubclass[T] matches subclasses of T but not T itself"), "HasMethod": ("has-the-method", "HasMethod[name] matches classes that have an attribute of that name")}
    for name, (f, ok, detail) in preds.items():
        ctx.touch(f)
        ctx.ob(f"{f.key}:{texts[name][0]}", f.loc(), texts[name][1] + " (interpreted on stand-in classes)", ok, detail + ": the documented meaning of the type no longer holds")
    _deferred_rule(ctx)


def _deferred_rule(ctx):
    repo = ctx.repo
    defs = [c for c in repo.all_classes() if c.name == "Deferred" and "__class_getitem__" in c.methods]
    for c in defs:
        m = c.methods["__class_getitem__"]
        ctx.touch(m)
        if not _deferred_by_interpretation(ctx, m):
            _deferred_shape(ctx, m)


def _r6_documented_predicates_shape(ctx):
    repo = ctx.repo
    mod = repo.mod("types")
    found = 0
    for f in mod.funcs.values():
        if f.parent is not None or f.cls is not None or len(f.params) != 2:
            continue
        if not any((dotted(d) or "").endswith("parametrized_class_check") for d in f.node.decorator_list):
            continue
        cls_p, par = f.params
        rets = [r for r in ast.walk(f.node) if isinstance(r, ast.Return) and r.value is not None]
        if len(rets) != 1:
            continue
        v = rets[0].value
        ctx.touch(f)
        if f.name == "Exactly":
            found += 1
            ok = False
            if isinstance(v, ast.Call) and call_name(v) == "TypeRelationship":
                for k in v.keywords:
                    if k.arg == "supertype":
                        t = k.value
                        ok = isinstance(t, ast.Compare) and isinstance(t.ops[0], ast.Is) and {dotted(t.left), dotted(t.comparators[0])} == {cls_p, par}
            ctx.ob(f"{f.key}:exactly-the-class", f.loc(), "Exactly[T] is a supertype of a class only when it is T itself", ok, "Exactly[T] matches classes other than T (for instance its subclasses)")
        elif f.name == "StrictSubclass":
            found += 1
            ats = atoms(v)
            sub = any(a[0] == "truthy" and isinstance(a[1], ast.Call) and call_name(a[1]) == "issubclass" and [dotted(x) for x in a[1].args] == [cls_p, par] for a in ats)
            notself = any(a[0] == "cmp" and a[1] == "IsNot" and {src(a[2]), src(a[3])} == {cls_p, par} for a in ats)
            ctx.ob(f"{f.key}:proper-subclass", f.loc(), "StrictSubclass[T] matches subclasses of T but not T itself", sub and notself, "StrictSubclass[T] no longer means 'a subclass of T other than T'")
        elif f.name == "HasMethod":
            found += 1
            ok = isinstance(v, ast.Call) and call_name(v) == "hasattr" and [dotted(x) for x in v.args] == [cls_p, par]
            ctx.ob(f"{f.key}:has-the-method", f.loc(), "HasMethod[name] matches classes that have an attribute of that name", ok, "HasMethod[name] no longer tests hasattr(cls, name)")
    ctx.require(found >= 3, "expected Exactly, StrictSubclass and HasMethod")
    # Deferred["pkg.mod.Cls"]: a class is examined only if the top-level package of its module is the reference's
    defs = [c for c in repo.all_classes() if c.name == "Deferred" and "__class_getitem__" in c.methods]
    for c in defs:
        m = c.methods["__class_getitem__"]
        ctx.touch(m)
        if not _deferred_by_interpretation(ctx, m):
            _deferred_shape(ctx, m)


def _deferred_setup(ctx, m):
    """(build, imported) - `build()` constructs Deferred["pkg.sub.Cls"] abstractly (module not loaded) and returns a
    function asking that fresh type's class test about a class; `imported` lists the references resolved so far.
    None if the construct is not the expected shape (a note says why)."""
    from ..metainterp import Closure, HostFn, HostInterp, Raised, Record
    from ..model import AnalysisError

    imported = []
    REF = Record(kind="the referenced class")

    def getcls(ref):
        imported.append(ref)
        return REF

    captured = {}

    def handler_ctor(check, *a, **k):
        captured["check"] = check
        return Record(kind="handler")

    genv = {
        "sys": Record(modules={}),
        "issubclass": lambda cls, other: bool(other is REF and cls.sub),
    }
    # helpers by role: the call taking the nested test function as first argument builds the handler; the call taking
    # the reference string resolves it; the outermost call builds the type
    # module-level helpers are interpreted, except the one that resolves the reference (it imports)
    import builtins

    funcs_of_module = {}
    for n, g in m.module.funcs.items():
        if g.parent is None and g.cls is None and not any(isinstance(x, ast.Call) and call_name(x) in ("importlib.import_module", "import_module", "__import__") for x in ast.walk(g.node)) and not any(isinstance(x, (ast.Import, ast.ImportFrom)) for x in ast.walk(g.node)):
            funcs_of_module[n] = g.node
    nested = list(m.children.values())
    if len(nested) != 1:
        ctx.note(f"{m.key}: expected one nested class test; shape rule used instead")
        return False
    chk = nested[0]
    for c in ast.walk(m.node):
        if isinstance(c, ast.Call) and isinstance(c.func, ast.Name):
            if c.args and isinstance(c.args[0], ast.Name) and c.args[0].id == chk.name:
                genv[c.func.id] = handler_ctor
            elif len(c.args) == 1 and isinstance(c.args[0], ast.Name) and c.args[0].id in m.params[1:] and c.func.id not in ("str", "repr") and c.func.id not in funcs_of_module:
                genv[c.func.id] = getcls
    for c in ast.walk(m.node):
        if isinstance(c, ast.Call) and isinstance(c.func, ast.Name) and c.func.id not in genv and any(isinstance(a, ast.Call) and isinstance(a.func, ast.Name) and genv.get(a.func.id) is handler_ctor for a in c.args):
            genv[c.func.id] = lambda *a, **k: Record(kind="type")

    def build():
        captured.clear()
        hi = HostInterp({}, Record(), {}, globals_env=genv, classes={}, functions={k: v for k, v in funcs_of_module.items() if k not in genv})
        hi.call_function(m.node, [Record(kind="Deferred"), "pkg.sub.Cls"], {}, {})
        check = captured.get("check")
        if isinstance(check, Closure):
            return lambda k: hi.call_function(check.node, [k], {}, check.env)
        elif callable(check):
            return check
        return None

    return build, imported


def _deferred_by_interpretation(ctx, m):
    """Build Deferred["pkg.sub.Cls"] abstractly (module not loaded) and ask its class test about classes from various
    modules: it answers issubclass(cls, <the class>) exactly for classes whose module's first dotted component is
    `pkg`, False otherwise, and resolves the reference (imports) only in the first case."""
    from ..metainterp import Raised, Record
    from ..model import AnalysisError

    setup = _deferred_setup(ctx, m)
    if not setup:
        return False
    build, imported = setup
    try:
        run = build()
        if run is None:
            ctx.note(f"{m.key}: the class test handed to the handler was not captured; shape rule used instead")
            return False
        bad = None
        cases = [("pkg", True), ("pkg.sub", True), ("pkg.sub.deeper", True), ("pkgother", False), ("other.pkg", False), ("", False), (None, False)]
        n = 0
        for modname, inside in cases:
            for sub in (True, False):
                k = Record(sub=sub)
                if modname is not None:
                    k.__module__ = modname
                del imported[:]
                got = run(k)
                n += 1
                want = inside and sub
                if (bool(got) != want or (imported and not inside)) and bad is None:
                    bad = (modname, sub, got, list(imported))
    except (AnalysisError, Raised) as e:
        ctx.note(f"{m.key} not interpretable ({e}); shape rule used instead")
        return False
    ctx.ob(
        f"{m.key}:top-level-package",
        m.loc(),
        f"a deferred class reference is compared with the first dotted component of a class's module, and resolved only then ({n} cases interpreted)",
        bad is None,
        (f"for a class whose __module__ is {bad[0]!r} (subclass of the referenced class: {bad[1]}) the test answers {bad[2]!r}{' after importing ' + str(bad[3]) if bad[3] else ''}: a class defined in a submodule of the referenced package never matches, or foreign classes trigger the import" if bad else ""),
    )
    return True


def _deferred_shape(ctx, m):
    if True:
        checks = [f for f in m.children.values()]
        ok = False
        for chk in checks:
            firsts = set()
            for s in ast.walk(chk.node):
                if isinstance(s, ast.Assign) and isinstance(s.targets[0], ast.Name):
                    if any(isinstance(x, ast.Subscript) and isinstance(x.slice, ast.Constant) and x.slice.value == 0 and isinstance(x.value, ast.Call) and isinstance(x.value.func, ast.Attribute) and x.value.func.attr == "split" for x in ast.walk(s.value)):
                        firsts.add(s.targets[0].id)
            for cmp_ in ast.walk(chk.node):
                if isinstance(cmp_, ast.Compare) and len(cmp_.ops) == 1 and isinstance(cmp_.ops[0], ast.Eq):
                    sides = {dotted(cmp_.left), dotted(cmp_.comparators[0])}
                    if sides & firsts and len(sides) == 2:
                        ok = True
        ctx.ob(f"{m.key}:top-level-package", m.loc(), "a deferred class reference is compared with the first dotted component of a class's module (classes defined in submodules of the package are examined)", ok, "the deferred reference is compared with the class's full module path: a class defined in a submodule of the referenced package never matches")


def r7(ctx):
    from .c01 import r3_candidates_only_narrow

    r3_candidates_only_narrow(ctx)


def deferred_test_has_no_history(ctx):
    """The class test of a deferred reference answers the same about a class whether it is the first class it is asked
    about or it was asked about any other class before (a class of the package, a foreign class, a subclass or not):
    the answer is cached per argument class by the tables, so an answer that depends on what was asked before makes a
    call's outcome depend on earlier calls.  Decided by interpreting a fresh test per ordered pair of questions."""
    from ..metainterp import Raised, Record
    from ..model import AnalysisError

    repo = ctx.repo
    defs = [c for c in repo.all_classes() if c.name == "Deferred" and "__class_getitem__" in c.methods]
    ctx.require(len(defs) == 1, "the deferred-reference class was not found")
    m = defs[0].methods["__class_getitem__"]
    ctx.touch(m)
    setup = _deferred_setup(ctx, m)
    ctx.require(bool(setup), f"{m.key}: not the expected shape (one nested class test handed to a handler)")
    build, imported = setup
    qs = [(mod, sub) for mod in ("pkg", "pkg.sub", "pkgother", "other.pkg", None) for sub in (True, False)]

    def klass(q):
        k = Record(sub=q[1])
        if q[0] is not None:
            k.__module__ = q[0]
        return k

    bad = None
    n = 0
    try:
        first = {}
        for q in qs:
            run = build()
            ctx.require(run is not None, f"{m.key}: the class test handed to the handler was not captured")
            first[q] = bool(run(klass(q)))
        for q0 in qs:
            for q in qs:
                run = build()
                run(klass(q0))
                again = bool(run(klass(q0)))
                got = bool(run(klass(q)))
                n += 1
                if bad is None and again != first[q0]:
                    bad = (q0, q0, again, first[q0])
                if bad is None and got != first[q]:
                    bad = (q0, q, got, first[q])
    except Raised as e:
        raise AnalysisError(f"{m.key}: the class test raises {e.what} on a second question")
    ctx.ob(
        f"{m.key}:no-history",
        m.loc(),
        f"the class test of a deferred reference gives one answer per class, whatever it was asked before ({n} ordered pairs of questions on fresh tests)",
        bad is None,
        (f"asked about a class of module {bad[1][0]!r} (subclass of the referenced class: {bad[1][1]}) it answers {bad[2]} after a question about a class of module {bad[0][0]!r} (subclass: {bad[0][1]}) and {bad[3]} when asked first: which method runs for that class depends on which classes were dispatched on earlier" if bad else ""),
    )


RULES = [
    ("C13.R7", "P1", r7, "a method is a candidate only if every argument's type satisfies its parameter type"),
    ("C13.R1", "P1", r1, "reflexive shortcut first"),
    ("C13.R2", "P1", r2_covariance, "argument-wise covariance"),
    ("C13.R3", "P1", r3, "no zip of two types' parameters without a length guard"),
    ("C13.R4", "P1", r4, "connective = quantifier"),
    ("C13.R5", "P1", r5_forwarders, "forwarders"),
    ("C13.R6", "P1", r6_documented_predicates, "documented meaning of Exactly / StrictSubclass / HasMethod"),
]
