"""The re-compiler (`recode`), abstractly executed from the method's source to the function object it returns.

Nothing of /repo is imported or run.  The method is a stand-in (`__code__` with free variables, first line and file
name; closure cells; defaults); `inspect.getsource` answers with a sample source; the rewriter class is a stub whose
`visit` returns the tree unchanged (what it rewrites is decided by the rewriter's own laws); `FunctionType` is a stub
that records what the new function is made of.  The syntax tree the interpreted code builds is handed to the host
Python's *compiler* (`compile` - a pure function from a tree to a code object; the resulting code is inspected,
never executed), so the free variables of the new code are the ones CPython really gives it.

Reference (C08 / C09 / C17): the function returned
  * has code whose free variables are those of the original method - `__class__` included, which is what `super()`
    and the method's class cell live on;
  * closes over the original's cell for each of these names;
  * keeps globals, defaults, keyword defaults and annotations of the original; carries the requested name;
  * finds, under the names the rewriter was told, the entry point, the table and its own code in its globals.
"""

import ast
import types

from .. import anchors as A
from ..metainterp import HostFn, HostInterp, Raised, Record
from ..model import AnalysisError

SAMPLE_METHOD = '''    @decorated
    def method(self, x, y=3, *, z=4):
        """doc"""
        return captured(super().method(x), __class__, recurse(x))
'''
SAMPLE_PLAIN = '''def plain(x, y=3):
    return recurse(x)
'''
# a method of class K that reads a class-private attribute: inside the class body the compiler spells it _K__secret
SAMPLE_PRIVATE = '''    def method(self, x):
        return self.__secret + recurse(x)
'''
# code objects of lambdas / comprehensions in the signature come before the function's own among the constants
SAMPLE_LAMBDA_DEFAULT = '''def plain(x, y=lambda v: [w for w in v]):
    return recurse(y(x))
'''


class FakeCode:
    def __init__(self, freevars, first, consts=()):
        self.co_freevars = tuple(freevars)
        self.co_firstlineno = first
        self.co_filename = "<file>"
        self.co_consts = tuple(consts)
        self.co_names = ()
        self.co_name = "method"


class Cell:
    def __init__(self, label):
        self.label = label

    def __repr__(self):
        return f"<cell {self.label}>"


class NewFn:
    """What `FunctionType(code, globals, name, defaults, closure)` was given."""

    def __init__(self, code, globals, name=None, argdefs=None, closure=None, kwdefaults=None):
        self.__code__ = code
        self.__globals__ = globals
        self.__name__ = name
        self.__defaults__ = argdefs
        self.__closure__ = closure
        self.__kwdefaults__ = kwdefaults
        self.__annotations__ = {}


SCENARIOS = {
    "method-with-closure-and-class-cell": dict(source=SAMPLE_METHOD, freevars=("__class__", "captured"), first=40),
    "method-with-closure-listed-otherwise": dict(source=SAMPLE_METHOD, freevars=("captured", "__class__"), first=40),
    "plain-function": dict(source=SAMPLE_PLAIN, freevars=(), first=7),
    "function-with-a-lambda-default": dict(source=SAMPLE_LAMBDA_DEFAULT, freevars=(), first=7),
    "method-reading-a-private-attribute": dict(source=SAMPLE_PRIVATE, freevars=(), first=12, qualname="K.method", original_names=("_K__secret", "recurse")),
}


def run(ctx, name):
    repo = ctx.repo
    rc = A.recompiler(repo)
    rw = A.rewriter(repo)
    sc = SCENARIOS[name]
    made = []

    class Rewriter:
        def __init__(self, *a, **k):
            self.args, self.kwargs = a, k
            made.append(self)

        def visit(self, tree):
            return tree

        def __getattr__(self, name):
            # something the re-compiler reads back from the rewriter after the visit: this stub recorded nothing
            if name.startswith("__"):
                raise AttributeError(name)
            return {}

    def function_type(*a, **k):
        f = NewFn(*a, **k)
        return f

    cells = {n: Cell(n) for n in sc["freevars"]}
    globs = {"existing": 1}
    fn = Record(
        __code__=FakeCode(sc["freevars"], sc["first"]),
        __closure__=tuple(cells[n] for n in sc["freevars"]) or None,
        __globals__=globs,
        __defaults__=(3,),
        __kwdefaults__={"z": 4} if "z=4" in sc["source"] else None,
        __annotations__={"x": "ann"},
        __name__="method",
        __qualname__=sc.get("qualname", "method"),
    )
    if sc.get("original_names"):
        fn.__code__.co_names = tuple(sc["original_names"])
    dispatch, table = Record(kind="entry point"), Record(kind="table")
    ov = Record(id=7, argument_analysis=Record(kind="analysis"), dispatch=dispatch, map=table, name="mod.f", shortname="f", __name__="f", __qualname__="f", __module__="mod")
    genv = {
        "inspect": Record(getsource=HostFn(lambda f: sc["source"])),
        "OSError": Record(kind="OSError"),
        rw.name: Rewriter,
        "FunctionType": function_type,
        "CodeType": types.CodeType,
        "compile": compile,
    }
    for nm, imp in rc.module.imports.items():
        if imp[0] == "pkg" and nm not in genv:
            genv[nm] = Record(kind=f"the package's {nm}")
    funcs = {n: g.node for n, g in rc.module.funcs.items() if g.parent is None and g.cls is None and g is not rc}
    hi = HostInterp({}, Record(), {}, globals_env=genv, classes={}, functions=funcs)
    hi.host_types = hi.host_types + (FakeCode, Cell, NewFn, Rewriter, types.CodeType)
    if len(rc.params) != 5:
        raise AnalysisError(f"{rc.key}: expected (method, function object, recurse names, call_next name, new name)")
    try:
        out = hi.call_function(rc.node, [fn, ov, ("recurse",), None, "method[new]"], {}, {})
    except Raised as r:
        return None, f"raises {r.what}", None, None
    except (ValueError, IndexError, KeyError, SyntaxError) as ex:
        # the interpreted code fails on the stand-ins the way it would on the real objects
        return None, f"raises {type(ex).__name__}: {ex}", None, None
    except (TypeError, AttributeError) as ex:
        raise AnalysisError(f"{rc.key}: not interpretable on the stand-ins: {type(ex).__name__}: {ex}")
    return out, None, dict(fn=fn, cells=cells, globs=globs, dispatch=dispatch, table=table, made=made), sc


def check(ctx, name):
    out, failure, facts, sc = run(ctx, name)
    problems = {"free-variables": [], "closure-cells": [], "carried-over": [], "planted-globals": [], "private-names": []}
    if failure:
        for k in problems:
            problems[k].append(f"re-compiling the method {failure}")
        return problems
    if not isinstance(out, NewFn) or not isinstance(out.__code__, types.CodeType):
        raise AnalysisError("the re-compiler does not return a function made from compiled code")
    fn = facts["fn"]
    want_free = set(fn.__code__.co_freevars)
    got_free = set(out.__code__.co_freevars)
    if got_free != want_free:
        lost = sorted(want_free - got_free)
        problems["free-variables"].append(f"the new code's free variables are {sorted(got_free)}, the method's are {sorted(want_free)}" + (f": {lost} became global names" if lost else ""))
    clo = out.__closure__ or ()
    if len(clo) != len(out.__code__.co_freevars):
        problems["closure-cells"].append(f"{len(clo)} cells for {len(out.__code__.co_freevars)} free variables")
    else:
        for n, c in zip(out.__code__.co_freevars, clo):
            if n in facts["cells"] and c is not facts["cells"][n]:
                problems["closure-cells"].append(f"free variable {n} is given {c!r}")
    if out.__globals__ is not facts["globs"]:
        problems["carried-over"].append("the new function does not live in the method's globals")
    if out.__defaults__ != fn.__defaults__ or out.__kwdefaults__ != fn.__kwdefaults__ or out.__annotations__ != fn.__annotations__:
        problems["carried-over"].append("defaults, keyword defaults or annotations are not the method's")
    if out.__name__ != "method[new]" or out.__code__.co_name != "method[new]":
        problems["carried-over"].append(f"the new function is called {out.__name__!r} / its code {out.__code__.co_name!r}, not the requested name")
    if out.__code__.co_argcount != (3 if "self" in sc["source"] else 2) or "recurse" not in out.__code__.co_names:
        problems["carried-over"].append("the new code is not the method's own definition (another code constant of the compiled tree - a lambda or comprehension of the signature - was taken)")
    if sc.get("original_names"):
        private = [n for n in sc["original_names"] if n.startswith("_K__")]
        lost = [n for n in private if n not in out.__code__.co_names]
        if lost:
            problems["private-names"].append(f"the method's code reads {lost} (the compiler's spelling of a class-private name inside class K), the re-compiled code reads {[n for n in out.__code__.co_names if n.startswith('__') and not n.endswith('__')]}")
    # the names the rewriter was told are bound in the globals to entry point, table and the function's own code
    if len(facts["made"]) != 1:
        raise AnalysisError("the rewriter is not instantiated exactly once")
    told = {**facts["made"][0].kwargs}
    # the names the rewriter emits for entry point / table / own code (other texts it is told - the method's name, a
    # file name - are not names of planted globals)
    try:
        role_params = {v[1] for v in A.rewriter_roles(ctx.repo).values()}
    except AnalysisError:
        role_params = set(told)
    vals = [v for k, v in told.items() if isinstance(v, str) and k in role_params]
    g = out.__globals__
    bound = {v: g.get(v) for v in vals}
    if not any(b is facts["dispatch"] for b in bound.values()):
        problems["planted-globals"].append("none of the names given to the rewriter is bound to the function's entry point")
    if not any(b is facts["table"] for b in bound.values()):
        problems["planted-globals"].append("none of the names given to the rewriter is bound to the function's table")
    if not any(b is out.__code__ for b in bound.values()):
        problems["planted-globals"].append("none of the names given to the rewriter is bound to the new function's own code (call_next identifies the caller by it)")
    if any(b is None for b in bound.values()):
        problems["planted-globals"].append(f"names {sorted(k for k, b in bound.items() if b is None)} given to the rewriter are bound to nothing")
    return problems


LAW_TEXT = {
    "free-variables": ("the re-compiled code has exactly the method's free variables, the class cell `__class__` included", "a re-compiled method that uses super() or a captured variable fails with 'cell not found' / NameError as soon as it runs"),
    "closure-cells": ("every free variable of the new code is given the method's own cell of that name", "the re-compiled method reads another variable's value"),
    "carried-over": ("the new function keeps the method's globals, defaults, keyword defaults, annotations and parameters and carries the requested name", "default arguments or annotations are lost when a method uses recurse / call_next"),
    "private-names": ("class-private names (`self.__x` inside class K) keep the spelling the compiler gave them in the class", "a method that uses recurse / call_next and a private attribute raises AttributeError: the source is re-compiled outside its class and `__x` is no longer `_K__x`"),
    "planted-globals": ("each name the rewriter was told to emit is bound in the method's globals: to the entry point, the table, and the new function's own code", "the rewritten calls reach another function's entry point or table, or raise NameError"),
}


def law(ctx, *names, scenarios=None):
    rc = A.recompiler(ctx.repo)
    ctx.touch(rc)
    cache = ctx.cache.setdefault("recode_checked", {})
    for sc in scenarios or SCENARIOS:
        if not any((name == "private-names") == (sc == "method-reading-a-private-attribute") for name in names):
            continue
        if sc not in cache:
            cache[sc] = check(ctx, sc)
        for name in names:
            if (name == "private-names") != (sc == "method-reading-a-private-attribute"):
                continue
            text, why = LAW_TEXT[name]
            ps = cache[sc][name]
            ctx.ob(f"{rc.key}:{name}:{sc}", rc.loc(), f"[{sc}] {text} (re-compiler abstractly executed; tree compiled by the host compiler, nothing run)", not ps, "; ".join(ps[:2]) + ": " + why)
