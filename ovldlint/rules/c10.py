"""C10 - value-dependent methods run exactly when their condition holds."""

import ast

from .. import anchors as A
from ..cfg import all_stmts
from ..model import AnalysisError, call_name, dotted, is_self_attr, parent_map, short, src, str_value
from ..norm import atom_str, atoms
from ..skeleton import emissions
from .c01 import r6_bound_before_predicate
from .c05 import lookup_path
from .c14 import flatten_chain
from .common import cfg_of, recv_name


def _wrap_site(ctx):
    """(resolve method, call of the wrapper, wrapper method)"""
    multi = A.multimap(ctx.repo)
    depgen = A.dependent_generator(ctx.repo)
    wrappers = [m for m in multi.methods.values() if any(isinstance(c, ast.Call) and call_name(c) == depgen.name for c in ast.walk(m.node))]
    ctx.require(len(wrappers) == 1, "expected one method of the table calling the dependent generator")
    w = wrappers[0]
    for m in lookup_path(ctx, multi):
        rv = recv_name(m)
        for c in ast.walk(m.node):
            if isinstance(c, ast.Call) and is_self_attr(c.func, w.name, selfname=rv):
                return m, c, w
    raise AnalysisError("no call site of the dependent wrapper on the lookup path")


def resolution_entry(ctx):
    """The method the miss handler calls to resolve a key: the method that calls the wrapper, or - when a change split
    the resolution into several methods - the one of its callers on the lookup path that the miss handler calls."""
    multi = A.multimap(ctx.repo)
    res, _, _ = _wrap_site(ctx)
    path = lookup_path(ctx, multi)
    miss = multi.methods["__missing__"]
    seen = {res.key}
    cur = res
    while True:
        callers = [m for m in path if m is not cur and any(isinstance(c, ast.Call) and is_self_attr(c.func, cur.name, selfname=recv_name(m)) for c in ast.walk(m.node))]
        if any(m is miss for m in callers) or len(callers) != 1 or callers[0].key in seen:
            return cur
        cur = callers[0]
        seen.add(cur.key)


def r2_any_dependent_member_wraps(ctx):
    from . import resolveexec

    resolveexec.with_fallback(ctx, ("wrap-whole-rank", "wrap-next", "entries"), _r2_wrap_decision_shape, scenarios=[s for s in resolveexec.SCENARIOS if "dependent" in s or "codes" in s])
    _r2_dependent_flag(ctx)


def _r2_wrap_decision_shape(ctx):
    res, call, w = _wrap_site(ctx)
    multi = A.multimap(ctx.repo)
    ctx.touch(res, w)
    rv = recv_name(res)
    pm = parent_map(res.node)
    p = call
    guard = None
    while p in pm:
        child = p
        p = pm[p]
        if isinstance(p, ast.If) and any(child is s or any(child is x for x in ast.walk(s)) for s in p.body):
            guard = p
            break
    ctx.require(guard is not None and isinstance(guard.test, ast.Name), f"{res.key}: the wrap decision is no longer a flag tested by an if")
    flag = guard.test.id
    defs = [s for s in all_stmts(res.node) if isinstance(s, ast.Assign) and any(dotted(t) == flag for t in s.targets)]
    ok = bool(defs)
    grp = None
    for d in defs:
        v = d.value
        good = isinstance(v, ast.Call) and call_name(v) == "any" and len(v.args) == 1 and isinstance(v.args[0], (ast.GeneratorExp, ast.ListComp))
        if good:
            g = v.args[0].generators[0]
            good = dotted(g.iter) is not None and not g.ifs and any(is_self_attr(x, "dependent", selfname=rv) for x in ast.walk(v.args[0].elt))
            grp = dotted(g.iter) if good else None
        ok = ok and good
    ctx.ob(
        f"{res.key}:wrap-decision-existential",
        res.loc(defs[0]) if defs else res.loc(guard),
        "a rank is wrapped in a value-checking dispatcher as soon as any of its members is value-dependent (any over the whole rank)",
        ok,
        f"`{short(defs[0], 60) if defs else flag}` is not an existential over the whole rank: a rank mixing a dependent and a static method is treated as static and reported ambiguous even when the condition is false",
    )


def _r2_dependent_flag(ctx):
    multi = A.multimap(ctx.repo)
    # the per-handler flag is existential over all entries of the signature, keyword entries included
    regs = [m for m in multi.methods.values() if m not in lookup_path(ctx, multi) and any(isinstance(s, ast.Assign) and any(isinstance(t, ast.Subscript) and is_self_attr(t.value, "dependent", selfname=recv_name(m)) for t in s.targets) for s in ast.walk(m.node))]
    ctx.require(regs, "no registration site of the per-handler dependent flag")
    for m in regs:
        ctx.touch(m)
        for s in ast.walk(m.node):
            if isinstance(s, ast.Assign) and any(isinstance(t, ast.Subscript) and is_self_attr(t.value, "dependent", selfname=recv_name(m)) for t in s.targets):
                v = s.value
                good, why = _dependent_flag_by_interpretation(ctx, m, v)
                ctx.ob(
                    f"{m.key}:dependent-flag",
                    m.loc(s),
                    "a method counts as value-dependent if any entry of its signature is, positional or keyword (keyword entries unwrapped to their type)",
                    good,
                    f"`{short(s, 70)}`: {why}: a method whose only dependent parameter is keyword-only is dispatched without its value check",
                )


def _dependent_flag_by_interpretation(ctx, m, value):
    """Evaluate the stored flag (with the local statements it depends on) for every signature of 1..3 entries, each a
    dependent or static type, positional or keyword `(name, type)`: it must say whether any entry's type is dependent."""
    import itertools

    from .common import eval_with_slice

    kinds = ["D", "S", ("kw", "D"), ("kw", "S")]
    stubs = {"is_dependent": lambda t: t == "D", "isinstance": lambda x, t: isinstance(x, tuple) if t == "tuple" else False}
    # the signature tuple: a parameter attribute (`sig.types`) or a parameter
    rv = recv_name(m)
    params = [p for p in m.params if p != rv]
    bad = None
    n = 0
    for k in (1, 2, 3):
        for tup in itertools.product(kinds, repeat=k):
            env = {"tuple": "tuple"}
            for p in params:
                env[p] = tup
                env[f"{p}.types"] = tup
            try:
                got = eval_with_slice(m.node, value, env, stubs)
            except AnalysisError as e:
                return False, f"the flag's computation is not interpretable ({e})"
            want = any((t[1] if isinstance(t, tuple) else t) == "D" for t in tup)
            n += 1
            if bool(got) != want and bad is None:
                bad = (tup, got)
    if bad:
        return False, f"for the signature {bad[0]} (D = dependent, S = static, ('kw', .) = keyword entry) the flag is {bad[1]}"
    return True, ""


def r2b_dependent_at_any_depth(ctx):
    from ..orderdom import Interp

    repo = ctx.repo
    fs = [f for f in repo.all_funcs() if f.name == "is_dependent" and f.parent is None and f.cls is None]
    ctx.require(len(fs) == 1, "is_dependent not found")
    f = fs[0]
    ctx.touch(f)
    p = f.params[0]
    dm = A.dependent_meta(repo)
    bad = []
    n = 0
    for isdep in (True, False):
        for args in ((), ("a",), ("a", "b")):
            for answers in ([()] if not args else [tuple(x) for x in __import__("itertools").product((True, False), repeat=len(args))]):
                table = dict(zip(args, answers))
                stubs = {
                    "isinstance": lambda x, c, d=isdep: d if x == "T" else False,
                    "get_args": lambda x, a=args: a if x == "T" else (),
                    "typing.get_args": lambda x, a=args: a if x == "T" else (),
                    f.name: lambda x, t=table: t[x],
                }
                got = Interp("Order", stubs=stubs).run(f.node, {p: "T", dm.name: "DEP"})
                want = isdep or any(answers)
                n += 1
                if bool(got) != want:
                    bad.append((isdep, dict(table), got))
    ctx.ob(
        f"{f.key}:recursive",
        f.loc(),
        f"a type is value-dependent iff it is a dependent type or one of its type arguments is, recursively ({n} cases interpreted)",
        not bad,
        f"for a type that {'is' if bad and bad[0][0] else 'is not'} a dependent type with arguments answering {bad[0][1] if bad else ''} the test says {bad[0][2] if bad else ''}: a dependent type nested in the arguments of another type is registered as a plain static type and its condition is never checked",
    )


class DepGen:
    """The three strategies of the dependent generator, read from its emission structure."""

    def __init__(self, ctx):
        self.fi = g = A.dependent_generator(ctx.repo)
        self.ems = emissions(g.node)
        sinks = {e.sink for e in self.ems if "HANDLER" in e.skeleton.text or "FALLTHROUGH" in e.skeleton.text}
        ctx.require(len(sinks) == 1, f"{g.key}: emitted lines go to {sinks}")
        self.sink = sinks.pop()
        self.ems = [e for e in self.ems if e.sink == self.sink]
        # strategy = outermost if-chain around the emissions
        self.groups = {}
        for e in self.ems:
            key = tuple((c, b) for c, b in e.conds[:2])
            self.groups.setdefault(key, []).append(e)
        ctx.require(len(self.groups) == 3, f"{g.key}: expected three strategies (table / if-chain / counting), found {len(self.groups)} emission groups")
        self.keyed = self.chain = self.count = None
        for key, ems in self.groups.items():
            text = "\n".join(e.skeleton.text for e in ems)
            if ".get(" in text:
                self.keyed = ems
            elif "SUMMATION" in text or "MATCH" in text:
                self.count = ems
            else:
                self.chain = ems
        ctx.require(self.keyed and self.chain and self.count, f"{g.key}: could not tell the three strategies apart")


def depgen(ctx):
    if "depgen" not in ctx.cache:
        ctx.cache["depgen"] = DepGen(ctx)
    return ctx.cache["depgen"]


def _loop_enum(e):
    """(index var, element var(s), iterable name) of the enumerate loop enclosing emission e."""
    if not e.loops:
        return None
    lp = e.loops[-1]
    if isinstance(lp, ast.For) and isinstance(lp.iter, ast.Call) and call_name(lp.iter) == "enumerate" and isinstance(lp.target, ast.Tuple):
        return dotted(lp.target.elts[0]), lp.target.elts[1], dotted(lp.iter.args[0])
    return None


def _parse_line(sk):
    text = sk.text.strip()
    if text.endswith(":"):
        text += " pass"
    if text.startswith(("elif ", "else:")):
        text = "if X: pass\n" + text
    try:
        return ast.parse(text)
    except SyntaxError:
        raise AnalysisError(f"emitted line does not parse: {sk.text!r}")


def conj_list(ctx):
    """name of the guard list, and the loop that fills it"""
    dg = depgen(ctx)
    g = dg.fi
    for e in dg.chain:
        le = _loop_enum(e)
        if le:
            return le[2]
    raise AnalysisError(f"{g.key}: the if-chain is not emitted from an enumerate loop")


def r3_strategy_laws(ctx):
    from . import depgen as DG

    DG.with_fallback(ctx, ("decision", "check-placement", "injection", "signature", "result"), r3_skeleton_laws)


def r4_table_laws(ctx):
    from . import depgen as DG

    DG.with_fallback(ctx, ("decision",), r4_table_needs_disjoint_keys, configs=[c for c in DG.CONFIGS if c.startswith("keyed") or c.endswith("keyed")])


def r3_skeleton_laws(ctx):
    dg = depgen(ctx)
    g = dg.fi
    ctx.touch(g)
    conjs = conj_list(ctx)
    params = g.params
    # ---- if-chain
    loop_lines = [e for e in dg.chain if e.loops]
    tail = [e for e in dg.chain if not e.loops]
    ok = len(loop_lines) == 1 and len(tail) == 1
    if ok:
        e = loop_lines[0]
        i, elt, it = _loop_enum(e)
        sk = e.skeleton
        t = _parse_line(sk).body[0]
        ok = isinstance(t, ast.If) and isinstance(t.test, ast.Name) and sk.hole_of(t.test.id) == [dotted(elt)] and it == conjs
        r = t.body[0] if ok else None
        ok = ok and isinstance(r, ast.Return) and isinstance(r.value, ast.Call) and isinstance(r.value.func, ast.Name) and sk.literal_of(r.value.func.id) == "HANDLER§" and sk.hole_of(r.value.func.id) == [i]
        args_chain = sk.hole_of(r.value.args[0].id) if ok and r.value.args and isinstance(r.value.args[0], ast.Name) else None
        t2 = _parse_line(tail[0].skeleton).body[0]
        ok = ok and isinstance(t2, ast.Return) and isinstance(t2.value, ast.Call) and dotted(t2.value.func) == "FALLTHROUGH" and tail[0].node.lineno > e.node.lineno
        args_tail = tail[0].skeleton.hole_of(t2.value.args[0].id) if ok and t2.value.args else None
        ok = ok and args_chain == args_tail
    ctx.ob(f"{g.key}:if-chain", g.loc(loop_lines[0].node) if loop_lines else g.loc(), "if-chain strategy: guard i leads to handler i (same enumeration), then fall through with the same arguments", ok, "the if-chain pairs a guard with another handler, or does not fall through to the next rank with the same arguments")
    # ---- counting
    texts = [(e, e.skeleton) for e in dg.count]
    match_def = [e for e, sk in texts if sk.literal_of(sk.text.strip()).startswith("MATCH§ = ")]
    sum_def = [e for e, sk in texts if sk.text.strip().startswith("SUMMATION = ")]
    eq1 = [e for e, sk in texts if sk.text.strip() == "if SUMMATION == 1:"]
    eq0 = [e for e, sk in texts if sk.text.strip() == "elif SUMMATION == 0:"]
    els = [e for e, sk in texts if sk.text.strip() == "else:"]
    ret_h = [e for e, sk in texts if "return HANDLER" in sk.text]
    ret_f = [e for e, sk in texts if "return FALLTHROUGH" in sk.text]
    rais = [e for e, sk in texts if sk.text.strip().startswith("raise ")]
    okc = all(len(x) == 1 for x in (match_def, sum_def, eq1, eq0, els, ret_h, ret_f, rais))
    detail = "the counting strategy no longer has the shape: count the guards; exactly one -> that handler; none -> fall through; several -> ambiguity error"
    if okc:
        order = [x[0].node.lineno for x in (match_def, sum_def, eq1, ret_h, eq0, ret_f, els, rais)]
        okc = order == sorted(order)
        le = _loop_enum(match_def[0])
        okc = okc and le is not None and le[2] == conjs
        if okc:
            sk = match_def[0].skeleton
            a = _parse_line(sk).body[0]
            okc = isinstance(a, ast.Assign) and sk.hole_of(a.targets[0].id) == [le[0]] and isinstance(a.value, ast.Name) and sk.hole_of(a.value.id) == [dotted(le[1])]
        # per-handler return under the same index
        lh = _loop_enum(ret_h[0])
        if okc and lh is not None:
            sk = ret_h[0].skeleton
            t = _parse_line(sk).body[0]
            okc = isinstance(t, ast.If) and isinstance(t.test, ast.Name) and sk.literal_of(t.test.id) == "MATCH§" and sk.hole_of(t.test.id) == [lh[0]]
            r = t.body[0]
            okc = okc and isinstance(r, ast.Return) and isinstance(r.value, ast.Call) and sk.literal_of(r.value.func.id) == "HANDLER§" and sk.hole_of(r.value.func.id) == [lh[0]]
            okc = okc and sk.text.startswith("    ")
        else:
            okc = False
        # the sum ranges over every MATCHi
        if okc:
            sk = sum_def[0].skeleton
            hs = list(sk.holes.values())
            okc = len(hs) == 1
            sname = hs[0]
            sdefs = [s for s in all_stmts(g.node) if isinstance(s, ast.Assign) and any(dotted(t) == sname for t in s.targets)]
            okc = okc and len(sdefs) == 1
            if okc:
                v = sdefs[0].value
                okc = isinstance(v, ast.Call) and isinstance(v.func, ast.Attribute) and v.func.attr == "join" and str_value(v.func.value) == " + "
                ge = v.args[0] if okc else None
                okc = okc and isinstance(ge, (ast.GeneratorExp, ast.ListComp)) and (str_value(ge.elt) or "").startswith("MATCH§")
                if okc:
                    it = ge.generators[0].iter
                    okc = (isinstance(it, ast.Call) and call_name(it) == "range" and isinstance(it.args[0], ast.Call) and call_name(it.args[0]) == "len" and dotted(it.args[0].args[0]) in (lh[2], conjs)) or (isinstance(it, ast.Call) and call_name(it) == "enumerate")
                if not okc:
                    detail = "the match count does not add up every guard of the rank"
        # the ambiguity branch raises the error built from the rank
        if okc:
            sk = rais[0].skeleton
            hs = list(sk.holes.values())
            okc = len(hs) == 1 and hs[0].startswith("ndb[") and hs[0][4:-1] in params
            errp = hs[0][4:-1] if okc else None
            res, call, w = _wrap_site(ctx)
            wcall = [c for c in ast.walk(w.node) if isinstance(c, ast.Call) and call_name(c) == g.name][0]
            passed = None
            for k in wcall.keywords:
                if k.arg == errp:
                    passed = k.value
            if passed is None and errp in params and params.index(errp) < len(wcall.args):
                passed = wcall.args[params.index(errp)]
            grp_param = None
            # the wrapper's parameter that receives the rank (second positional of the error factory)
            okc = okc and isinstance(passed, ast.Call) and len(passed.args) == 2 and isinstance(passed.args[1], ast.Name) and passed.args[1].id in w.params
            if not okc:
                detail = "several guards holding at once does not raise the ambiguity error built from that rank"
    ctx.ob(f"{g.key}:counting", g.loc(match_def[0].node) if match_def else g.loc(), "counting strategy: 0 matches -> fall through, exactly 1 -> the matching handler (same index), otherwise raise the rank's ambiguity error", okc, detail)
    # ---- table
    okk = len(dg.keyed) == 2
    if okk:
        s1, s2 = dg.keyed[0].skeleton, dg.keyed[1].skeleton
        a = _parse_line(s1).body[0]
        okk = isinstance(a, ast.Assign) and isinstance(a.value, ast.Call) and isinstance(a.value.func, ast.Attribute) and a.value.func.attr == "get" and len(a.value.args) == 2 and dotted(a.value.args[1]) == "FALLTHROUGH"
        r = _parse_line(s2).body[0]
        okk = okk and isinstance(r, ast.Return) and isinstance(r.value, ast.Call) and dotted(r.value.func) == dotted(a.targets[0])
    ctx.ob(f"{g.key}:table", g.loc(dg.keyed[0].node), "table strategy: a key miss falls through to the next rank; a hit returns that handler's call", okk, "the table strategy does not fall through on a miss")
    # ---- the guard list: one guard per handler, the conjunction over all its dependent positions
    fills = [s for s in ast.walk(g.node) if isinstance(s, ast.Call) and isinstance(s.func, ast.Attribute) and s.func.attr == "append" and dotted(s.func.value) == conjs]
    okg = len(fills) == 1
    detail = "the guard list is not filled with exactly one guard per handler"
    if okg:
        pm = parent_map(g.node)
        p = fills[0]
        loop = None
        direct = False
        while p in pm:
            child = p
            p = pm[p]
            if isinstance(p, ast.For):
                loop = p
                direct = any(isinstance(s, ast.Expr) and s.value is fills[0] for s in p.body)
                break
        okg = loop is not None and direct and isinstance(loop.iter, ast.Call) and call_name(loop.iter) == "enumerate"
        hlist = dotted(loop.iter.args[0]) if okg else None
        if okg:
            # conj = " and ".join(codes); codes = [codegen(types[k], argname(k)) for k in relevant]; relevant = [k for k in tup if is_dependent(types[k])]
            val = fills[0].args[0]
            chain_ok = False
            defs = {}
            for s in loop.body:
                if isinstance(s, ast.Assign) and len(s.targets) == 1 and isinstance(s.targets[0], ast.Name):
                    defs.setdefault(s.targets[0].id, []).append(s.value)
            cj = defs.get(dotted(val), [None])[0] if isinstance(val, ast.Name) else None
            if isinstance(cj, ast.Call) and isinstance(cj.func, ast.Attribute) and cj.func.attr == "join" and str_value(cj.func.value) == " and ":
                codes = defs.get(dotted(cj.args[0]), [None])[0] if isinstance(cj.args[0], ast.Name) else cj.args[0]
                if isinstance(codes, (ast.ListComp, ast.GeneratorExp)) and len(codes.generators) == 1 and not codes.generators[0].ifs:
                    k = dotted(codes.generators[0].target)
                    e = codes.elt
                    same_k = isinstance(e, ast.Call) and len(e.args) == 2 and isinstance(e.args[0], ast.Subscript) and dotted(e.args[0].slice) == k and isinstance(e.args[1], ast.Call) and len(e.args[1].args) == 1 and dotted(e.args[1].args[0]) == k
                    rel = codes.generators[0].iter
                    reld = defs.get(dotted(rel), [None])[0] if isinstance(rel, ast.Name) else rel
                    rel_ok = isinstance(reld, (ast.ListComp, ast.GeneratorExp)) and len(reld.generators) == 1 and dotted(reld.generators[0].iter) is not None and len(reld.generators[0].ifs) == 1 and call_name(reld.generators[0].ifs[0]) == "is_dependent" and dotted(reld.elt) == dotted(reld.generators[0].target)
                    chain_ok = same_k and rel_ok
            okg = chain_ok
            if not okg:
                detail = "a handler's guard is not the `and`-conjunction, over all its dependent positions k, of the check of types[k] applied to argument k"
    ctx.ob(f"{g.key}:guards", g.loc(fills[0]) if fills else g.loc(), "handler i's guard is the conjunction over all its value-dependent positions of that position's type check applied to that position's argument", okg, detail + ": a method runs although one of its value conditions is false, or the condition is evaluated on another argument")
    # ---- injection: HANDLERi is the i-th handler of the same list
    inj = [s for s in ast.walk(g.node) if isinstance(s, ast.Assign) and isinstance(s.targets[0], ast.Subscript) and (str_value(s.targets[0].slice) or "").startswith("HANDLER§")]
    oki = len(inj) == 1
    if oki:
        pm = parent_map(g.node)
        p = inj[0]
        while p in pm and not isinstance(p, ast.For):
            p = pm[p]
        oki = isinstance(p, ast.For) and isinstance(p.iter, ast.Call) and call_name(p.iter) == "enumerate" and dotted(p.iter.args[0]) == hlist
        if oki:
            i = dotted(p.target.elts[0])
            h = p.target.elts[1]
            hvar = dotted(h.elts[0]) if isinstance(h, ast.Tuple) else dotted(h)
            oki = str_value(inj[0].targets[0].slice) == f"HANDLER§{i}§" and dotted(inj[0].value) == hvar
    ctx.ob(f"{g.key}:handler-injection", g.loc(inj[0]) if inj else g.loc(), "HANDLERi is bound to the i-th handler of the list the guards were built from", oki, "the emitted HANDLERi names are bound to other handlers than the guards were built for")


def _path_atoms(fnode, stmt):
    """Atoms that hold on the path to stmt (enclosing if tests with polarity)."""
    out = []

    def rec(stmts, acc):
        for st in stmts:
            if st is stmt:
                out.extend(acc)
                return True
            if isinstance(st, ast.If):
                if rec(st.body, acc + atoms(st.test)):
                    return True
                if rec(st.orelse, acc + atoms(st.test, True)):
                    return True
            elif isinstance(st, (ast.For, ast.While, ast.With)):
                if rec(st.body, acc) or rec(getattr(st, "orelse", []), acc):
                    return True
            elif isinstance(st, ast.Try):
                for b in (st.body, st.orelse, st.finalbody, *[h.body for h in st.handlers]):
                    if rec(b, acc):
                        return True
        return False

    rec(fnode.body, [])
    return out


def r4_table_needs_disjoint_keys(ctx):
    dg = depgen(ctx)
    g = dg.fi
    ctx.touch(g)
    # the variable tested by the table strategy
    cond = dg.keyed[0].conds[0][0]
    kv = cond.strip()
    sets = [s for s in all_stmts(g.node) if isinstance(s, ast.Assign) and any(dotted(t) == kv for t in s.targets) and not (isinstance(s.value, ast.Constant) and s.value.value is None)]
    ctx.require(sets, f"{g.key}: the table strategy's switch `{kv}` is never set")
    for s in sets:
        pa = _path_atoms(g.node, s)
        disjoint = False
        for a in pa:
            if a[0] == "cmp" and a[1] == "Eq":
                sides = {src(a[2]), src(a[3])}
                if any(x.startswith("len(") for x in sides) and any(x.startswith("sum(map(len") or x.startswith("sum(len(") for x in sides):
                    disjoint = True
        ctx.ob(
            f"{g.key}:table-only-on-disjoint-keys",
            g.loc(s),
            "the lookup table is chosen only where the merged key table lost no key (the handlers' key sets are pairwise disjoint)",
            disjoint,
            f"`{short(s, 60)}` selects the table although two handlers may share a key (path condition: {', '.join(atom_str(a) for a in pa) or 'none'}): the later handler silently wins where the call is ambiguous",
        )
    # more than one dependent position switches the table off
    resets = []
    for st in ast.walk(g.node):
        if isinstance(st, ast.If):
            at = atoms(st.test)
            if any(a[0] == "le" and src(a[2]).startswith("len(") and isinstance(a[1], ast.Constant) for a in at) or "len(relevant) > 1" in src(st.test):
                if any(isinstance(s, ast.Assign) and any(dotted(t) == kv for t in s.targets) and isinstance(s.value, ast.Constant) and s.value.value is None for s in st.body):
                    resets.append(st)
    # ... and the test runs for every handler: it sits in the loop that computes each handler's dependent positions
    per_handler = False
    for r in resets:
        names = {n.id for n in ast.walk(r.test) if isinstance(n, ast.Name)}
        for lp in ast.walk(g.node):
            if isinstance(lp, ast.For) and r in lp.body and any(isinstance(s, ast.Assign) and any(dotted(t) in names for t in s.targets) for s in lp.body):
                per_handler = True
    ctx.ob(
        f"{g.key}:table-only-on-single-position",
        g.loc(resets[0]) if resets else g.loc(),
        "every handler with more than one value-dependent position switches the table strategy off (tested per handler)",
        bool(resets) and per_handler,
        "the table strategy stays on for handlers with several dependent positions: only one position's value is checked",
    )


def r5_union_members_bound_guarded(ctx):
    """Inside a union (and an intersection nested in one) a value-dependent member's condition only decides for
    instances of that member's bound: decided by value (c11.r15_combinator_checks_by_value), which replaced the reading
    of the generator's text after F15 / F34 / F35 were repaired."""
    from .c11 import r15_combinator_checks_by_value

    r15_combinator_checks_by_value(ctx)


def r6_lower_rank_errors_told_apart(ctx):
    res, call, w = _wrap_site(ctx)
    g = A.dependent_generator(ctx.repo)
    ctx.touch(res, w, g)
    # what error does the wrapper hand over for "nothing below"?
    wcall = [c for c in ast.walk(w.node) if isinstance(c, ast.Call) and call_name(c) == g.name][0]
    const_empty = []
    for k in wcall.keywords:
        v = k.value
        if isinstance(v, ast.Call) and len(v.args) == 2 and isinstance(v.args[1], ast.Tuple) and not v.args[1].elts:
            const_empty.append(k)
    # does resolution mark an ambiguous rank by a None callable that is then offered as "next"?
    none_rank = [s for s in ast.walk(res.node) if isinstance(s, ast.Assign) and isinstance(s.value, ast.Constant) and s.value.value is None and isinstance(s.targets[0], ast.Name)]
    merged = False
    for s in ast.walk(g.node):
        if isinstance(s, ast.Assign) and isinstance(s.targets[0], ast.Subscript) and str_value(s.targets[0].slice) == "FALLTHROUGH":
            v = s.value
            merged = isinstance(v, ast.BoolOp) and isinstance(v.op, ast.Or)
    told_apart = not (const_empty and none_rank and merged)
    ctx.ob(
        f"{res.key}:lower-rank-{'distinguished' if told_apart else 'ambiguity-lost'}",
        res.loc(call),
        "when the dependent methods of a rank do not hold, falling into a tied lower rank reports the ambiguity, and only the absence of a lower rank reports 'No method'",
        told_apart,
        "an ambiguous lower rank is represented by a None callable, the generator maps a missing and a None fall-through alike to the 'No method' error built from an empty candidate list: the caller is told no method exists where two tied methods do",
    )


def dependent_order_table(ctx):
    """Decision table of DependentType.__type_order__, obtained by interpreting the method on every combination of
    its finitely many relevant inputs.  -> (method, rows) with rows = list of (case description, got, want)."""
    from ..orderdom import Interp

    dm = A.dependent_meta(ctx.repo)
    m = dm.methods.get("__type_order__")
    ctx.require(m is not None, f"{dm.key} lost __type_order__")
    rv = recv_name(m)
    other = [p for p in m.params if p != rv][0]
    rows = []
    OPP = {"LESS": "MORE", "MORE": "LESS", "SAME": "SAME", "NONE": "NONE"}

    def run(isdep, sc1, sc2, border, lt1, lt2):
        def typeorder(a, b):
            if (a, b) == ("SB", "OB"):
                return border
            if (a, b) == ("OB", "SB"):
                return OPP[border]
            raise AnalysisError(f"{m.key}: typeorder called on {a}, {b}")

        stubs = {
            "isinstance": lambda x, c: isdep if (x == "O" and c == "DEP") else False,
            "subclasscheck": lambda a, b: {("O", "SB"): sc1, ("SB", "O"): sc2}[(a, b)],
            "typeorder": typeorder,
            "<": lambda a, b: {("S", "O"): lt1, ("O", "S"): lt2}[(a, b)],
        }
        env = {rv: "S", other: "O", f"{rv}.bound": "SB", f"{other}.bound": "OB", dm.name: "DEP"}
        return Interp(A.order_enum(ctx.repo).name, stubs=stubs).run(m.node, env)

    for sc1 in (True, False):
        for sc2 in (True, False):
            want = "LESS" if (sc1 or sc2) else "NONE"
            rows.append((f"plain type; subtype of bound={sc1}, supertype of bound={sc2}", run(False, sc1, sc2, "NONE", False, False), want))
    for border in ("LESS", "MORE", "NONE"):
        rows.append((f"dependent type; bounds compare {border}", run(True, False, False, border, False, False), border))
    for lt1 in (True, False):
        for lt2 in (True, False):
            want = "LESS" if lt1 else ("MORE" if lt2 else "NONE")
            rows.append((f"dependent type; same bound; self<other={lt1}, other<self={lt2}", run(True, False, False, "SAME", lt1, lt2), want))
    return m, rows


def r7_order_against_plain_types(ctx):
    m, rows = dependent_order_table(ctx)
    ctx.touch(m)
    bad = [r for r in rows if r[0].startswith("plain") and r[1] != r[2]]
    ctx.ob(
        f"{m.key}:vs-plain-type",
        m.loc(),
        "against a non-dependent type the order is LESS when that type is related to the bound (either way) and NONE otherwise (4 cases interpreted)",
        not bad,
        f"{bad[0][0]}: answers {bad[0][1]} instead of {bad[0][2]}: a dependent type is no longer ranked more specific than its bound and the bound's sub/superclasses, so when its condition holds it is not preferred over methods declared on them" if bad else "",
    )


def r1(ctx):
    r6_bound_before_predicate(ctx)


def r2(ctx):
    r2_any_dependent_member_wraps(ctx)
    r2b_dependent_at_any_depth(ctx)


RULES = [
    ("C10.R1", "P1", r1, "bound before predicate"),
    ("C10.R2", "P1", r2, "a rank with any dependent member is wrapped"),
    ("C10.R3", "P1", r3_strategy_laws, "the three strategies decide as the property prescribes (abstract execution of the generator)"),
    ("C10.R4", "P1", r4_table_laws, "table path needs disjoint keys and one dependent position"),
    ("C10.R5", "P1", r5_union_members_bound_guarded, "a predicate inside a union is bound-guarded"),
    ("C10.R6", "P1", r6_lower_rank_errors_told_apart, "'no lower rank' and 'ambiguous lower rank' are told apart"),
    ("C10.R7", "P1", r7_order_against_plain_types, "order against plain types"),
]


def static_member_of_a_dependent_rank_is_selectable(ctx):
    """C06: in a rank that mixes a value-dependent method with a plain one (crossing specificities over two arguments),
    the plain member is selected when the dependent member's condition fails - the dependent method, inapplicable to
    that call, does not change its outcome."""
    from . import depgen as DG

    DG.with_fallback(ctx, ("decision",), r3_skeleton_laws, configs=["static-member-of-the-rank"])
