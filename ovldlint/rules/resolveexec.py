"""What the table's resolution stores for a key, obtained by abstractly executing the resolution method on symbolic
ranked candidates, compared with what C04 / C07 / C10 prescribe.

The method is interpreted by `metainterp.HostInterp`; nothing of /repo is imported or run.  `self` is a dictionary
with attributes; the ranking (`self.mro`), the dependent wrapper and the error factory are stubs that return / record
symbolic values.  A scenario lists the ranks (most specific first); each candidate says whether its method is
value-dependent and whether it has a code object.

Reference:
  * the bare key maps to the function of the first rank; for each further rank, every code object of the rank above,
    put in front of the key, maps to the function of that rank (this is how call_next continues "after me");
  * the function of a rank is: a value-checking wrapper over all its methods if any of them is value-dependent (given
    the rank below to fall through to), else its single method, else - tied - nothing: the rank's ambiguity error is
    filed under the same key(s) instead, and the chain ends there;
  * the chain also ends below a rank none of whose methods has a code object;
  * no rank at all: the 'no method' error is raised.
"""

import ast
import collections

from ..metainterp import HostFn, HostInterp, Raised, Record
from ..model import AnalysisError
from .common import recv_name


class Table(Record, dict):
    def __init__(self, **kw):
        dict.__init__(self)
        Record.__init__(self, **kw)

    __hash__ = object.__hash__


class Code(Record):
    def __repr__(self):
        return f"<code {self.name}>"


class Handler(Record):
    def __repr__(self):
        return self.name


def H(name, dep=False, code=True):
    return (name, dep, code)


SCENARIOS = {
    "single": [[H("a")]],
    "chain-of-three": [[H("a")], [H("b")], [H("c")]],
    "tie-on-top": [[H("a"), H("b")]],
    "tie-below": [[H("a")], [H("b"), H("c")]],
    "tie-in-the-middle": [[H("a")], [H("b"), H("c")], [H("d")]],
    "dependent-on-top": [[H("a", dep=True)], [H("b")]],
    "dependent-with-static-in-one-rank": [[H("a", dep=True), H("b")], [H("c")]],
    "static-first-dependent-second": [[H("b"), H("a", dep=True)], [H("c")]],
    "dependent-rank-below": [[H("a")], [H("b", dep=True), H("c", dep=True)], [H("d")]],
    "dependent-last": [[H("a")], [H("b", dep=True)]],
    "dependent-over-tie": [[H("a", dep=True)], [H("b"), H("c")]],
    "no-code-object": [[H("a", code=False)], [H("b")]],
    "two-codes-above": [[H("a", dep=True), H("b", dep=True)], [H("c")], [H("d")]],
    "nothing-applicable": [],
}


class Outcome:
    pass


def execute(ctx, res, scenario, prefill_head=False):
    """-> Outcome(table, errors, wraps, raised)"""
    repo = ctx.repo
    cls = res.cls
    rv = recv_name(res)
    params = [p for p in res.params if p != rv]
    if len(params) != 1:
        raise AnalysisError(f"{res.key}: expected one parameter (the key)")
    tup = ("T1", "T2")
    handlers = {}
    ranks = []
    for rank in scenario:
        group = []
        for name, dep, code in rank:
            h = Handler(name=name, dep=dep)
            if code:
                h.__code__ = Code(name=name)
            handlers[name] = h
            group.append(Record(handler=h, name=name))
        ranks.append(group)
    wraps = []
    errors_made = []

    def wrap(*a, **k):
        w = Record(kind="wrapper", args=a, kwargs=k)
        w.__name__ = "wrapper"
        wraps.append(w)
        return w

    def key_error(key, group=None, *rest):
        e = Record(kind="error", key=key, group=group)
        errors_made.append(e)
        return e

    me = Table(errors={}, dependent={h: h.dep for h in handlers.values()}, all={}, name="tbl")
    if prefill_head:
        # as if another thread, resolving the same key, had already stored the entry of the bare key
        dict.__setitem__(me, tup, Handler(name="<stored by another thread>", dep=False))
    # stubs by role: the ranking is the method of the class that sorts; the wrapper is the method calling the generator
    from .. import anchors as A
    from .c10 import _wrap_site

    _, _, w = _wrap_site(ctx)
    rankers = [m for m in cls.methods.values() if m is not res and any(isinstance(c, ast.Call) and ((isinstance(c.func, ast.Attribute) and c.func.attr == "sort") or (isinstance(c.func, ast.Name) and c.func.id == "sorted")) for c in ast.walk(m.node))]
    called = set()
    todo_, seen_ = [res], set()
    while todo_:
        cur_ = todo_.pop()
        if cur_.key in seen_:
            continue
        seen_.add(cur_.key)
        r_ = recv_name(cur_)
        for c in ast.walk(cur_.node):
            if isinstance(c, ast.Call) and isinstance(c.func, ast.Attribute) and isinstance(c.func.value, ast.Name) and c.func.value.id == r_:
                called.add(c.func.attr)
                if c.func.attr in cls.methods:
                    todo_.append(cls.methods[c.func.attr])
    rankers = [m for m in rankers if m.name in called]
    if len(rankers) != 1:
        raise AnalysisError(f"{cls.key}: candidate ranking method not found")
    setattr(me, rankers[0].name, HostFn(lambda key: [list(g) for g in ranks]))
    setattr(me, w.name, HostFn(wrap))
    # the error factory: an attribute of the table assigned from a constructor parameter and called with (key, group)
    init = cls.methods.get("__init__")
    factories = set()
    for m in cls.methods.values():
        r = recv_name(m)
        for c in ast.walk(m.node):
            if isinstance(c, ast.Call) and isinstance(c.func, ast.Attribute) and isinstance(c.func.value, ast.Name) and c.func.value.id == r and len(c.args) == 2 and c.func.attr not in cls.methods:
                factories.add(c.func.attr)
    if not factories:
        raise AnalysisError(f"{cls.key}: error factory attribute not found")
    for f in factories:
        setattr(me, f, HostFn(key_error))
    genv = {}
    # record-like classes of the module (NamedTuple / dataclass carriers a refactoring may introduce)
    for c in res.module.classes.values():
        fields = [st.target.id for st in c.node.body if isinstance(st, ast.AnnAssign) and isinstance(st.target, ast.Name)]
        is_record = any(b in ("NamedTuple", "typing.NamedTuple") for b in c.base_names) or any("dataclass" in (ast.unparse(d)) for d in c.node.decorator_list)
        if fields and is_record and not c.methods.get("__init__"):
            genv[c.name] = collections.namedtuple(c.name, fields)
    methods = {n: m.node for n, m in cls.methods.items() if m is not rankers[0] and m is not w}
    funcs = {n: f.node for n, f in res.module.funcs.items() if f.parent is None and f.cls is None}
    hi = HostInterp(methods, me, {}, globals_env=genv, classes={}, functions=funcs)
    hi.host_types = hi.host_types + (Table,)
    # attributes the constructor sets (a change may add some): run it on a scratch object and copy what we do not stub
    if init is not None:
        scratch = Table()
        try:
            ginit = dict(genv, count=lambda *a: Record(kind="counter"), MISSING="<MISSING>", KeyError=Record(kind="KeyError"))
            HostInterp(methods, scratch, {}, globals_env=ginit, classes={}, functions=funcs).call_function(init.node, [scratch] + ["<arg>"] * (len(init.params) - 1), {}, {})
            for k, v in scratch.__dict__.items():
                if k not in me.__dict__:
                    setattr(me, k, v)
        except (AnalysisError, Raised):
            pass
    out = Outcome()
    out.raised = None
    try:
        out.returned = hi.call_function(res.node, [me, tup], {}, {})
    except Raised as r:
        out.raised = getattr(r, "value", None) or r.what
    out.table = dict(me)
    out.errors = dict(me.errors)
    out.wraps = wraps
    out.tup = tup
    out.handlers = handlers
    out.ranks = ranks
    out.errors_made = errors_made
    return out


def reference(out, scenario):
    """-> (table spec, errors spec) with symbolic values: handler name / ('wrap', names) / ('err', names)"""
    tup = out.tup

    def fn_of(rank):
        names = [n for n, _, _ in rank]
        if any(d for _, d, _ in rank):
            return ("wrap", tuple(names))
        if len(rank) == 1:
            return names[0]
        return None

    table, errors = {}, {}
    parents = None
    for i, rank in enumerate(scenario):
        keys = [tup] if parents is None else [(p, *tup) for p in parents]
        f = fn_of(rank)
        names = tuple(n for n, _, _ in rank)
        if f is None:
            for k in keys:
                errors[k] = ("err", names)
            break
        for k in keys:
            table[k] = f
        parents = [("code", n) for n, _, c in rank if c]
        if not parents:
            break
    return table, errors


def _sym(out, v):
    if isinstance(v, Handler):
        return v.name
    if isinstance(v, Record) and getattr(v, "kind", "") == "wrapper":
        hs = [a for a in v.args if isinstance(a, list) and a and all(isinstance(x, Handler) for x in a)]
        return ("wrap", tuple(h.name for h in hs[0])) if hs else ("wrap", "?")
    if isinstance(v, Record) and getattr(v, "kind", "") == "error":
        g = v.group
        return ("err", tuple(c.name for c in g)) if isinstance(g, list) else ("err", "no-method" if g == () else "?")
    return repr(v)


def _symkey(k):
    if isinstance(k, tuple) and k and isinstance(k[0], Code):
        return (("code", k[0].name), *k[1:])
    return k


def check(ctx, res, name, prefill_head=False):
    scenario = SCENARIOS[name]
    out = execute(ctx, res, scenario, prefill_head=prefill_head)
    problems = {"entries": [], "errors": [], "wrap-next": [], "no-method": [], "wrap-whole-rank": []}
    if not scenario:
        ok = isinstance(out.raised, Record) and getattr(out.raised, "kind", "") == "error" and out.raised.group == ()
        if not ok:
            problems["no-method"].append(f"with no applicable method the resolution {'raises ' + str(_sym(out, out.raised)) if out.raised is not None else 'returns normally'} instead of raising the 'no method' error")
        return problems
    if out.raised is not None:
        for k in problems:
            problems[k].append(f"the resolution raises {_sym(out, out.raised)} although methods are applicable")
        return problems
    want_t, want_e = reference(out, scenario)
    got_t = {_symkey(k): _sym(out, v) for k, v in out.table.items()}
    got_e = {_symkey(k): _sym(out, v) for k, v in out.errors.items()}
    for k in sorted(set(want_t) | set(got_t), key=str):
        if want_t.get(k) != got_t.get(k):
            problems["entries"].append(f"key {k}: stored {got_t.get(k, 'nothing')}, expected {want_t.get(k, 'nothing')}")
    for k in sorted(set(want_e) | set(got_e), key=str):
        if want_e.get(k) != got_e.get(k):
            problems["errors"].append(f"key {k}: error filed {got_e.get(k, 'none')}, expected {want_e.get(k, 'none')}")
    # every wrapper receives the rank below
    for w in out.wraps:
        hs = [a for a in w.args if isinstance(a, list) and a and all(isinstance(x, Handler) for x in a)]
        if not hs:
            problems["wrap-whole-rank"].append("a wrapper is not given the list of the rank's methods")
            continue
        names = [h.name for h in hs[0]]
        idx = next((i for i, r in enumerate(scenario) if [n for n, _, _ in r] == names), None)
        if idx is None:
            problems["wrap-whole-rank"].append(f"a wrapper is built over {names}, which is not a whole rank")
            continue
        nxt = [a for a in list(w.args) + list(w.kwargs.values()) if a is None or (isinstance(a, tuple) and len(a) == 2)]
        nxt = [a for a in nxt if a is None or not (a and isinstance(a[0], str))]
        below = scenario[idx + 1] if idx + 1 < len(scenario) else None
        given = None
        for a in nxt:
            if a is not None:
                given = a
        if below is None:
            if given is not None:
                problems["wrap-next"].append(f"the wrapper of the last rank {names} is given a rank below")
        else:
            want_fn = None
            bnames = [n for n, _, _ in below]
            if any(d for _, d, _ in below):
                want_fn = ("wrap", tuple(bnames))
            elif len(below) == 1:
                want_fn = bnames[0]
            if given is None:
                problems["wrap-next"].append(f"the wrapper of rank {names} is not given the rank below ({bnames}): a false condition ends in 'no method' instead of continuing")
            else:
                got_fn = _sym(out, given[0]) if given[0] is not None else None
                if got_fn != want_fn:
                    problems["wrap-next"].append(f"the wrapper of rank {names} falls through to {got_fn}, the rank below is {want_fn}")
    return problems


LAW_TEXT = {
    "entries": ("the bare key maps to the first rank's function, and each code object of a rank, in front of the key, maps to the function of the rank below", "call_next continues with the wrong method, or a lookup finds what another situation left"),
    "errors": ("a tied rank files its ambiguity error under the key(s) its function would have been stored under, and ends the chain", "an ambiguous call (or call_next into a tied rank) is answered by a method or by 'no method'"),
    "wrap-next": ("a value-checking wrapper is given the function of the rank below to fall through to", "a false condition does not continue as if the method were absent"),
    "wrap-whole-rank": ("a rank with any value-dependent method is wrapped as a whole", "a static method tied with a dependent one is lost or reported ambiguous although the condition decides"),
    "no-method": ("without applicable methods the 'no method' error is raised", "a call nothing applies to returns or stores something"),
}


def law(ctx, *names, scenarios=None):
    from .c10 import resolution_entry

    res = resolution_entry(ctx)
    ctx.touch(res)
    cache = ctx.cache.setdefault("resolve_checked", {})
    for sc in scenarios or SCENARIOS:
        if sc not in cache:
            cache[sc] = check(ctx, res, sc)
        probs = cache[sc]
        for name in names:
            if name == "no-method" and SCENARIOS[sc]:
                continue
            if name != "no-method" and not SCENARIOS[sc]:
                continue
            text, why = LAW_TEXT[name]
            ps = probs[name]
            ctx.ob(f"{res.key}:{name}:{sc}", res.loc(), f"[{sc}] {text} (stores obtained by abstractly executing the resolution)", not ps, "; ".join(ps[:3]) + ": " + why)


def with_fallback(ctx, laws, fallback, scenarios=None):
    n0 = len(ctx.obs)
    try:
        law(ctx, *laws, scenarios=scenarios)
    except AnalysisError as e:
        del ctx.obs[n0:]
        from .common import run_fallback

        run_fallback(ctx, fallback, e, "resolution")


def law_prefilled(ctx):
    """The same laws with the bare key's entry already present (what a concurrent resolution of the same key leaves
    behind between its stores): the chain below must still be installed."""
    from .c10 import resolution_entry

    res = resolution_entry(ctx)
    ctx.touch(res)
    for sc in ("chain-of-three", "tie-below", "dependent-rank-below"):
        probs = check(ctx, res, sc, prefill_head=True)
        ps = probs["entries"] + probs["errors"]
        ctx.ob(f"{res.key}:complete-when-head-present:{sc}", res.loc(), f"[{sc}] with the bare key's entry already present the resolution still stores every continuation entry (interpreted)", not ps, "; ".join(ps[:3]) + ": a thread that missed the key and finds it filled by another thread returns without its call_next entries; its method's call_next answers 'no method'")
