"""C15 - equivalent spellings of an annotation dispatch identically."""

import ast

from .. import anchors as A
from ..cfg import all_stmts
from ..model import AnalysisError, call_name, dotted, is_self_attr, short, src
from .c14 import flatten_chain, normaliser_chain
from .common import cfg_of, recv_name


def _self_call_on(call, rv, what):
    """call is self(<what>, fn)"""
    return isinstance(call, ast.Call) and isinstance(call.func, ast.Name) and call.func.id == rv and call.args and src(call.args[0]) == what


def r1_union_spellings_one_path(ctx):
    """Every spelling of an annotation has one normal form: decided by interpreting the normaliser on the spellings
    (r10); the reading of the statement shapes below is the fallback when the normaliser cannot be interpreted."""
    from .common import run_fallback

    n0 = len(ctx.obs)
    try:
        r10_spellings_normalise_identically(ctx)
    except AnalysisError as e:
        del ctx.obs[n0:]
        run_fallback(ctx, _r1_union_spellings_shape, e, "normaliser")


def _r1_union_spellings_shape(ctx):
    repo = ctx.repo
    nz, call, t, chain = normaliser_chain(ctx)
    rv = recv_name(call)
    ctx.touch(call)
    # (a) the A | B spelling
    hit = None
    for test, body, node in chain:
        if test is not None and any(isinstance(x, ast.Call) and call_name(x) == "isinstance" and dotted(x.args[1]) == "UnionType" for x in ast.walk(test)):
            hit = (body, node)
    ok = False
    if hit:
        rets = [s for s in hit[0] if isinstance(s, ast.Return)]
        ok = len(rets) == 1 and _self_call_on(rets[0].value, rv, f"{t}.__args__")
    ctx.ob(f"{call.key}:pipe-union", call.loc(hit[1]) if hit else call.loc(), "`A | B` is normalised by handing its whole member tuple to the tuple branch", ok, "`A | B` is not normalised through the tuple branch with all its members: it dispatches differently from typing.Union[A, B] / (A, B)")
    # (b) typing.Union handler
    hs = [(f, g) for f, g in A.generic_handlers(repo) if dotted(g) in ("typing.Union", "Union")]
    ctx.require(hs, "no generic handler registered for typing.Union")
    for f, g in hs:
        ctx.touch(f)
        p = f.params
        rets = [s for s in ast.walk(f.node) if isinstance(s, ast.Return) and s.value is not None]
        ok = len(rets) == 1 and _self_call_on(rets[0].value, p[0], f"{p[1]}.__args__")
        ctx.ob(f"{f.key}:typing-union", f.loc(), "typing.Union[A, B] (and Optional[A]) is normalised by handing its whole member tuple to the tuple branch", ok, "typing.Union[...] is not normalised through the tuple branch with all its members")
    # (c) the tuple branch maps every member and builds the union type
    hit = None
    for test, body, node in chain:
        if test is not None and isinstance(test, ast.Call) and call_name(test) == "isinstance" and dotted(test.args[0]) == t and dotted(test.args[1]) == "tuple":
            hit = (body, node)
    ok = False
    if hit:
        rets = [s for s in hit[0] if isinstance(s, ast.Return)]
        if len(rets) == 1 and isinstance(rets[0].value, ast.Subscript) and dotted(rets[0].value.value) == "Union":
            comps = [x for x in ast.walk(rets[0].value.slice) if isinstance(x, (ast.GeneratorExp, ast.ListComp))]
            if len(comps) == 1:
                g = comps[0].generators[0]
                ok = dotted(g.iter) == t and not g.ifs and _self_call_on(comps[0].elt, rv, dotted(g.target))
    ctx.ob(f"{call.key}:tuple-branch", call.loc(hit[1]) if hit else call.loc(), "a tuple of types becomes the union of every normalised member", ok, "the tuple branch does not normalise every member into the union: some arm of the union never matches")


def r2_normaliser_front(ctx):
    nz, call, t, chain = normaliser_chain(ctx)
    rv = recv_name(call)
    ctx.touch(call)
    cfg = cfg_of(ctx, call)
    # strings are evaluated first
    first = None
    for st in call.node.body:
        if isinstance(st, ast.If) and isinstance(st.test, ast.Call) and call_name(st.test) == "isinstance" and dotted(st.test.args[0]) == t and dotted(st.test.args[1]) == "str":
            first = st
    ok = False
    if first is not None:
        asg = [s for s in first.body if isinstance(s, ast.Assign) and dotted(s.targets[0]) == t and isinstance(s.value, ast.Call) and call_name(s.value) == "eval" and dotted(s.value.args[0]) == t]
        others = [st for st in call.node.body if isinstance(st, ast.If) and st is not first]
        # ... and the evaluated result then goes through the same cases as any other annotation
        ok = bool(asg) and bool(others) and all(first.lineno < o.lineno for o in others) and not first.orelse
    ctx.ob(f"{call.key}:string-first", call.loc(first) if first else call.loc(), "a string annotation is evaluated (in the function's globals) before any other case is considered", ok, "string annotations are not evaluated first and then normalised like any other annotation (the special cases hang off the string test's else): 'Any' or 'Annotated[...]' written as a string is not normalised")
    # Annotated unwrapped
    hit = None
    for test, body, node in chain:
        if test is not None and isinstance(test, ast.Call) and call_name(test) == "isinstance" and "Annotated" in src(test.args[1]):
            hit = (body, node)
    ok = False
    if hit:
        ok = any(isinstance(s, ast.Assign) and dotted(s.targets[0]) == t and src(s.value) == f"{t}.__origin__" for s in hit[0])
    ctx.ob(f"{call.key}:annotated", call.loc(hit[1]) if hit else call.loc(), "Annotated[A, ...] is unwrapped to A", ok, "Annotated[A, ...] is no longer unwrapped: it dispatches differently from A")


def _handler_by_interpretation(ctx, f, values=False, bindings=None):
    """Interpret a generic handler `handler(normaliser, t, fn)` on t.__args__ = (a0, a1, a2): the value type it builds
    is subscripted with every argument exactly once, in order - all normalised, or all raw."""
    from ..metainterp import HostFn, HostInterp, Raised, Record

    class Sub:
        def __init__(self, name):
            self.name = name

        def __getitem__(self, item):
            return ("T", self.name, item)

    # two of the arguments are real classes: a handler must not treat them differently from other type expressions
    args = (int, "a1", bool)
    genv = {}
    for x in ast.walk(f.node):
        if isinstance(x, ast.Subscript) and isinstance(x.value, ast.Name) and isinstance(x.ctx, ast.Load) and x.value.id not in f.params:
            r = ctx.repo.resolve_name(f.module, x.value.id)
            if r:  # a class, or a value type made by a decorator from a function
                genv[x.value.id] = Sub(x.value.id)
    cenv = {}
    for name, expr in (bindings or {}).items():
        # a handler made by a factory: its closure variable holds the value type the factory was given
        if isinstance(expr, ast.Name) and ctx.repo.resolve_name(f.module, expr.id):
            cenv[name] = Sub(expr.id)
    if not genv and not cenv:
        return None
    funcs = {n: g.node for n, g in f.module.funcs.items() if g.parent is None and g.cls is None and g is not f and not g.node.decorator_list}
    hi = HostInterp({}, Record(), {}, globals_env=genv, classes={}, functions=funcs)
    hi.host_types = hi.host_types + (Sub,)
    norm = HostFn(lambda a, fn=None: ("N", a))
    try:
        got = hi.call_function(f.node, [norm, Record(__args__=args, __origin__="G"), "<fn>"], {}, cenv)
    except (AnalysisError, Raised) as e:
        ctx.note(f"{f.key} not interpretable ({e}); shape rule used instead")
        return None
    if not (isinstance(got, tuple) and got and got[0] == "T"):
        return False, f"returns {got!r} instead of a value type subscripted with the arguments"
    flat = []

    def walk(x):
        if isinstance(x, tuple) and x[:1] == ("N",) and len(x) == 2:
            flat.append(x)
        elif isinstance(x, (tuple, list)):
            for y in x:
                walk(y)
        else:
            flat.append(x)

    walk(got[2])
    if values and flat == list(args):
        return True, ""  # the arguments of Literal[...] are values, handed on as they are
    if not values and flat == [("N", a) for a in args]:
        return True, ""
    raw = [a for a in flat if not (isinstance(a, tuple) and a[:1] == ("N",))]
    return False, f"subscripts the value type with {got[2]!r} for the arguments {args}" + (f" ({raw} not normalised: a string, an alias or a bare `type` / `Any` among the arguments is not converted)" if raw and not values else "")


def r3_generic_handlers_use_every_argument(ctx):
    repo = ctx.repo
    hs = [(f, g) for f, g in A.generic_handlers(repo) if dotted(g) not in ("typing.Union", "Union")]
    ctx.require(len(hs) >= 5, f"expected the Literal / tuple / Sequence / Collection / Mapping / Callable handlers, found {len(hs)}")
    shapes = {}
    _bind = {(r[0].key, dotted(r[1])): getattr(r, "bindings", None) for r in A.generic_handlers(repo)}
    for f, g in hs:
        ctx.touch(f)
        nz, t = f.params[0], f.params[1]
        gname = dotted(g)
        verdict = _handler_by_interpretation(ctx, f, values=gname in ("typing.Literal", "Literal"), bindings=_bind.get((f.key, gname)))
        if verdict is not None:
            ok_i, detail_i = verdict
            ctx.ob(
                f"{f.key}:{gname}:all-arguments",
                f.loc(),
                f"the handler for {gname}[...] passes every type argument on, each once, in order, normalised (raw for the values of Literal) (interpreted on three arguments)",
                ok_i,
                f"the handler for {gname}[...] {detail_i}: {gname}[A, B] is treated like another type",
            )
            continue
        rets = [s for s in ast.walk(f.node) if isinstance(s, ast.Return) and s.value is not None]
        ctx.require(len(rets) == 1 and isinstance(rets[0].value, ast.Subscript), f"{f.key}: handler does not return <ValueType>[...]")
        sl = rets[0].value.slice
        # names bound from t.__args__
        whole_names = set()
        parts = {}
        for s in all_stmts(f.node):
            if isinstance(s, ast.Assign) and src(s.value) == f"{t}.__args__":
                tg = s.targets[0]
                if isinstance(tg, ast.Name):
                    whole_names.add(tg.id)
                elif isinstance(tg, (ast.Tuple, ast.List)):
                    for e in tg.elts:
                        parts[dotted(e.value) if isinstance(e, ast.Starred) else dotted(e)] = "star" if isinstance(e, ast.Starred) else "one"
        mapped = {}
        for s in all_stmts(f.node):
            if isinstance(s, ast.Assign) and isinstance(s.targets[0], ast.Name):
                comps = [x for x in ast.walk(s.value) if isinstance(x, (ast.GeneratorExp, ast.ListComp))]
                if len(comps) == 1:
                    gcomp = comps[0].generators[0]
                    itsrc = src(gcomp.iter)
                    full = itsrc == f"{t}.__args__" or itsrc in whole_names or parts.get(itsrc) == "star"
                    each = _self_call_on(comps[0].elt, nz, dotted(gcomp.target)) and not gcomp.ifs
                    mapped[s.targets[0].id] = full and each
        uses = {x.id for x in ast.walk(sl) if isinstance(x, ast.Name)}
        literal_all = src(sl) == f"{t}.__args__"
        if literal_all:
            ok = True
            shape = "all raw arguments (values)"
        else:
            singles = [k for k, v in parts.items() if v == "one"]
            singles_ok = all(any(_self_call_on(c, nz, k) for c in ast.walk(sl)) for k in singles)
            used_maps = [u for u in uses if u in mapped]
            ok = bool(used_maps) and all(mapped[u] for u in used_maps) and singles_ok and not any(isinstance(x, ast.Subscript) and src(x.value) in used_maps for x in ast.walk(sl))
            shape = "every argument normalised"
        shapes[f.key] = (gname, ok)
        ctx.ob(
            f"{f.key}:{gname}:all-arguments",
            f.loc(),
            f"the handler for {gname}[...] passes every type argument on ({shape})",
            ok,
            f"the handler for {gname}[...] drops or skips some of `{t}.__args__` (`{short(rets[0], 50)}`): {gname}[A, B] is treated like {gname}[A]",
        )


ORDER_FREE = ("Union", "Intersection")


def _compares_unordered(m):
    """Does the __eq__/__hash__ body wrap the compared collections in set/frozenset/sorted?"""
    for r in ast.walk(m.node):
        if isinstance(r, ast.Return) and r.value is not None:
            attrs = [x for x in ast.walk(r.value) if isinstance(x, ast.Attribute) and x.attr in ("__args__", "types", "parameters")]
            if not attrs:
                continue
            wrapped = 0
            for c in ast.walk(r.value):
                if isinstance(c, ast.Call) and call_name(c) in ("set", "frozenset", "sorted") and any(a in list(ast.walk(c)) for a in attrs):
                    wrapped += sum(1 for a in attrs if a in list(ast.walk(c)))
            return wrapped >= len(attrs)
    return None


MEMBER_ATTRS = ("parameters", "__args__", "types", "args", "members")


def _order_free_by_interpretation(ctx, cls, m):
    """Interpret __eq__ / __hash__ on two objects whose members are the same in another order (and on two with
    different members).  -> True / False, or None if not interpretable."""
    from ..metainterp import HostInterp, Instance, Raised

    from .more import _attrs_read

    methods = {n: mm.node for cc in reversed(ctx.repo.class_mro(cls)) for n, mm in cc.methods.items()}
    attrs = _attrs_read(m)
    if not attrs or not (attrs & set(MEMBER_ATTRS)):
        return None

    def mk(members):
        o = Instance(cls.name, methods)
        for a in attrs:
            if a in MEMBER_ATTRS:
                o.__dict__[a] = tuple(members)
            elif a == "bound":
                o.__dict__[a] = "BOUND"
            elif a == "parameter":
                o.__dict__[a] = members[0]
            else:
                return None
        return o

    a, b, c = mk(("v1", "v2")), mk(("v2", "v1")), mk(("v1", "v3"))
    if a is None:
        return None
    hi = HostInterp({}, a, {}, globals_env={}, classes={cls.name: methods}, functions={})
    try:
        if m.name == "__eq__":
            same = hi.call_function(m.node, [a, b], {}, {})
            diff = hi.call_function(m.node, [a, c], {}, {})
            if diff is True or (diff and diff is not NotImplemented):
                return None  # the method does not look at the members at all: not what this rule is about
            return bool(same) and same is not NotImplemented
        ha, hb = hi.call_function(m.node, [a], {}, {}), hi.call_function(m.node, [b], {}, {})
        return ha == hb
    except (AnalysisError, Raised):
        return None


def _unordered(ctx, cls, m):
    r = _order_free_by_interpretation(ctx, cls, m)
    if r is None:
        return bool(_compares_unordered(m))
    return r


def r4_commutative_combinators(ctx):
    repo = ctx.repo
    n = 0
    for c in repo.all_classes():
        if c.name in ORDER_FREE and "__eq__" in c.methods and "__hash__" in c.methods:
            for mname in ("__eq__", "__hash__"):
                m = c.methods[mname]
                ctx.touch(m)
                r = _unordered(ctx, c, m)
                n += 1
                ctx.ob(
                    f"{m.key}:{'unordered' if r else 'ordered'}",
                    m.loc(),
                    f"{c.name}.{mname} does not depend on the order of the members",
                    bool(r),
                    f"{c.name}.{mname} compares the ordered member tuple: {c.name}[A, B] and {c.name}[B, A] are different signatures, so the reordered spelling is a second method instead of the same one",
                )
    ctx.require(n >= 4, "expected __eq__/__hash__ of the union and the intersection")
    # the literal type: equality over its values
    from .c11 import param_types

    base, subs = param_types(ctx)
    lits = [c for c in subs if "get_keys" in c.methods or getattr(c.class_attrs().get("keyable_type"), "value", False) is True]
    ctx.require(lits, "the literal value type was not found")
    for c in lits:
        for mname in ("__eq__", "__hash__"):
            m = repo.find_method(c, mname)
            ctx.require(m is not None, f"{c.key}: no {mname}")
            ctx.touch(m)
            r = _unordered(ctx, c, m)
            own = m.cls is c
            ctx.ob(
                f"{c.key}.{mname}:{'unordered' if r else 'ordered'}",
                m.loc(),
                f"equality / hash of {c.name} (the Literal value type) does not depend on the order of the values",
                bool(r),
                f"{c.name} {'inherits' if not own else 'defines'} {m.cls.name}.{mname}, which compares the ordered value tuple: Literal[1, 2] and Literal[2, 1] are different signatures",
            )
        db = c.methods.get("default_bound")
        if db is not None:
            from .c11 import _footprint

            a, f, g = _footprint(db)
            ctx.touch(db)
            ctx.ob(
                f"{db.key}:{'first-only' if f and not g else 'order-free'}",
                db.loc(),
                f"the bound of {c.name} does not depend on which value is written first",
                not (f and not g),
                f"{c.name}.default_bound is the type of the first value: Literal[1, 'a'] is bounded by int and Literal['a', 1] by str, so the same values in another order match different arguments",
            )


def r5(ctx):
    from .c11 import r1_sibling_footprints

    r1_sibling_footprints(ctx)


def _more(name):
    def run(ctx):
        from . import more

        getattr(more, name)(ctx)

    run.__name__ = name
    return run



def string_annotation_is_evaluated_each_time(ctx):
    """C04: what a string annotation means is worked out in the globals of the function that carries it on every
    normalisation - the same text in another function is another type, whatever was normalised before (the signature
    of a callable argument is normalised on every call that tests it)."""
    r10_spellings_normalise_identically(ctx, only="string-context")


def union_members_are_normalised(ctx):
    """C13: the members of a union, however the union is spelled, are normalised like a parameter's whole annotation
    (bare `type`, `Any`, `None`, a string): a member left raw matches nothing, so the method is skipped for values of
    that arm while the other arms still match."""
    r10_spellings_normalise_identically(ctx, only="union-members")


def _normaliser_instance_names(repo):
    """module-level names bound to an instance of the normaliser class, with the modules that see them"""
    nz = A.normalizer(repo)
    names = set()
    for st in nz.module.tree.body:
        if isinstance(st, ast.Assign) and isinstance(st.value, ast.Call) and call_name(st.value) == nz.name:
            names |= {t.id for t in st.targets if isinstance(t, ast.Name)}
    return names


def r12_annotations_mean_what_they_mean_where_they_are_written(ctx):
    """Every call of the normaliser on an annotation read from a function's signature hands over, as the context in
    which a string annotation is evaluated, that same function: the annotation's source `inspect.signature(E)` and the
    context argument are the same expression (locals assigned once are substituted, a conditional source is followed
    into the branch the call is in)."""
    from ..model import parent_map
    from .common import path_atoms  # noqa: F401

    repo = ctx.repo
    names = _normaliser_instance_names(repo)
    ctx.require(names, "no module-level instance of the normaliser")
    nz = A.normalizer(repo)

    def defs_of(fnode, name):
        out = []
        for n in ast.walk(fnode):
            if isinstance(n, ast.Assign):
                for t in n.targets:
                    if any(isinstance(x, ast.Name) and x.id == name for x in ast.walk(t)):
                        out.append(n.value)
            elif isinstance(n, (ast.For, ast.comprehension)):
                if any(isinstance(x, ast.Name) and x.id == name for x in ast.walk(n.target)):
                    out.append(n.iter)
            elif isinstance(n, ast.NamedExpr) and n.target.id == name:
                out.append(n.value)
        return out

    def resolved(fnode, e, depth=0):
        """e with locals that are assigned exactly once (plain `x = <expr>`) substituted"""
        if depth > 4:
            return e

        class Sub(ast.NodeTransformer):
            def visit_Name(self, n):
                if isinstance(n.ctx, ast.Load):
                    ds = [a for a in ast.walk(fnode) if isinstance(a, ast.Assign) and len(a.targets) == 1 and isinstance(a.targets[0], ast.Name) and a.targets[0].id == n.id]
                    stores = [x for x in ast.walk(fnode) if isinstance(x, ast.Name) and x.id == n.id and isinstance(x.ctx, ast.Store)]
                    if len(ds) == 1 and len(stores) == 1:
                        return resolved(fnode, ds[0].value, depth + 1)
                return n

        import copy

        return Sub().visit(copy.deepcopy(e))

    n_sites = 0
    for f in repo.all_funcs():
        if f.cls is nz:
            continue
        for c in ast.walk(f.node):
            if not (isinstance(c, ast.Call) and isinstance(c.func, ast.Name) and c.func.id in names):
                continue
            # owned by the innermost function only
            if any(c in list(ast.walk(g.node)) for g in repo.all_funcs() if g is not f and g.parent is f):
                continue
            args = list(c.args) + [k.value for k in c.keywords]
            if len(args) < 2:
                continue
            first, context = args[0], args[1]
            # the functions whose signature / annotations the first argument is read from
            sources = []
            seen = set()
            work = [first]
            pm0 = parent_map(f.node)

            def reaching(name):
                """the definitions of `name` that can reach the call: the last one in a block that encloses the call,
                and whatever comes after it (an earlier branch that returned does not reach)"""
                chain = set()
                cur = c
                while cur in pm0:
                    cur = pm0[cur]
                    chain.add(id(cur))
                defs = []
                for n_ in ast.walk(f.node):
                    val = None
                    if isinstance(n_, ast.Assign) and any(isinstance(x, ast.Name) and x.id == name for t_ in n_.targets for x in ast.walk(t_)):
                        val = n_.value
                    elif isinstance(n_, ast.For) and any(isinstance(x, ast.Name) and x.id == name for x in ast.walk(n_.target)):
                        val = n_.iter
                    elif isinstance(n_, ast.comprehension) and any(isinstance(x, ast.Name) and x.id == name for x in ast.walk(n_.target)):
                        val = n_.iter
                    elif isinstance(n_, ast.NamedExpr) and n_.target.id == name:
                        val = n_.value
                    if val is None:
                        continue
                    ln = getattr(n_, "lineno", getattr(val, "lineno", 0))
                    if ln > c.lineno:
                        continue
                    dominating = isinstance(n_, ast.stmt) and id(pm0.get(n_)) in chain and not isinstance(n_, ast.For)
                    defs.append((ln, dominating, val))
                defs.sort(key=lambda d: d[0])
                last = max((i for i, d in enumerate(defs) if d[1]), default=None)
                return [d[2] for d in (defs if last is None else defs[last:])]

            while work:
                e = work.pop()
                for x in ast.walk(e):
                    if isinstance(x, ast.Call) and (call_name(x) or "").split(".")[-1] in ("signature", "get_annotations", "get_type_hints") and x.args:
                        sources.append(x.args[0])
                    elif isinstance(x, ast.Attribute) and x.attr == "__annotations__":
                        sources.append(x.value)
                    elif isinstance(x, ast.Name) and isinstance(x.ctx, ast.Load) and x.id not in seen:
                        seen.add(x.id)
                        work += reaching(x.id)
            if not sources:
                continue
            n_sites += 1
            ctx.touch(f)
            pm = parent_map(f.node)
            # tests of the `if` statements the call is in, with the branch it is in
            branches = {}
            cur = c
            while cur in pm:
                p_ = pm[cur]
                if isinstance(p_, ast.If) and cur is not p_.test:
                    branches[ast.unparse(resolved(f.node, p_.test))] = any(cur is s_ for s_ in p_.body)
                cur = p_

            def pick(e):
                e = resolved(f.node, e)
                while isinstance(e, ast.IfExp) and ast.unparse(e.test) in branches:
                    e = e.body if branches[ast.unparse(e.test)] else e.orelse
                return ast.unparse(e)

            want = sorted({pick(e) for e in sources})
            got = pick(context)
            ctx.ob(
                f"{f.key}:annotation-context:{short(first, 40)}",
                f.loc(c),
                f"`{short(c, 70)}`: the annotation is read from `{' / '.join(want)}` and normalised in the context of that same function (a string annotation is evaluated in the globals of the function that carries it)",
                want == [got],
                f"the annotation comes from `{' / '.join(want)}` but is normalised in the context of `{got}`: a string annotation there is evaluated in another namespace (or none), so the string and the type it names no longer behave alike",
            )
    ctx.require(n_sites >= 3, f"expected the normaliser to be called on signature annotations in at least three places (found {n_sites})")


RULES = [
    ("C15.R5", "P1", r5, "every value of a Literal counts on every code path (sibling footprints)"),
    ("C15.R1", "P1", r1_union_spellings_one_path, "every spelling of an annotation has the same normal form (normaliser interpreted; statement shapes as fallback)"),
    ("C15.R2", "P1", r2_normaliser_front, "strings first, Annotated unwrapped"),
    ("C15.R16", "P1", r12_annotations_mean_what_they_mean_where_they_are_written, "an annotation read from a signature is normalised in the context of the function it was read from"),
    ("C15.R3", "P1", r3_generic_handlers_use_every_argument, "generic handlers use every argument"),
    ("C15.R4", "P1", r4_commutative_combinators, "commutative combinators compare without order"),
    ("C15.R6", "P1", _more("hash_reads_what_eq_compares"), "hash consults only what equality compares"),
]


def r10_spellings_normalise_identically(ctx, only=None):
    """Interpret the normaliser's `__call__` on the different spellings of one annotation: every spelling of
    `int | str` (PEP 604, typing.Union, tuple, string, inside Annotated) gives the same normal form, and so does
    every spelling of "anything" and of "any class"."""
    import inspect
    import types
    import typing

    from ..metainterp import Closure, HostFn, HostInterp, Instance, Raised, Record

    repo = ctx.repo
    nz = A.normalizer(repo)
    call = nz.methods["__call__"]
    ctx.touch(call)
    methods = {n: m.node for n, m in nz.methods.items()}

    class Sub:
        def __init__(self, name):
            self.name = name

        def __getitem__(self, item):
            # (the package's Union compares its members as a set)
            return (self.name, frozenset(item) if isinstance(item, (tuple, list)) else frozenset((item,)))

    class DependentStandIn:
        pass

    union_types = tuple(t for t in (type(typing.Union[int, str]), getattr(types, "UnionType", None)) if t is not None)
    # the registered generic handlers of the package, by the generic they are registered for
    import collections.abc

    class Val:
        """a value type made by a container handler: `<Check>[args]`, later narrowed with `with_bound(origin)`"""

        def __init__(self, name, items, bound=None):
            self.name, self.items, self.bound = name, tuple(items), bound

        def with_bound(self, bound):
            return Val(self.name, self.items, bound)

        def __eq__(self, other):
            return isinstance(other, Val) and (self.name, self.items, self.bound) == (other.name, other.items, other.bound)

        __hash__ = object.__hash__

        def __repr__(self):
            return f"{self.name}[{', '.join(getattr(i, '__name__', repr(i)) for i in self.items)}]" + (f" bound to {getattr(self.bound, '__name__', self.bound)}" if self.bound is not None else "")

    class ValFactory:
        def __init__(self, name):
            self.name = name

        def __getitem__(self, item):
            return Val(self.name, item if isinstance(item, (tuple, list)) else (item,))

    class HandlerTable(dict):
        """the table of registered generic handlers: looked up by origin, along the origin's MRO like the real one"""

        def __missing__(self, origin):
            if isinstance(origin, type):
                for base, h in self.by_class:
                    if issubclass(origin, base):
                        return h
            raise KeyError(origin)

    table = HandlerTable()
    table.by_class = []
    val_env = {}
    for reg in A.generic_handlers(repo):
        f, g = reg
        closure_env = {}
        for name, expr in (getattr(reg, "bindings", None) or {}).items():
            if isinstance(expr, ast.Name):
                closure_env[name] = ValFactory(expr.id)
        if dotted(g) in ("typing.Union", "Union"):
            table[typing.Union] = {Closure(f.node, {}): 0}
        elif dotted(g) in ("Sequence", "collections.abc.Sequence", "typing.Sequence"):
            table.by_class.append((collections.abc.Sequence, {Closure(f.node, closure_env): 0}))
            for x in ast.walk(f.node):
                if isinstance(x, ast.Subscript) and isinstance(x.value, ast.Name) and isinstance(x.ctx, ast.Load) and x.value.id not in f.params and x.value.id not in closure_env:
                    val_env[x.value.id] = ValFactory(x.value.id)
    ns = {"int": int, "str": str, "typing": typing, "type": type, "Any": typing.Any, "Union": typing.Union}
    genv = {
        "typing": typing, "inspect": inspect, "types": types,
        "UnionTypes": union_types, "UnionType": getattr(types, "UnionType", None), "Union": Sub("Union"),
        "DependentType": DependentStandIn, "UsageError": Record(kind="UsageError"),
        "eval": lambda text, *a: eval(text, dict(a[0]) if a and isinstance(a[0], dict) else dict(ns)),
        "get_args": typing.get_args, "get_origin": typing.get_origin,
    }
    for k_, v_ in val_env.items():
        genv.setdefault(k_, v_)
    ns.update({"list": list, "List": typing.List})
    me = Instance(nz.name, methods)
    me.__dict__["generic_handlers"] = table
    init = nz.methods.get("__init__")
    funcs = {n: g.node for n, g in nz.module.funcs.items() if g.parent is None and g.cls is None and not g.node.decorator_list}
    hi = HostInterp(methods, me, {}, globals_env=genv, classes={}, functions=funcs)
    hi.host_types = hi.host_types + (Sub, Val, ValFactory, HandlerTable)
    fn = Record(__globals__=ns, __module__="m", __name__="f", __qualname__="f")
    if init is not None:
        ctx.touch(init)
        try:
            hi.call_function(init.node, [me, table], {}, {})
        except (AnalysisError, Raised):
            pass
        me.__dict__["generic_handlers"] = table

    def norm(t, fn=fn):
        try:
            return hi.call_function(call.node, [me, t, fn], {}, {})
        except Raised as r:
            return f"raises {r.what}"
        except (TypeError, KeyError, AttributeError) as ex:
            raise AnalysisError(f"{call.key}: not interpretable on {t!r}: {type(ex).__name__}: {ex}")

    groups = {
        "int | str": [("typing.Union[int, str]", typing.Union[int, str]), ("(int, str)", (int, str)), ("'typing.Union[int, str]'", "typing.Union[int, str]"), ("Annotated[Union[int, str], ..]", typing.Annotated[typing.Union[int, str], "m"])],
        "anything": [("typing.Any", typing.Any), ("no annotation", inspect._empty), ("'Any'", "Any"), ("object", object)],
        "any class": [("type", type), ("'type'", "type"), ("type[object]", type[object])],
        "a plain class": [("int", int), ("'int'", "int"), ("Annotated[int, ..]", typing.Annotated[int, "m"])],
        "int or None": [("typing.Optional[int]", typing.Optional[int]), ("typing.Union[int, None]", typing.Union[int, None]), ("(int, None)", (int, None)), ("(None, int)", (None, int)), ("'typing.Optional[int]'", "typing.Optional[int]")],
        "None": [("type(None)", type(None)), ("None", None), ("'None'", "None")],
        "a member that needs normalising (bare type)": [("(int, type)", (int, type)), ("typing.Union[int, type]", typing.Union[int, type]), ("(int, type[object])", (int, type[object])), ("'typing.Union[int, type]'", "typing.Union[int, type]")],
        "a member that needs normalising (Any)": [("(int, object)", (int, object)), ("typing.Union[int, typing.Any]", typing.Union[int, typing.Any]), ("(int, typing.Any)", (int, typing.Any))],
        "a list of int": [("list[int]", list[int]), ("typing.List[int]", typing.List[int]), ("'list[int]'", "list[int]"), ("'typing.List[int]'", "typing.List[int]"), ("Annotated[typing.List[int], ..]", typing.Annotated[typing.List[int], "m"])],
        "three members, each to be normalised": [("(int, str, object)", (int, str, object)), ("(int, 'str', typing.Any)", (int, "str", typing.Any)), ("typing.Union[int, str, object]", typing.Union[int, str, object])],
    }
    if hasattr(types, "UnionType"):
        groups["int | str"] += [("int | str", int | str), ("'int | str'", "int | str"), ("Annotated[int | str, ..]", typing.Annotated[int | str, "m"])]
        groups["int or None"] += [("int | None", int | None), ("'None | int'", "None | int")]
        groups["a member that needs normalising (bare type)"] += [("int | type", int | type)]
    U = lambda *members: ("Union", frozenset(members))  # noqa: E731
    expected = {
        "int | str": U(int, str),
        "anything": object,
        "any class": type[object],
        "a plain class": int,
        "int or None": U(int, type(None)),
        "None": type(None),
        "a member that needs normalising (bare type)": U(int, type[object]),
        "a member that needs normalising (Any)": U(int, object),
        "three members, each to be normalised": U(int, str, object),
    }
    seq = [v for v in val_env.values()]
    if table.by_class and len(seq) == 1:
        expected["a list of int"] = Val(seq[0].name, (int,), list)
    elif table.by_class:
        # factory-made handlers: the value type comes from the closure binding
        names_ = [ce.name for _, hd in table.by_class for cl in hd for ce in cl.env.values() if isinstance(ce, ValFactory)]
        expected["a list of int"] = Val(names_[0], (int,), list) if names_ else None
    if expected.get("a list of int") is None:
        groups.pop("a list of int")
    if hasattr(types, "UnionType"):
        groups["three members, each to be normalised"] += [("int | str | object", int | str | object), ("'object | int | str'", "object | int | str")]
    for what, spellings in groups.items():
        if only == "string-context":
            break
        if only == "union-members" and not what.startswith(("a member that needs", "three members", "int or None")):
            continue
        results = [(label, norm(t)) for label, t in spellings]
        ref = expected[what]
        diff = [(label, r) for label, r in results if r != ref or type(r) is not type(ref)]
        results = [("the normal form", ref)] + results
        ctx.ob(
            f"{call.key}:spellings:{what}",
            call.loc(),
            f"every spelling of {what} ({', '.join(l for l, _ in spellings)}) has the one normal form {ref!r} (normaliser interpreted)",
            not diff,
            (f"{diff[0][0]} normalises to {diff[0][1]!r} instead of {ref!r}: the same annotation written another way registers another signature (or one nothing matches)" if diff else ""),
        )

    if only == "union-members":
        return
    # a string annotation means what it means in the globals of the function it annotates
    ns2 = dict(ns, T=str)
    f1 = Record(__globals__=dict(ns, T=int), __module__="m", __name__="f", __qualname__="f")
    f2 = Record(__globals__=ns2, __module__="m", __name__="f", __qualname__="f")
    got = [norm("T", f1), norm("T", f2), norm("T", f1)]
    ctx.ob(
        f"{call.key}:spellings:string-in-its-own-globals",
        call.loc(),
        "a string annotation is evaluated in the globals of the function it annotates, each time (normaliser interpreted on two functions of one module whose globals differ)",
        got == [int, str, int],
        f"'T' under globals T=int, T=str, T=int normalises to {got!r}: the meaning of a string annotation is taken from another function",
    )
