"""The generated entry point, obtained by abstractly executing the entry-point generator on symbolic parameter
configurations, and the laws C03 / C14 / C17 / C19 / C20 need from it.

The generator (and the name database it uses) is interpreted by `metainterp.HostInterp`; nothing of /repo is
imported or run.  `instantiate_code` is replaced by a stub that captures the emitted source and the injected
globals.  The emitted source is parsed and compared, branch by branch, with what the property requires for that
configuration (a reference model of ten lines, `model_call`).
"""

import ast

from .. import anchors as A
from ..metainterp import HostFn, HostInterp, Instance, Raised, Record
from ..model import AnalysisError, call_name, dotted, short


class KeyFn(Record):
    def __init__(self, name):
        self.__name__ = name

    def __repr__(self):
        return f"<keyfn {self.__name__}>"


TYPE = KeyFn("type")
SUBTLER = KeyFn("subtler_type")

CONFIGS = {
    # name: (is_method, spr, spo, pr, po, kr, ko, type-valued keys)
    "plain": (False, ["ARG1"], [], [], [], [], [], set()),
    "method-mixed": (True, ["ARG1"], [], ["x"], ["y"], ["k"], ["o"], {1, "k"}),
    "strict-optional": (False, ["ARG1"], ["ARG2"], [], ["y"], [], [], {0}),
    "awkward-names": (False, [], [], ["method"], ["a", "b"], [], ["flag"], {"flag"}),
    "keywords-only": (False, [], [], [], [], ["k1", "k2"], ["o1"], {"k2"}),
    "shadowing-names": (False, [], [], ["KWARGS", "TARGS"], [], [], ["type", "subtler_type"], {"type"}),
    "strict-then-two-optionals": (False, ["ARG1"], [], [], ["a", "b"], [], ["o"], set()),
    "strict-optional-then-named-optional": (True, ["ARG1"], ["ARG2"], [], ["y"], ["k"], [], {1}),
    "two-named-optionals": (False, [], [], ["x"], ["a", "b"], [], [], set()),
}


def generate(ctx, cfg_name, ov=None, complex_override=None):
    """-> (source text, injected globals) for one configuration."""
    repo = ctx.repo
    gen = A.entry_generator(repo)
    is_method, spr, spo, pr, po, kr, ko, complex_keys = CONFIGS[cfg_name]
    if complex_override is not None:
        complex_keys = complex_override
    if ov is None:
        ov = Record(kind="function object")
    captured = {}

    def instantiate_code(symbol, code, inject=None, **kw):
        captured["symbol"] = symbol
        captured["code"] = code
        captured["inject"] = dict(inject or {})

        return HostFn(lambda ov: ("ENTRY", ov))

    arganal = Record(
        strict_positional_required=list(spr),
        strict_positional_optional=list(spo),
        positional_required=list(pr),
        positional_optional=list(po),
        keyword_required=list(kr),
        keyword_optional=list(ko),
        is_method=is_method,
        compile=lambda: None,
        lookup_for=lambda key: SUBTLER if key in complex_keys else TYPE,
    )
    mod = gen.module
    classes = {}
    # classes of the package the generator instantiates (the name database): interpreted, not stubbed
    for c in ast.walk(gen.node):
        if isinstance(c, ast.Call) and isinstance(c.func, ast.Name):
            r = repo.resolve_name(mod, c.func.id)
            if r and r[0] == "class":
                classes[c.func.id] = {n: m.node for cc in reversed(repo.class_mro(r[1])) for n, m in cc.methods.items()}
    genv = {"MISSING": "<MISSING>", "instantiate_code": instantiate_code, "count": lambda *a: __import__("itertools").count(*a)}
    for k, v in mod.str_constants.items():
        genv[k] = v
    funcs = {n: f.node for n, f in mod.funcs.items() if f.parent is None and f.cls is None and f is not gen}
    hi = HostInterp({}, Record(), {}, globals_env=genv, classes=classes, functions=funcs)
    orig_call = hi.call

    def call(e, env):
        d = dotted(e.func)
        if d and d.endswith(".lookup_for") and len(e.args) == 1:
            return arganal.lookup_for(hi.ev(e.args[0], env))
        if d and d.endswith(".compile") and not e.args:
            return None
        return orig_call(e, env)

    hi.call = call
    try:
        captured["result"] = hi.call_function(gen.node, [ov, arganal], {}, {})
    except Raised as r:
        raise AnalysisError(f"{gen.key}: the generator raises {r.what} on configuration {cfg_name}")
    if "code" not in captured:
        if ov is not None and complex_override is not None:
            return None, {"<result>": captured.get("result")}
        raise AnalysisError(f"{gen.key}: the generator did not hand any source to instantiate_code on configuration {cfg_name}")
    return captured["code"], captured["inject"]


class Entry:
    """The parsed entry point of one configuration."""

    def __init__(self, ctx, cfg_name):
        self.cfg = cfg_name
        self.code, self.inject = generate(ctx, cfg_name)
        try:
            self.tree = ast.parse(self.code)
        except SyntaxError as e:
            self.tree = None
            self.syntax_error = str(e)
            return
        self.syntax_error = None
        fns = [n for n in ast.walk(self.tree) if isinstance(n, ast.FunctionDef)]
        self.outer = fns[0] if fns else None
        inner = [n for n in ast.walk(self.outer) if isinstance(n, ast.FunctionDef) and n is not self.outer] if self.outer else []
        self.fn = inner[0] if inner else self.outer
        # names of injected key functions
        self.keyfn = {name: v.__name__ for name, v in self.inject.items() if isinstance(v, KeyFn)}


def entries(ctx):
    if "entry_points" not in ctx.cache:
        ctx.cache["entry_points"] = {name: Entry(ctx, name) for name in CONFIGS}
    return ctx.cache["entry_points"]


# ------------------------------------------------------------------------------------------------ reference model
def model_signature(cfg):
    is_method, spr, spo, pr, po, kr, ko, _ = CONFIGS[cfg]
    return {
        "self": is_method,
        "positional": [(n, n in spo or n in po) for n in spr + spo + pr + po],
        "kwonly": [(n, False) for n in kr] + [(n, True) for n in ko],
    }


def model_call(cfg, n_positional, supplied_optional_kw=None):
    """What must be looked up and called when the first n positionals (and the listed optional keywords) are given."""
    is_method, spr, spo, pr, po, kr, ko, cx = CONFIGS[cfg]
    pos = (spr + spo + pr + po)[:n_positional]
    lookup = [("subtler_type" if i in cx else "type", p) for i, p in enumerate(pos)]
    lookup += [(k, "subtler_type" if k in cx else "type", k) for k in kr]
    args = (["self"] if is_method else []) + pos
    kwargs = [(k, k) for k in kr]
    return lookup, args, kwargs


# ------------------------------------------------------------------------------------------------ decoding
def decode_call_block(entry, stmts):
    """`M = OVLD.map[(...)]` + `return M(...)`  ->  (lookup elements, args, kwargs, flags) or a problem string."""
    assigns = [s for s in stmts if isinstance(s, ast.Assign)]
    rets = [s for s in stmts if isinstance(s, ast.Return)]
    if len(assigns) != 1 or len(rets) != 1 or len(stmts) != 2:
        return None, f"expected `m = OVLD.map[key]; return m(args)`, found {[type(s).__name__ for s in stmts]}"
    a, r = assigns[0], rets[0]
    if not (isinstance(a.value, ast.Subscript) and dotted(a.value.value) == "OVLD.map"):
        return None, f"the method is not obtained by subscripting OVLD.map: `{short(a, 60)}`"
    if not (isinstance(r.value, ast.Call) and isinstance(r.value.func, ast.Name) and dotted(a.targets[0]) == r.value.func.id):
        return None, f"the looked-up method's call is not returned directly: `{short(r, 60)}`"
    params = {x.arg for x in entry.fn.args.posonlyargs + entry.fn.args.args + entry.fn.args.kwonlyargs}
    if dotted(a.targets[0]) in params:
        return None, f"the local that holds the looked-up method is called `{dotted(a.targets[0])}` like one of the parameters: the method receives itself instead of the caller's argument"
    key = a.value.slice
    elts = list(key.elts) if isinstance(key, ast.Tuple) else [key]
    lookup = []
    spread_lookup = None
    for e in elts:
        if isinstance(e, ast.Starred):
            spread_lookup = dotted(e.value)
        elif isinstance(e, ast.Call) and isinstance(e.func, ast.Name) and len(e.args) == 1 and isinstance(e.args[0], ast.Name):
            lookup.append((entry.keyfn.get(e.func.id, e.func.id), e.args[0].id))
        elif isinstance(e, ast.Tuple) and len(e.elts) == 2 and isinstance(e.elts[0], ast.Constant) and isinstance(e.elts[1], ast.Call) and isinstance(e.elts[1].func, ast.Name) and len(e.elts[1].args) == 1 and isinstance(e.elts[1].args[0], ast.Name):
            lookup.append((e.elts[0].value, entry.keyfn.get(e.elts[1].func.id, e.elts[1].func.id), e.elts[1].args[0].id))
        else:
            lookup.append(("?", ast.unparse(e)))
    call = r.value
    args = [x.id if isinstance(x, ast.Name) else ast.unparse(x) for x in call.args]
    kwargs = [(k.arg, k.value.id if isinstance(k.value, ast.Name) else ast.unparse(k.value)) for k in call.keywords if k.arg is not None]
    spread_call = [dotted(k.value) for k in call.keywords if k.arg is None]
    return (lookup, args, kwargs, spread_lookup, spread_call[0] if spread_call else None), None


def check_entry(ctx, cfg):
    """-> dict law -> list of problems for configuration cfg."""
    e = entries(ctx)[cfg]
    problems = {"signature": [], "full-call": [], "early-exits": [], "optional-keywords": [], "hand-over": [], "per-call-state": [], "key-functions": []}
    if e.tree is None or e.fn is None:
        for k in problems:
            problems[k].append(f"the generated entry point does not parse: {e.syntax_error}")
        return problems
    is_method, spr, spo, pr, po, kr, ko, cx = CONFIGS[cfg]
    fn = e.fn
    # ---- signature
    a = fn.args
    got_pos = [x.arg for x in a.posonlyargs + a.args]
    n_def = len(a.defaults)
    got_opt = set(got_pos[len(got_pos) - n_def:]) if n_def else set()
    want = model_signature(cfg)
    want_pos = (["self"] if want["self"] else []) + [n for n, _ in want["positional"]]
    if got_pos != want_pos:
        problems["signature"].append(f"positional parameters {got_pos}, expected {want_pos}")
    if got_opt != {n for n, o in want["positional"] if o}:
        problems["signature"].append(f"optional positionals {sorted(got_opt)}, expected {sorted(n for n, o in want['positional'] if o)}")
    for d in a.defaults + [d for d in a.kw_defaults if d is not None]:
        if dotted(d) != "MISSING":
            problems["signature"].append(f"a default other than the MISSING placeholder is declared: {ast.unparse(d)}")
    got_kw = [(x.arg, d is not None) for x, d in zip(a.kwonlyargs, a.kw_defaults)]
    if got_kw != want["kwonly"]:
        problems["signature"].append(f"keyword-only parameters {got_kw}, expected {want['kwonly']}")
    if a.vararg or a.kwarg:
        problems["signature"].append("the entry point takes *args / **kwargs")
    # strictly positional parameters must be positional-only; with several optional named positionals all are
    strict = set(spr + spo)
    posonly = {x.arg for x in a.posonlyargs}
    if not strict <= posonly:
        problems["signature"].append(f"strictly positional parameters {sorted(strict - posonly)} can be passed by keyword")
    # ---- body: inits, optional keyword collection, early exits, full call
    body = list(fn.body)
    created = {}
    while body:
        s0 = body[0]
        if isinstance(s0, ast.Assign) and isinstance(s0.targets[0], ast.Name) and isinstance(s0.value, (ast.Dict, ast.List)) and not (getattr(s0.value, "keys", None) or getattr(s0.value, "elts", None)):
            created[s0.targets[0].id] = type(s0.value).__name__
            body.pop(0)
        elif isinstance(s0, ast.Expr) and isinstance(s0.value, ast.Call) and isinstance(s0.value.func, ast.Attribute) and s0.value.func.attr == "clear" and not s0.value.args:
            # a container that is emptied, not created: it outlives the call
            body.pop(0)
        else:
            break
    collected = {}
    while body and isinstance(body[0], ast.If) and not _is_missing_test(body[0].test) :
        st = body.pop(0)
        t = st.test
        ok = isinstance(t, ast.Compare) and isinstance(t.ops[0], ast.IsNot) and dotted(t.comparators[0]) == "MISSING" and isinstance(t.left, ast.Name)
        if not ok or st.orelse:
            problems["optional-keywords"].append(f"unexpected statement `{short(st, 60)}`")
            continue
        name = t.left.id
        kwstore = tstore = None
        for s in st.body:
            if isinstance(s, ast.Assign) and isinstance(s.targets[0], ast.Subscript) and isinstance(s.targets[0].slice, ast.Constant) and s.targets[0].slice.value == name and dotted(s.value) == name:
                kwstore = dotted(s.targets[0].value)
            elif isinstance(s, ast.Expr) and isinstance(s.value, ast.Call) and isinstance(s.value.func, ast.Attribute) and s.value.func.attr == "append" and s.value.args and isinstance(s.value.args[0], ast.Tuple):
                tup = s.value.args[0]
                if len(tup.elts) == 2 and isinstance(tup.elts[0], ast.Constant) and tup.elts[0].value == name and isinstance(tup.elts[1], ast.Call) and isinstance(tup.elts[1].func, ast.Name) and [dotted(x) for x in tup.elts[1].args] == [name]:
                    tstore = (dotted(s.value.func.value), e.keyfn.get(tup.elts[1].func.id, tup.elts[1].func.id))
        collected[name] = (kwstore, tstore)
    if sorted(collected) != sorted(ko):
        problems["optional-keywords"].append(f"optional keywords collected when supplied: {sorted(collected)}, expected {sorted(ko)}")
    kwcont = {v[0] for v in collected.values() if v[0]}
    tcont = {v[1][0] for v in collected.values() if v[1]}
    for name, (kwstore, tstore) in collected.items():
        if kwstore is None:
            problems["optional-keywords"].append(f"`{name}` is not forwarded when supplied")
        if tstore is None:
            problems["optional-keywords"].append(f"`{name}` is not keyed when supplied")
        else:
            wantf = "subtler_type" if name in cx else "type"
            if tstore[1] != wantf:
                problems["key-functions"].append(f"optional keyword `{name}` is keyed with {tstore[1]}, the selector chose {wantf}")
    for cont in kwcont | tcont:
        if cont not in created:
            problems["per-call-state"].append(f"`{cont}` is filled during the call but is not created by the entry point in that call")
    # early exits
    opt = spo + po
    req = len(spr + pr)
    for j, name in enumerate(opt):
        if not body or not (isinstance(body[0], ast.If) and _is_missing_test(body[0].test) and body[0].test.left.id == name):
            problems["early-exits"].append(f"no `if {name} is MISSING:` branch at position {j}")
            break
        st = body.pop(0)
        if st.orelse:
            problems["early-exits"].append(f"the `{name} is MISSING` branch has an else")
        _compare_block(e, cfg, st.body, req + j, ko, kwcont, tcont, problems, "early-exits", f"[{name} omitted] ")
    # full call
    rest = [s for s in body if not (isinstance(s, ast.Expr) and isinstance(s.value, ast.Constant))]
    _compare_block(e, cfg, rest, len(spr + spo + pr + po), ko, kwcont, tcont, problems, "full-call", "")
    # generated helper names never collide with parameter names
    params = {x.arg for x in a.posonlyargs + a.args + a.kwonlyargs}
    for name, val in e.inject.items():
        if name in params:
            problems["key-functions" if isinstance(val, KeyFn) else "per-call-state"].append(f"the injected helper `{name}` has the name of a parameter: inside the entry point the parameter shadows it")
    for cont in set(created) | kwcont | tcont:
        if cont in params:
            problems["per-call-state"].append(f"the scratch container `{cont}` has the name of a parameter and overwrites the caller's argument")
    # hand-over purity: nothing but the branches, no try
    if any(isinstance(n, (ast.Try, ast.With)) for n in ast.walk(fn)):
        problems["hand-over"].append("the entry point wraps the method call in try/with")
    return problems


class _Map(dict):
    """Stands for OVLD.map: every key is found; the method it returns records how it is called."""

    def __missing__(self, key):
        return HostFn(lambda *a, **k: ("CALL", key, list(a), dict(k)))


def _bind(fnargs, pos, kw):
    """Python's argument binding for a generated signature (no *args / **kwargs): -> env or an error string."""
    names_po = [x.arg for x in fnargs.posonlyargs]
    names = names_po + [x.arg for x in fnargs.args]
    if len(pos) > len(names):
        return "too many positional arguments"
    env = dict(zip(names, pos))
    kwonly = [x.arg for x in fnargs.kwonlyargs]
    for k, v in kw.items():
        if k in names_po:
            return f"positional-only parameter {k} passed by keyword"
        if k in env:
            return f"multiple values for {k}"
        if k not in names and k not in kwonly:
            return f"unexpected keyword {k}"
        env[k] = v
    ndef = len(fnargs.defaults)
    for i, n in enumerate(names):
        if n not in env:
            j = i - (len(names) - ndef)
            if j < 0:
                return f"missing required argument {n}"
            env[n] = ("default", fnargs.defaults[j])
    for n, d in zip(kwonly, fnargs.kw_defaults):
        if n not in env:
            if d is None:
                return f"missing required keyword {n}"
            env[n] = ("default", d)
    return env


def check_call_shapes(ctx, cfg):
    """Interpret the generated entry point on call shapes: every shape its signature accepts hands the method exactly
    the arguments supplied (each under its own position / name), selected on a key with one element per supplied
    argument; shapes made of a prefix of the positionals plus keywords are accepted."""
    import itertools

    from ..metainterp import _Return

    e = entries(ctx)[cfg]
    problems = []
    if e.tree is None or e.fn is None:
        return [f"the generated entry point does not parse: {e.syntax_error}"]
    is_method, spr, spo, pr, po, kr, ko, cx = CONFIGS[cfg]
    P = spr + spo + pr + po
    nreq = len(spr + pr)
    fn = e.fn
    genv = {}
    for name, v in e.inject.items():
        genv[name] = HostFn(lambda x, kf=v.__name__: (kf, x)) if isinstance(v, KeyFn) else v
    hi = HostInterp({}, Record(), {}, globals_env=genv, classes={}, functions={})
    ovld_names = [x.arg for x in (e.outer.args.posonlyargs + e.outer.args.args)] if e.outer is not fn else []
    shapes = []
    for n in range(nreq, len(P) + 1):
        for r in range(len(ko) + 1):
            for okw in itertools.combinations(ko, r):
                shapes.append((n, {}, okw, True))
        # one named positional beyond the prefix, by keyword
        for q in (pr + po):
            if P.index(q) >= n:
                shapes.append((n, {q: f"v:{q}"}, (), False))
    n_run = 0
    for n, extra_kw, okw, must_accept in shapes:
        if n < nreq and not (set(P[n:nreq]) <= set(extra_kw)):
            continue
        pos_vals = (["<self>"] if is_method else []) + [f"v:{p}" for p in P[:n]]
        kw_vals = {k: f"v:{k}" for k in kr}
        kw_vals.update({k: f"v:{k}" for k in okw})
        kw_vals.update(extra_kw)
        supplied = {p: f"v:{p}" for p in P[:n]}
        supplied.update({k: v for k, v in kw_vals.items()})
        env = _bind(fn.args, pos_vals, kw_vals)
        desc = f"f({', '.join([p for p in P[:n]] + [f'{k}=..' for k in kw_vals])})"
        if isinstance(env, str):
            if must_accept:
                problems.append(f"the call shape {desc} is rejected by the entry point's own signature ({env})")
            continue
        env2 = {}
        for k, v in env.items():
            env2[k] = hi.ev(v[1], {}) if isinstance(v, tuple) and v and v[0] == "default" else v
        for o in ovld_names:
            env2[o] = Record(map=_Map())
        n_run += 1
        try:
            hi.block(fn.body, env2)
            out = None
        except _Return as r:
            out = r.value
        except Raised as r:
            out = ("RAISE", r.what)
        except (TypeError, KeyError, AttributeError, IndexError) as ex:
            # the generated code fails on the stand-ins the way it would on real arguments (it looks something up
            # under a key that is no key, calls what is no function, ...)
            out = ("RAISE", f"{type(ex).__name__}: {ex}")
        if not (isinstance(out, tuple) and out and out[0] == "CALL"):
            problems.append(f"for {desc} the entry point does not return the method's call ({out!r})")
            continue
        _, key, args, kwargs = out
        args = list(args)
        if is_method:
            if args[:1] != ["<self>"]:
                problems.append(f"for {desc} the method is not given self first")
                continue
            args = args[1:]
        received = dict(zip(P, args))
        if len(args) > len(P) or set(received) & set(kwargs):
            problems.append(f"for {desc} the method receives positionals {args} and keywords {kwargs}")
            continue
        received.update(kwargs)
        if received != supplied:
            lost = sorted(set(supplied) - set(received))
            extra = sorted(set(received) - set(supplied))
            wrong = sorted(k for k in set(received) & set(supplied) if received[k] != supplied[k])
            problems.append(f"for {desc} the method receives {received}" + (f": {lost} supplied by the caller but dropped" if lost else "") + (f": {extra} not supplied by the caller (placeholder or foreign default)" if extra else "") + (f": {wrong} carry another argument's value" if wrong else ""))
            continue
        sup_pos = [p for p in P if p in supplied]
        if sup_pos != P[: len(sup_pos)]:
            problems.append(f"{desc} is accepted although an earlier optional positional is omitted")
            continue
        key = list(key) if isinstance(key, (tuple, list)) else [key]
        want_pos = [("subtler_type" if i in cx else "type", supplied[p]) for i, p in enumerate(sup_pos)]
        want_kw = {(k, ("subtler_type" if k in cx else "type", supplied[k])) for k in supplied if k not in P}
        got_pos = key[: len(want_pos)]
        got_kw = set(key[len(want_pos):]) if all(isinstance(x, tuple) for x in key[len(want_pos):]) else None
        if got_pos != want_pos or got_kw != want_kw:
            problems.append(f"for {desc} the method is looked up under {key}, expected {want_pos + sorted(want_kw)}")
    if not n_run:
        raise AnalysisError(f"[{cfg}] no call shape could be interpreted")
    return problems


def check_regeneration(ctx):
    """The generator runs twice for the same function object with the same parameter layout but another set of
    type-valued parameters (a method annotated with a generic alias was registered in between): the second entry
    point must be generated afresh, with the new key functions."""
    problems = []
    for cfg in ("method-mixed", "plain"):
        is_method, spr, spo, pr, po, kr, ko, cx = CONFIGS[cfg]
        ov = Record(kind="function object")
        generate(ctx, cfg, ov=ov, complex_override=set())
        code2, inject2 = generate(ctx, cfg, ov=ov, complex_override={0})
        if code2 is None:
            problems.append(f"[{cfg}] the second build of the same function object generates nothing: the entry point of the earlier build is reused although the key function of the first parameter changed")
            continue
        keyfns = {v.__name__ for v in inject2.values() if isinstance(v, KeyFn)}
        if "subtler_type" not in keyfns:
            problems.append(f"[{cfg}] the second build does not use the type-valued key function for the first parameter")
    return problems


def _is_missing_test(t):
    return isinstance(t, ast.Compare) and len(t.ops) == 1 and isinstance(t.ops[0], ast.Is) and dotted(t.comparators[0]) == "MISSING" and isinstance(t.left, ast.Name)


def _compare_block(e, cfg, stmts, n, ko, kwcont, tcont, problems, law, prefix):
    dec, why = decode_call_block(e, stmts)
    if dec is None:
        problems["hand-over"].append(prefix + why)
        return
    lookup, args, kwargs, spread_lookup, spread_call = dec
    wl, wa, wk = model_call(cfg, n)
    if lookup != wl:
        # separate the key-function deviation from the structural one
        strip = lambda L: [(x[0], x[-1]) if len(x) == 3 else (x[-1],) for x in L]
        if strip(lookup) == strip(wl):
            problems["key-functions"].append(prefix + f"key functions {[x[-2] for x in lookup]}, the selector chose {[x[-2] for x in wl]}")
        else:
            problems[law].append(prefix + f"looks up {lookup}, expected {wl}")
    if args != wa:
        problems[law].append(prefix + f"passes positionals {args}, expected {wa}")
    if kwargs != wk:
        problems[law].append(prefix + f"passes keywords {kwargs}, expected {wk}")
    if ko:
        if spread_lookup not in tcont:
            problems[law].append(prefix + "the collected optional keywords are not spread into the lookup key")
        if spread_call not in kwcont:
            problems[law].append(prefix + "the collected optional keywords are not spread into the call")
    else:
        if spread_lookup or spread_call:
            problems[law].append(prefix + "spreads a keyword container although no optional keyword exists")


LAW_TEXT = {
    "signature": ("the entry point declares self (for methods), every positional in order (optional ones defaulting to the MISSING placeholder, strictly positional ones positional-only) and every keyword-only parameter", "the entry point's own signature rejects or mis-binds a call shape an applicable method accepts"),
    "full-call": ("with all positionals supplied the key holds one element per argument under its own position / name and the method is called with exactly those arguments (self first for methods)", "the method is selected on one argument list and called with another"),
    "early-exits": ("for each omitted optional positional, in order, the key and the call hold exactly the leading positionals that were supplied plus every keyword", "omitting an optional positional drops or mis-places arguments: the placeholder reaches a method, or supplied keywords are lost"),
    "optional-keywords": ("an optional keyword is forwarded and keyed exactly when it was supplied (is not MISSING)", "an optional keyword is forwarded when it was not supplied (the method sees the placeholder instead of its own default) or dropped when it was"),
    "hand-over": ("the selected method is obtained by subscripting OVLD.map and its call is returned directly", "the entry point post-processes the result, swallows exceptions, or bypasses the table's cache"),
    "per-call-state": ("containers filled during a call are created by the entry point in that call", "per-call containers live outside the call: concurrent or re-entrant calls see each other's keyword arguments"),
    "call-shapes": ("every call shape the entry point accepts hands the selected method exactly the supplied arguments, each under its own position or name, selected on one key element per supplied argument; every prefix of the positionals with any keywords is accepted (entry point interpreted on the shapes)", "a supplied argument is dropped, displaced or replaced by a placeholder, or the method is selected on other arguments than it is called with"),
    "regenerated": ("every build generates the entry point afresh from the current analysis (two builds of one function object with another set of type-valued parameters give different entry points)", "a registration that makes a parameter type-valued leaves the old entry point in service: classes passed there are looked up by their metaclass"),
    "key-functions": ("every key element is built with the key function the per-position selector chose for that position / name", "a type-valued argument is keyed with the wrong function: a class passed there is looked up as its metaclass (or the reverse)"),
}


def law(ctx, *names, configs=None):
    gen = A.entry_generator(ctx.repo)
    ctx.touch(gen)
    if "regenerated" in names:
        ps = check_regeneration(ctx)
        text, why = LAW_TEXT["regenerated"]
        ctx.ob(f"{gen.key}:regenerated", gen.loc(), text, not ps, "; ".join(ps[:2]) + ": " + why)
        names = tuple(n for n in names if n != "regenerated")
    for cfg in CONFIGS:
        if configs is not None and cfg not in configs:
            continue
        probs = check_entry(ctx, cfg)
        if "call-shapes" in names:
            probs = dict(probs)
            probs["call-shapes"] = check_call_shapes(ctx, cfg)
        for name in names:
            text, why = LAW_TEXT[name]
            ps = probs[name]
            ctx.ob(
                f"{gen.key}:{name}:{cfg}",
                gen.loc(),
                f"[{cfg}] {text} (entry point obtained by abstractly executing the generator)",
                not ps,
                "; ".join(ps[:3]) + ": " + why,
            )
