"""The generated entry point, obtained by abstractly executing the entry-point generator on symbolic parameter
configurations, and the laws C03 / C14 / C17 / C19 / C20 need from it.

The generator (and the name database it uses) is interpreted by `metainterp.HostInterp`; nothing of /repo is
imported or run.  `instantiate_code` is replaced by a stub that captures the emitted source and the injected
globals.  The emitted source is parsed and compared, branch by branch, with what the property requires for that
configuration (a reference model of ten lines, `model_call`).
"""

import ast

from .. import anchors as A
from ..metainterp import HostFn, HostInterp, Instance, Raised, Record
from ..model import AnalysisError, call_name, dotted, short


class KeyFn(Record):
    def __init__(self, name):
        self.__name__ = name

    def __repr__(self):
        return f"<keyfn {self.__name__}>"


TYPE = KeyFn("type")
SUBTLER = KeyFn("subtler_type")

CONFIGS = {
    # name: (is_method, spr, spo, pr, po, kr, ko, type-valued keys)
    "plain": (False, ["ARG1"], [], [], [], [], [], set()),
    "method-mixed": (True, ["ARG1"], [], ["x"], ["y"], ["k"], ["o"], {1, "k"}),
    "strict-optional": (False, ["ARG1"], ["ARG2"], [], ["y"], [], [], {0}),
    "awkward-names": (False, [], [], ["method"], ["a", "b"], [], ["flag"], {"flag"}),
    "keywords-only": (False, [], [], [], [], ["k1", "k2"], ["o1"], {"k2"}),
    "shadowing-names": (False, [], [], ["KWARGS", "TARGS"], [], [], ["type", "subtler_type"], {"type"}),
}


def generate(ctx, cfg_name):
    """-> (source text, injected globals) for one configuration."""
    repo = ctx.repo
    gen = A.entry_generator(repo)
    is_method, spr, spo, pr, po, kr, ko, complex_keys = CONFIGS[cfg_name]
    captured = {}

    def instantiate_code(symbol, code, inject=None, **kw):
        captured["symbol"] = symbol
        captured["code"] = code
        captured["inject"] = dict(inject or {})

        return HostFn(lambda ov: ("ENTRY", ov))

    arganal = Record(
        strict_positional_required=list(spr),
        strict_positional_optional=list(spo),
        positional_required=list(pr),
        positional_optional=list(po),
        keyword_required=list(kr),
        keyword_optional=list(ko),
        is_method=is_method,
        compile=lambda: None,
        lookup_for=lambda key: SUBTLER if key in complex_keys else TYPE,
    )
    mod = gen.module
    classes = {}
    # classes of the package the generator instantiates (the name database): interpreted, not stubbed
    for c in ast.walk(gen.node):
        if isinstance(c, ast.Call) and isinstance(c.func, ast.Name):
            r = repo.resolve_name(mod, c.func.id)
            if r and r[0] == "class":
                classes[c.func.id] = {n: m.node for cc in reversed(repo.class_mro(r[1])) for n, m in cc.methods.items()}
    genv = {"MISSING": "<MISSING>", "instantiate_code": instantiate_code, "count": lambda: Record(kind="counter")}
    for k, v in mod.str_constants.items():
        genv[k] = v
    funcs = {n: f.node for n, f in mod.funcs.items() if f.parent is None and f.cls is None and f is not gen}
    hi = HostInterp({}, Record(), {}, globals_env=genv, classes=classes, functions=funcs)
    orig_call = hi.call

    def call(e, env):
        d = dotted(e.func)
        if d and d.endswith(".lookup_for") and len(e.args) == 1:
            return arganal.lookup_for(hi.ev(e.args[0], env))
        if d and d.endswith(".compile") and not e.args:
            return None
        return orig_call(e, env)

    hi.call = call
    try:
        hi.call_function(gen.node, ["<OV>", arganal], {}, {})
    except Raised as r:
        raise AnalysisError(f"{gen.key}: the generator raises {r.what} on configuration {cfg_name}")
    if "code" not in captured:
        raise AnalysisError(f"{gen.key}: the generator did not hand any source to instantiate_code on configuration {cfg_name}")
    return captured["code"], captured["inject"]


class Entry:
    """The parsed entry point of one configuration."""

    def __init__(self, ctx, cfg_name):
        self.cfg = cfg_name
        self.code, self.inject = generate(ctx, cfg_name)
        try:
            self.tree = ast.parse(self.code)
        except SyntaxError as e:
            self.tree = None
            self.syntax_error = str(e)
            return
        self.syntax_error = None
        fns = [n for n in ast.walk(self.tree) if isinstance(n, ast.FunctionDef)]
        self.outer = fns[0] if fns else None
        inner = [n for n in ast.walk(self.outer) if isinstance(n, ast.FunctionDef) and n is not self.outer] if self.outer else []
        self.fn = inner[0] if inner else self.outer
        # names of injected key functions
        self.keyfn = {name: v.__name__ for name, v in self.inject.items() if isinstance(v, KeyFn)}


def entries(ctx):
    if "entry_points" not in ctx.cache:
        ctx.cache["entry_points"] = {name: Entry(ctx, name) for name in CONFIGS}
    return ctx.cache["entry_points"]


# ------------------------------------------------------------------------------------------------ reference model
def model_signature(cfg):
    is_method, spr, spo, pr, po, kr, ko, _ = CONFIGS[cfg]
    return {
        "self": is_method,
        "positional": [(n, n in spo or n in po) for n in spr + spo + pr + po],
        "kwonly": [(n, False) for n in kr] + [(n, True) for n in ko],
    }


def model_call(cfg, n_positional, supplied_optional_kw=None):
    """What must be looked up and called when the first n positionals (and the listed optional keywords) are given."""
    is_method, spr, spo, pr, po, kr, ko, cx = CONFIGS[cfg]
    pos = (spr + spo + pr + po)[:n_positional]
    lookup = [("subtler_type" if i in cx else "type", p) for i, p in enumerate(pos)]
    lookup += [(k, "subtler_type" if k in cx else "type", k) for k in kr]
    args = (["self"] if is_method else []) + pos
    kwargs = [(k, k) for k in kr]
    return lookup, args, kwargs


# ------------------------------------------------------------------------------------------------ decoding
def decode_call_block(entry, stmts):
    """`M = OVLD.map[(...)]` + `return M(...)`  ->  (lookup elements, args, kwargs, flags) or a problem string."""
    assigns = [s for s in stmts if isinstance(s, ast.Assign)]
    rets = [s for s in stmts if isinstance(s, ast.Return)]
    if len(assigns) != 1 or len(rets) != 1 or len(stmts) != 2:
        return None, f"expected `m = OVLD.map[key]; return m(args)`, found {[type(s).__name__ for s in stmts]}"
    a, r = assigns[0], rets[0]
    if not (isinstance(a.value, ast.Subscript) and dotted(a.value.value) == "OVLD.map"):
        return None, f"the method is not obtained by subscripting OVLD.map: `{short(a, 60)}`"
    if not (isinstance(r.value, ast.Call) and isinstance(r.value.func, ast.Name) and dotted(a.targets[0]) == r.value.func.id):
        return None, f"the looked-up method's call is not returned directly: `{short(r, 60)}`"
    params = {x.arg for x in entry.fn.args.posonlyargs + entry.fn.args.args + entry.fn.args.kwonlyargs}
    if dotted(a.targets[0]) in params:
        return None, f"the local that holds the looked-up method is called `{dotted(a.targets[0])}` like one of the parameters: the method receives itself instead of the caller's argument"
    key = a.value.slice
    elts = list(key.elts) if isinstance(key, ast.Tuple) else [key]
    lookup = []
    spread_lookup = None
    for e in elts:
        if isinstance(e, ast.Starred):
            spread_lookup = dotted(e.value)
        elif isinstance(e, ast.Call) and isinstance(e.func, ast.Name) and len(e.args) == 1 and isinstance(e.args[0], ast.Name):
            lookup.append((entry.keyfn.get(e.func.id, e.func.id), e.args[0].id))
        elif isinstance(e, ast.Tuple) and len(e.elts) == 2 and isinstance(e.elts[0], ast.Constant) and isinstance(e.elts[1], ast.Call) and isinstance(e.elts[1].func, ast.Name) and len(e.elts[1].args) == 1 and isinstance(e.elts[1].args[0], ast.Name):
            lookup.append((e.elts[0].value, entry.keyfn.get(e.elts[1].func.id, e.elts[1].func.id), e.elts[1].args[0].id))
        else:
            lookup.append(("?", ast.unparse(e)))
    call = r.value
    args = [x.id if isinstance(x, ast.Name) else ast.unparse(x) for x in call.args]
    kwargs = [(k.arg, k.value.id if isinstance(k.value, ast.Name) else ast.unparse(k.value)) for k in call.keywords if k.arg is not None]
    spread_call = [dotted(k.value) for k in call.keywords if k.arg is None]
    return (lookup, args, kwargs, spread_lookup, spread_call[0] if spread_call else None), None


def check_entry(ctx, cfg):
    """-> dict law -> list of problems for configuration cfg."""
    e = entries(ctx)[cfg]
    problems = {"signature": [], "full-call": [], "early-exits": [], "optional-keywords": [], "hand-over": [], "per-call-state": [], "key-functions": []}
    if e.tree is None or e.fn is None:
        for k in problems:
            problems[k].append(f"the generated entry point does not parse: {e.syntax_error}")
        return problems
    is_method, spr, spo, pr, po, kr, ko, cx = CONFIGS[cfg]
    fn = e.fn
    # ---- signature
    a = fn.args
    got_pos = [x.arg for x in a.posonlyargs + a.args]
    n_def = len(a.defaults)
    got_opt = set(got_pos[len(got_pos) - n_def:]) if n_def else set()
    want = model_signature(cfg)
    want_pos = (["self"] if want["self"] else []) + [n for n, _ in want["positional"]]
    if got_pos != want_pos:
        problems["signature"].append(f"positional parameters {got_pos}, expected {want_pos}")
    if got_opt != {n for n, o in want["positional"] if o}:
        problems["signature"].append(f"optional positionals {sorted(got_opt)}, expected {sorted(n for n, o in want['positional'] if o)}")
    for d in a.defaults + [d for d in a.kw_defaults if d is not None]:
        if dotted(d) != "MISSING":
            problems["signature"].append(f"a default other than the MISSING placeholder is declared: {ast.unparse(d)}")
    got_kw = [(x.arg, d is not None) for x, d in zip(a.kwonlyargs, a.kw_defaults)]
    if got_kw != want["kwonly"]:
        problems["signature"].append(f"keyword-only parameters {got_kw}, expected {want['kwonly']}")
    if a.vararg or a.kwarg:
        problems["signature"].append("the entry point takes *args / **kwargs")
    # strictly positional parameters must be positional-only; with several optional named positionals all are
    strict = set(spr + spo)
    posonly = {x.arg for x in a.posonlyargs}
    if not strict <= posonly:
        problems["signature"].append(f"strictly positional parameters {sorted(strict - posonly)} can be passed by keyword")
    # ---- body: inits, optional keyword collection, early exits, full call
    body = list(fn.body)
    created = {}
    while body:
        s0 = body[0]
        if isinstance(s0, ast.Assign) and isinstance(s0.targets[0], ast.Name) and isinstance(s0.value, (ast.Dict, ast.List)) and not (getattr(s0.value, "keys", None) or getattr(s0.value, "elts", None)):
            created[s0.targets[0].id] = type(s0.value).__name__
            body.pop(0)
        elif isinstance(s0, ast.Expr) and isinstance(s0.value, ast.Call) and isinstance(s0.value.func, ast.Attribute) and s0.value.func.attr == "clear" and not s0.value.args:
            # a container that is emptied, not created: it outlives the call
            body.pop(0)
        else:
            break
    collected = {}
    while body and isinstance(body[0], ast.If) and not _is_missing_test(body[0].test) :
        st = body.pop(0)
        t = st.test
        ok = isinstance(t, ast.Compare) and isinstance(t.ops[0], ast.IsNot) and dotted(t.comparators[0]) == "MISSING" and isinstance(t.left, ast.Name)
        if not ok or st.orelse:
            problems["optional-keywords"].append(f"unexpected statement `{short(st, 60)}`")
            continue
        name = t.left.id
        kwstore = tstore = None
        for s in st.body:
            if isinstance(s, ast.Assign) and isinstance(s.targets[0], ast.Subscript) and isinstance(s.targets[0].slice, ast.Constant) and s.targets[0].slice.value == name and dotted(s.value) == name:
                kwstore = dotted(s.targets[0].value)
            elif isinstance(s, ast.Expr) and isinstance(s.value, ast.Call) and isinstance(s.value.func, ast.Attribute) and s.value.func.attr == "append" and s.value.args and isinstance(s.value.args[0], ast.Tuple):
                tup = s.value.args[0]
                if len(tup.elts) == 2 and isinstance(tup.elts[0], ast.Constant) and tup.elts[0].value == name and isinstance(tup.elts[1], ast.Call) and isinstance(tup.elts[1].func, ast.Name) and [dotted(x) for x in tup.elts[1].args] == [name]:
                    tstore = (dotted(s.value.func.value), e.keyfn.get(tup.elts[1].func.id, tup.elts[1].func.id))
        collected[name] = (kwstore, tstore)
    if sorted(collected) != sorted(ko):
        problems["optional-keywords"].append(f"optional keywords collected when supplied: {sorted(collected)}, expected {sorted(ko)}")
    kwcont = {v[0] for v in collected.values() if v[0]}
    tcont = {v[1][0] for v in collected.values() if v[1]}
    for name, (kwstore, tstore) in collected.items():
        if kwstore is None:
            problems["optional-keywords"].append(f"`{name}` is not forwarded when supplied")
        if tstore is None:
            problems["optional-keywords"].append(f"`{name}` is not keyed when supplied")
        else:
            wantf = "subtler_type" if name in cx else "type"
            if tstore[1] != wantf:
                problems["key-functions"].append(f"optional keyword `{name}` is keyed with {tstore[1]}, the selector chose {wantf}")
    for cont in kwcont | tcont:
        if cont not in created:
            problems["per-call-state"].append(f"`{cont}` is filled during the call but is not created by the entry point in that call")
    # early exits
    opt = spo + po
    req = len(spr + pr)
    for j, name in enumerate(opt):
        if not body or not (isinstance(body[0], ast.If) and _is_missing_test(body[0].test) and body[0].test.left.id == name):
            problems["early-exits"].append(f"no `if {name} is MISSING:` branch at position {j}")
            break
        st = body.pop(0)
        if st.orelse:
            problems["early-exits"].append(f"the `{name} is MISSING` branch has an else")
        _compare_block(e, cfg, st.body, req + j, ko, kwcont, tcont, problems, "early-exits", f"[{name} omitted] ")
    # full call
    rest = [s for s in body if not (isinstance(s, ast.Expr) and isinstance(s.value, ast.Constant))]
    _compare_block(e, cfg, rest, len(spr + spo + pr + po), ko, kwcont, tcont, problems, "full-call", "")
    # generated helper names never collide with parameter names
    params = {x.arg for x in a.posonlyargs + a.args + a.kwonlyargs}
    for name, val in e.inject.items():
        if name in params:
            problems["key-functions" if isinstance(val, KeyFn) else "per-call-state"].append(f"the injected helper `{name}` has the name of a parameter: inside the entry point the parameter shadows it")
    for cont in set(created) | kwcont | tcont:
        if cont in params:
            problems["per-call-state"].append(f"the scratch container `{cont}` has the name of a parameter and overwrites the caller's argument")
    # hand-over purity: nothing but the branches, no try
    if any(isinstance(n, (ast.Try, ast.With)) for n in ast.walk(fn)):
        problems["hand-over"].append("the entry point wraps the method call in try/with")
    return problems


def _is_missing_test(t):
    return isinstance(t, ast.Compare) and len(t.ops) == 1 and isinstance(t.ops[0], ast.Is) and dotted(t.comparators[0]) == "MISSING" and isinstance(t.left, ast.Name)


def _compare_block(e, cfg, stmts, n, ko, kwcont, tcont, problems, law, prefix):
    dec, why = decode_call_block(e, stmts)
    if dec is None:
        problems["hand-over"].append(prefix + why)
        return
    lookup, args, kwargs, spread_lookup, spread_call = dec
    wl, wa, wk = model_call(cfg, n)
    if lookup != wl:
        # separate the key-function deviation from the structural one
        strip = lambda L: [(x[0], x[-1]) if len(x) == 3 else (x[-1],) for x in L]
        if strip(lookup) == strip(wl):
            problems["key-functions"].append(prefix + f"key functions {[x[-2] for x in lookup]}, the selector chose {[x[-2] for x in wl]}")
        else:
            problems[law].append(prefix + f"looks up {lookup}, expected {wl}")
    if args != wa:
        problems[law].append(prefix + f"passes positionals {args}, expected {wa}")
    if kwargs != wk:
        problems[law].append(prefix + f"passes keywords {kwargs}, expected {wk}")
    if ko:
        if spread_lookup not in tcont:
            problems[law].append(prefix + "the collected optional keywords are not spread into the lookup key")
        if spread_call not in kwcont:
            problems[law].append(prefix + "the collected optional keywords are not spread into the call")
    else:
        if spread_lookup or spread_call:
            problems[law].append(prefix + "spreads a keyword container although no optional keyword exists")


LAW_TEXT = {
    "signature": ("the entry point declares self (for methods), every positional in order (optional ones defaulting to the MISSING placeholder, strictly positional ones positional-only) and every keyword-only parameter", "the entry point's own signature rejects or mis-binds a call shape an applicable method accepts"),
    "full-call": ("with all positionals supplied the key holds one element per argument under its own position / name and the method is called with exactly those arguments (self first for methods)", "the method is selected on one argument list and called with another"),
    "early-exits": ("for each omitted optional positional, in order, the key and the call hold exactly the leading positionals that were supplied plus every keyword", "omitting an optional positional drops or mis-places arguments: the placeholder reaches a method, or supplied keywords are lost"),
    "optional-keywords": ("an optional keyword is forwarded and keyed exactly when it was supplied (is not MISSING)", "an optional keyword is forwarded when it was not supplied (the method sees the placeholder instead of its own default) or dropped when it was"),
    "hand-over": ("the selected method is obtained by subscripting OVLD.map and its call is returned directly", "the entry point post-processes the result, swallows exceptions, or bypasses the table's cache"),
    "per-call-state": ("containers filled during a call are created by the entry point in that call", "per-call containers live outside the call: concurrent or re-entrant calls see each other's keyword arguments"),
    "key-functions": ("every key element is built with the key function the per-position selector chose for that position / name", "a type-valued argument is keyed with the wrong function: a class passed there is looked up as its metaclass (or the reverse)"),
}


def law(ctx, *names):
    gen = A.entry_generator(ctx.repo)
    ctx.touch(gen)
    for cfg in CONFIGS:
        probs = check_entry(ctx, cfg)
        for name in names:
            text, why = LAW_TEXT[name]
            ps = probs[name]
            ctx.ob(
                f"{gen.key}:{name}:{cfg}",
                gen.loc(),
                f"[{cfg}] {text} (entry point obtained by abstractly executing the generator)",
                not ps,
                "; ".join(ps[:3]) + ": " + why,
            )
