"""The generated value-dependent dispatcher, obtained by abstractly executing its generator on symbolic handler sets,
and the laws C10 / C11 / C03 / C06 / C17 need from it.

Nothing of /repo is imported or run.  The generator's source is interpreted by `metainterp.HostInterp` on *symbolic*
inputs: handlers are tokens, the types of a handler are records that say which kind of value-dependent type they
stand for (arbitrary predicate / keyable with a key list / member of a mutually exclusive family / plain static
type), `generate_checking_code`, `is_dependent`, `type`, `instantiate_code` and the renaming helper are stubs supplied
here.  The source text the generator hands to `instantiate_code` is parsed, and the function it defines is itself
interpreted on every vector of symbolic argument values of the configuration (a value says which predicates it
satisfies / which key it carries).  The outcome - which token is called with which arguments, or which error is
raised - is compared with the outcome the property prescribes:

    exactly one handler's conditions hold  -> that handler, all arguments handed over in order, self first
    none holds                             -> the fall-through of the next rank (or the 'no method' error)
    several hold                           -> the rank's ambiguity error

The configurations steer the generator onto each of its strategies and onto both sides of each of its thresholds
(see CONFIGS).  Because the decision is made on what the generator *would emit*, restructurings of the generator
(helpers, comprehensions, early continues, renamed locals, other string-building idioms) do not matter.
"""

import ast
import itertools

from .. import anchors as A
from ..metainterp import Closure, HostFn, HostInterp, Raised, Record
from ..model import AnalysisError


class DCls(Record):
    """A class of value-dependent types."""

    def __init__(self, name, keyable=False, exclusive=False):
        self.__name__ = name
        self.keyable_type = keyable
        self.exclusive_type = exclusive
        self.keygen = HostFn(lambda: "KEYOF({arg})")

    def __repr__(self):
        return f"<class {self.__name__}>"


GEN = DCls("Predicate")
GEN2 = DCls("OtherPredicate")
KEY = DCls("Keyed", keyable=True)
EXC = DCls("Exclusive", exclusive=True)
STATIC = DCls("type")


class DType(Record):
    def __init__(self, name, cls, keys=()):
        self.name = name
        self.cls = cls
        self.keys = list(keys)
        self.dep = cls is not STATIC
        self.get_keys = HostFn(lambda: list(self.keys))
        self.checker = Checker(self)

    def holds(self, val):
        if self.cls is STATIC:
            return True
        if self.cls is KEY:
            return val.key in self.keys
        if self.cls is EXC:
            return val.exc == self.name
        return self.name in val.gens

    def __repr__(self):
        return f"<{self.cls.__name__} {self.name}>"


class Checker(Record):
    def __init__(self, t):
        # every checker asks for the same name: the name database must keep them apart
        self.__name__ = "check"
        self.t = t

    def __repr__(self):
        return f"<check of {self.t.name}>"


class _Unhashable:
    """a key no dictionary accepts (a tuple holding a list): equal to none of the literal values"""

    __hash__ = None

    def __repr__(self):
        return "<an unhashable value>"

    def __lt__(self, other):
        return False


UNHASHABLE = _Unhashable()


class Val(Record):
    def __init__(self, arg, key, gens, exc):
        self.arg, self.key, self.gens, self.exc = arg, key, gens, exc

    def __repr__(self):
        parts = []
        if self.key is not None:
            parts.append(f"key {self.key}")
        if self.gens:
            parts.append("satisfying " + "+".join(sorted(self.gens)))
        if self.exc:
            parts.append(f"of family member {self.exc}")
        return f"<{self.arg}: {', '.join(parts) or 'satisfying nothing'}>"


class Handler(Record):
    def __init__(self, name):
        self.__name__ = name

    def __repr__(self):
        return self.__name__


def _t(name, cls, *keys):
    return (name, cls, keys)


S = _t("S", STATIC)

# name: dict(args=[keys of the type tuple in order], handlers=[{argkey: type spec}], slf=bool, next=..., expect=strategy or None)
_SAME0, _SAME1 = _t("g0", GEN), _t("g1", GEN)

CONFIGS = {
    "one-type-at-two-positions": dict(args=[0, 1, "kw"], handlers=[{0: _SAME0, 1: _SAME0, "kw": S}, {0: _SAME1, 1: S, "kw": _SAME1}], slf=False, next="next"),
    "single": dict(args=[0], handlers=[{0: _t("g0", GEN)}], slf=False, next="next"),
    "two-predicates": dict(args=[0], handlers=[{0: _t("g0", GEN)}, {0: _t("g1", GEN)}], slf=False, next="next"),
    "two-predicates-no-lower-rank": dict(args=[0, 1], handlers=[{0: _t("g0", GEN), 1: S}, {0: _t("g1", GEN), 1: S}], slf=True, next=None),
    "exclusive-family": dict(args=[0], handlers=[{0: _t("e0", EXC)}, {0: _t("e1", EXC)}, {0: _t("e2", EXC)}], slf=False, next="next"),
    "keyed-below-threshold": dict(args=[0], handlers=[{0: _t("k0", KEY, "a")}, {0: _t("k1", KEY, "b", "c")}, {0: _t("k2", KEY, "d")}], slf=False, next="next"),
    "keyed-at-threshold": dict(
        args=[0, "kw"],
        handlers=[{0: _t("k0", KEY, "a"), "kw": S}, {0: _t("k1", KEY, "b", "c"), "kw": S}, {0: _t("k2", KEY, "d"), "kw": S}, {0: _t("k3", KEY, "e", "f"), "kw": S}],
        slf=True,
        next="next",
    ),
    "keyed-overlapping": dict(args=[0], handlers=[{0: _t("k0", KEY, "a", "b")}, {0: _t("k1", KEY, "b", "c")}, {0: _t("k2", KEY, "d")}, {0: _t("k3", KEY, "e")}], slf=False, next="next"),
    "keyed-overlapping-few": dict(args=[0], handlers=[{0: _t("k0", KEY, "a", "b")}, {0: _t("k1", KEY, "b")}], slf=False, next="none-first"),
    "keyed-plus-second-position": dict(
        args=[0, 1],
        handlers=[{0: _t("k0", KEY, "a"), 1: _t("g0", GEN)}, {0: _t("k1", KEY, "b"), 1: S}, {0: _t("k2", KEY, "c"), 1: S}, {0: _t("k3", KEY, "d"), 1: S}],
        slf=False,
        next="next",
    ),
    "second-position-then-keyed": dict(
        args=[0, 1],
        handlers=[{1: _t("k0", KEY, "a"), 0: S}, {1: _t("k1", KEY, "b"), 0: S}, {1: _t("k2", KEY, "c"), 0: S}, {1: _t("k3", KEY, "d"), 0: _t("g3", GEN)}],
        slf=False,
        next="next",
    ),
    "mixed-classes": dict(args=[0], handlers=[{0: _t("g0", GEN)}, {0: _t("k0", KEY, "a")}], slf=False, next="next"),
    "two-predicate-classes": dict(args=[0], handlers=[{0: _t("g0", GEN)}, {0: _t("h0", GEN2)}], slf=False, next="next"),
    "shared-type": dict(args=[0, 1], handlers=[{0: _t("g0", GEN), 1: _t("g1", GEN)}, {0: _t("g0", GEN), 1: _t("g2", GEN)}], slf=False, next="next"),
    "keyword-position": dict(args=[0, "kw"], handlers=[{0: S, "kw": _t("g0", GEN)}, {0: S, "kw": _t("g1", GEN)}, {0: S, "kw": _t("g2", GEN)}], slf=True, next="next"),
    "conditions-answer-truthy-values": dict(args=[0], handlers=[{0: _t("g0", GEN)}, {0: _t("g1", GEN)}, {0: _t("g2", GEN)}], slf=False, next="next", truthy=True),
    "static-member-of-the-rank": dict(args=[0, 1], handlers=[{0: _t("g0", GEN), 1: S}, {0: S, 1: _t("S2", STATIC)}], slf=False, next="next"),
    "declared-position-not-supplied": dict(args=[0], handlers=[{0: _t("g0", GEN), 1: _t("g9", GEN)}, {0: _t("g1", GEN)}], slf=False, next="next"),
    "three-constants-one-name": dict(args=[0], handlers=[{0: _t("g0", GEN)}, {0: _t("g1", GEN)}, {0: _t("g2", GEN)}, {0: _t("g3", GEN)}], slf=False, next="next"),
    "exclusive-then-predicates": dict(args=[0, 1], handlers=[{0: _t("e0", EXC), 1: _t("g0", GEN)}, {0: _t("e1", EXC), 1: _t("g1", GEN)}], slf=False, next="next"),
    "predicates-then-exclusive": dict(args=[0, 1], handlers=[{0: _t("g0", GEN), 1: _t("e0", EXC)}, {0: _t("g1", GEN), 1: _t("e1", EXC)}], slf=False, next="next"),
}

SELF = Record(kind="self")
NEXT = Handler("NEXT")
ERR = Record(kind="ambiguity-error")
NERR = Record(kind="no-method-error")


def argname_of(k):
    return f"a{k}" if isinstance(k, int) else k


class Generated:
    """The dispatcher of one configuration."""

    def __init__(self, ctx, cfg_name):
        self.cfg = cfg_name
        repo = ctx.repo
        gen = A.dependent_generator(repo)
        cfg = CONFIGS[cfg_name]
        types = {}

        def mk(spec):
            name, cls, keys = spec
            if name not in types:
                types[name] = DType(name, cls, keys)
            return types[name]

        self.handlers = []
        for i, h in enumerate(cfg["handlers"]):
            tok = Handler(f"h{i}")
            tys = {k: mk(h[k]) for k in cfg["args"]}
            self.handlers.append((tok, tys))
            self.declared = getattr(self, "declared", {})
            self.declared[tok] = {k: mk(v) for k, v in h.items()}
        self.types = types
        call_tup = tuple(DType(f"call{k}", STATIC) if isinstance(k, int) else (k, DType(f"call_{k}", STATIC)) for k in cfg["args"])
        # a handler's own signature may declare further (optional, not supplied) positions after the supplied ones
        htup = [(tok, tuple(t if isinstance(k, int) else (k, t) for k, t in sorted(self.declared[tok].items(), key=lambda kv: (not isinstance(kv[0], int), str(kv[0]))))) for tok, tys in self.handlers]
        self.slf = "self, " if cfg["slf"] else ""
        nxt = {"next": (NEXT, 3), None: None, "none-first": (None, 0)}[cfg["next"]]
        self.fallthrough_is_next = cfg["next"] == "next"
        captured = {}

        def instantiate_code(symbol=None, code=None, inject=None, **kw):
            captured["symbol"], captured["code"], captured["inject"] = symbol, code, dict(inject or {})
            return Record(kind="instantiated", symbol=symbol)

        def generate_checking_code(t):
            if not isinstance(t, DType):
                raise AnalysisError(f"{gen.key}: checking code requested for {t!r}, which is not a type of a handler")
            return Record(template="{chk}({arg})", substitutions={"chk": t.checker})

        mod = gen.module
        classes = {}
        for c in ast.walk(gen.node):
            if isinstance(c, ast.Call) and isinstance(c.func, ast.Name):
                r = repo.resolve_name(mod, c.func.id)
                if r and r[0] == "class":
                    classes[c.func.id] = {n: m.node for cc in reversed(repo.class_mro(r[1])) for n, m in cc.methods.items()}
        import functools

        genv = {
            "type": lambda x: x.cls if isinstance(x, DType) else type(x),
            "reduce": functools.reduce,
            "count": lambda *a: __import__("itertools").count(*a),
        }
        for k, v in mod.str_constants.items():
            genv[k] = v
        funcs = {n: f.node for n, f in mod.funcs.items() if f.parent is None and f.cls is None and f is not gen}
        # the function that executes generated source (calls exec / compile): replaced by the capturing stub
        instantiators = [n for n, f in funcs.items() if any(isinstance(c, ast.Call) and isinstance(c.func, ast.Name) and c.func.id in ("exec", "compile", "eval") for c in ast.walk(f))]
        instantiators = [n for n in instantiators if any(isinstance(x, ast.Name) and x.id == n for x in ast.walk(gen.node)) or any(isinstance(x, ast.Name) and x.id == n for h in funcs.values() for x in ast.walk(h) if h is not funcs[n])]
        if not instantiators:
            raise AnalysisError(f"{gen.key}: no function executing generated source is called")
        for n in instantiators:
            genv[n] = instantiate_code
            funcs.pop(n)
        # functions applied to the instantiated dispatcher (renaming and the like): opaque post-processing
        holders = [gen.node] + list(funcs.values())
        import builtins

        for h in holders:
            # per function: the locals that hold the instantiated dispatcher, and what is applied to them there
            inst_vars = set()
            for st in ast.walk(h):
                if isinstance(st, ast.Assign) and isinstance(st.value, ast.Call) and isinstance(st.value.func, ast.Name) and st.value.func.id in instantiators:
                    inst_vars |= {t.id for t in st.targets if isinstance(t, ast.Name)}
            for c in ast.walk(h):
                if isinstance(c, ast.Call) and isinstance(c.func, ast.Name) and c.func.id not in instantiators and not hasattr(builtins, c.func.id):
                    feeds = [a for a in list(c.args) + [k.value for k in c.keywords] if (isinstance(a, ast.Name) and a.id in inst_vars) or (isinstance(a, ast.Call) and isinstance(a.func, ast.Name) and a.func.id in instantiators)]
                    if feeds:
                        nm = c.func.id
                        genv[nm] = (lambda nm: HostFn(lambda *a, **k: Record(kind="post", helper=nm, args=a, kwargs=k)))(nm)
                        funcs.pop(nm, None)
        # functions of other modules of the package the generator (or a helper of it) calls: stubbed by role
        local_imports = {}
        for holder in [gen.node] + list(funcs.values()):
            for n in ast.walk(holder):
                if isinstance(n, ast.ImportFrom) and n.level >= 1 and n.module in repo.modules:
                    for al in n.names:
                        local_imports[al.asname or al.name] = (repo.modules[n.module], al.name)
        used = {n.id for holder in [gen.node] + list(funcs.values()) for n in ast.walk(holder) if isinstance(n, ast.Name)}
        for name in sorted(used):
            if name in funcs or name in classes or name in genv:
                continue
            if name in local_imports:
                m2, nm = local_imports[name]
                r = repo.resolve_name(m2, nm)
            else:
                r = repo.resolve_name(mod, name)
            if not (r and r[0] == "func" and r[1].module is not mod):
                continue
            body_names = {x.attr for x in ast.walk(r[1].node) if isinstance(x, ast.Attribute)} | {x.value for x in ast.walk(r[1].node) if isinstance(x, ast.Constant) and isinstance(x.value, str)}
            rets = [x.value for x in ast.walk(r[1].node) if isinstance(x, ast.Return) and x.value is not None]
            # role at the call sites: used as a condition (filter of a comprehension, test of an if) -> the
            # "is this type value-dependent" predicate; its result's .template / .substitutions read -> checking code
            as_condition = as_codegen = False
            for h in holders:
                pmh = None
                for c in ast.walk(h):
                    if isinstance(c, ast.Call) and isinstance(c.func, ast.Name) and c.func.id == name:
                        if pmh is None:
                            from ..model import parent_map

                            pmh = parent_map(h)
                        par = pmh.get(c)
                        if isinstance(par, ast.comprehension) and c in par.ifs:
                            as_condition = True
                        if isinstance(par, (ast.If, ast.IfExp, ast.While)) and par.test is c:
                            as_condition = True
                        if isinstance(par, ast.UnaryOp) and isinstance(par.op, ast.Not):
                            as_condition = True
                        if isinstance(par, ast.Attribute) and par.attr in ("template", "substitutions"):
                            as_codegen = True
                        if isinstance(par, ast.Assign) and len(par.targets) == 1 and isinstance(par.targets[0], ast.Name):
                            v = par.targets[0].id
                            if any(isinstance(x, ast.Attribute) and x.attr in ("template", "substitutions") and isinstance(x.value, ast.Name) and x.value.id == v for x in ast.walk(h)):
                                as_codegen = True
            if "codegen" in body_names or as_codegen:
                genv[name] = generate_checking_code
            elif as_condition or (rets and all(isinstance(x, ast.Constant) and isinstance(x.value, bool) for x in rets)):
                genv[name] = lambda t: isinstance(t, DType) and t.dep
            elif name not in genv:
                genv[name] = (lambda nm: HostFn(lambda *a, **k: Record(kind="post", helper=nm, args=a, kwargs=k)))(name)
        hi = HostInterp({}, Record(), {}, globals_env=genv, classes=classes, functions=funcs)
        self.hi = hi
        params = gen.params
        ctx.require(len(params) >= 4, f"{gen.key}: fewer parameters than (type tuple, handlers, next, self prefix, ...)")
        # arguments by the names the wrap site uses
        kwargs = {}
        from .c10 import _wrap_site

        res, call, w = _wrap_site(ctx)
        wcall = [c for c in ast.walk(w.node) if isinstance(c, ast.Call) and isinstance(c.func, ast.Name) and c.func.id == gen.name]
        ctx.require(len(wcall) == 1, f"{w.key}: expected one call of the dependent generator")
        roles = _roles(ctx, w, wcall[0], params)
        self.name = "<NAME>"
        values = {"tup": call_tup, "handlers": htup, "next": nxt, "slf": self.slf, "name": self.name, "err": ERR, "nerr": NERR}
        for p in params:
            if p not in roles:
                raise AnalysisError(f"{gen.key}: parameter {p} has no recognised role at the wrap site")
            if roles[p] == "extra":
                continue  # left to its default
            kwargs[p] = values[roles[p]]
        try:
            self.result = hi.call_function(gen.node, [], kwargs, {})
        except Raised as r:
            raise AnalysisError(f"{gen.key}: the generator raises {r.what} on configuration {cfg_name}")
        if "code" not in captured:
            raise AnalysisError(f"{gen.key}: no source handed to instantiate_code on configuration {cfg_name}")
        self.code = captured["code"]
        self.inject = captured["inject"]
        self.symbol = captured["symbol"]
        try:
            self.tree = ast.parse(self.code)
            self.syntax_error = None
        except SyntaxError as e:
            self.tree = None
            self.syntax_error = str(e)
        self.fn = None
        if self.tree is not None:
            fns = [n for n in self.tree.body if isinstance(n, ast.FunctionDef)]
            self.fn = next((f for f in fns if f.name == self.symbol), fns[0] if fns else None)

    # -------------------------------------------------------------------------------- values and the reference
    def domains(self):
        cfg = CONFIGS[self.cfg]
        out = []
        for k in cfg["args"]:
            ts = []
            for _, tys in self.handlers:
                if tys[k].dep and tys[k] not in ts:
                    ts.append(tys[k])
            keys = sorted({key for t in ts if t.cls is KEY for key in t.keys})
            keyvals = keys + ["<other>", UNHASHABLE] if keys else [None]
            gens = [t.name for t in ts if t.cls in (GEN, GEN2)]
            subsets = [frozenset(c) for r in range(len(gens) + 1) for c in itertools.combinations(gens, r)]
            excs = [None] + [t.name for t in ts if t.cls is EXC]
            out.append([Val(argname_of(k), kv, g, x) for kv in keyvals for g in subsets for x in excs])
        return out

    def expected(self, vals):
        cfg = CONFIGS[self.cfg]
        byarg = dict(zip(cfg["args"], vals))
        matching = [tok for tok, tys in self.handlers if all(tys[k].holds(byarg[k]) for k in cfg["args"])]
        args = ([SELF] if cfg["slf"] else []) + [byarg[k] for k in cfg["args"] if isinstance(k, int)]
        kwargs = {k: byarg[k] for k in cfg["args"] if not isinstance(k, int)}
        if len(matching) == 1:
            return ("call", matching[0], args, kwargs)
        if not matching:
            if self.fallthrough_is_next:
                return ("call", NEXT, args, kwargs)
            return ("raise", NERR)
        return ("raise", ERR)

    def run(self, vals):
        """Interpret the generated function on one vector of symbolic values."""
        cfg = CONFIGS[self.cfg]
        misuse = []

        def conv(name, v):
            if isinstance(v, Checker):
                def chk(x, t=v.t):
                    if not isinstance(x, Val):
                        misuse.append(f"the check of {t!r} is applied to {x!r}, not to an argument")
                        return False
                    expected_args = {argname_of(k) for _, tys in self.handlers for k in cfg["args"] if tys[k] is t}
                    if x.arg not in expected_args:
                        misuse.append(f"the check of {t!r} (declared at {sorted(expected_args)}) is applied to argument {x.arg}")
                    if cfg.get("truthy"):
                        # a user condition may answer any truthy / falsy value
                        return 2 if t.holds(x) else 0
                    return t.holds(x)

                return HostFn(chk)
            if isinstance(v, Handler):
                return HostFn(lambda *a, _h=v, **k: ("call", _h, list(a), dict(k)))
            if isinstance(v, dict):
                return {kk: conv(None, vv) for kk, vv in v.items()}
            return v

        genv = {n: conv(n, v) for n, v in self.inject.items()}
        genv["isinstance"] = lambda v, t: t.holds(v) if isinstance(t, DType) and isinstance(v, Val) else (isinstance(v, t) if isinstance(t, type) else False)
        genv["KEYOF"] = HostFn(lambda x: x.key if isinstance(x, Val) else misuse.append(f"key taken of {x!r}"))
        hi = HostInterp({}, Record(), {}, globals_env=genv, classes=self.hi.classes, functions=self.hi.functions)
        a = self.fn.args
        names = [x.arg for x in a.posonlyargs + a.args]
        byarg = dict(zip(cfg["args"], vals))
        args = ([SELF] if cfg["slf"] else []) + [byarg[k] for k in cfg["args"] if isinstance(k, int)]
        kwargs = {k: byarg[k] for k in cfg["args"] if not isinstance(k, int)}
        try:
            out = hi.call_function(self.fn, args, kwargs, {})
        except Raised as r:
            return ("raise", getattr(r, "value", None)), misuse
        except AnalysisError as e:
            return ("stuck", str(e)), misuse
        except (TypeError, ValueError, KeyError, AttributeError) as e:
            return ("stuck", f"{type(e).__name__}: {e}"), misuse
        return out, misuse


def wrapper_hands_over(ctx, w, gen_name, takes_self):
    """Interpret the wrapper method of the table on one handler that does / does not take `self`:
    -> (positional args, keyword args) it hands to the generator (a stub)."""
    from ..metainterp import HostFn, HostInterp, Raised, Record

    got = {}

    def generator(*a, **k):
        got["args"], got["kwargs"] = a, k
        return Record(kind="dispatcher")

    h = Record(kind="handler", __name__="h")
    me = Record(type_tuples={h: ("T",)}, name="tbl", dispatch_id=Record(kind="counter"), dependent={h: True})
    for c in ast.walk(w.node):
        if isinstance(c, ast.Call) and isinstance(c.func, ast.Attribute) and isinstance(c.func.value, ast.Name) and c.func.value.id == w.params[0] and c.func.attr not in me.__dict__:
            setattr(me, c.func.attr, HostFn(lambda *a, **k: Record(kind="error", args=a)))
    genv = {gen_name: generator, "inspect": Record(getfullargspec=HostFn(lambda f: Record(args=(["self", "x"] if takes_self else ["x"]), varargs=None)), signature=HostFn(lambda f: Record(parameters={n: Record(name=n) for n in (["self", "x"] if takes_self else ["x"])})))}
    funcs = {n: f.node for n, f in w.module.funcs.items() if f.parent is None and f.cls is None}
    hi = HostInterp({}, me, {}, globals_env=genv, classes={}, functions=funcs)
    params = [p for p in w.params[1:]]
    vals = {"tup": ("T",), "handlers": [h], "group": [Record(handler=h)], "next_call": None}
    args = [me] + [vals.get(p, ("T",) if i == 0 else [h] if i == 1 else [Record(handler=h)] if i == 2 else None) for i, p in enumerate(params)]
    try:
        hi.call_function(w.node, args, {}, {})
    except (AnalysisError, Raised, TypeError, AttributeError, KeyError) as e:
        raise AnalysisError(f"{w.key}: not interpretable on a stand-in handler: {e}")
    if "args" not in got:
        raise AnalysisError(f"{w.key}: the generator is not called")
    return got["args"], got["kwargs"]


def _slf_param_by_interpretation(ctx, w, wcall, params):
    """The generator parameter that receives 'self, ' for a handler taking self and '' otherwise, or None."""
    from ..model import call_name

    try:
        a1, k1 = wrapper_hands_over(ctx, w, call_name(wcall), True)
        a0, k0 = wrapper_hands_over(ctx, w, call_name(wcall), False)
    except AnalysisError:
        return None
    b1 = dict(zip(params, a1), **k1)
    b0 = dict(zip(params, a0), **k0)
    hits = [p for p in params if b1.get(p) == "self, " and b0.get(p) == ""]
    return hits[0] if len(hits) == 1 else None


def _roles(ctx, w, wcall, params):
    """parameter of the generator -> role, from what the wrap site passes."""
    from ..model import call_name, dotted, str_value

    roles = {}
    passed = {}
    for i, a in enumerate(wcall.args):
        if i < len(params):
            passed[params[i]] = a
    for k in wcall.keywords:
        if k.arg:
            passed[k.arg] = k.value
    # arguments handed over through a local that is assigned once: classify by what was assigned
    for p, v in list(passed.items()):
        if isinstance(v, ast.Name):
            defs = [s.value for s in ast.walk(w.node) if isinstance(s, ast.Assign) and any(isinstance(t, ast.Name) and t.id == v.id for t in s.targets)]
            if len(defs) == 1 and isinstance(defs[0], (ast.Call, ast.JoinedStr, ast.BinOp)):
                passed[p] = defs[0]
    wp = [p for p in w.params if p not in ("self",)]
    # the wrapper's own parameters: (tup, handlers, group, next_call) identified by use
    errs = [p for p, v in passed.items() if isinstance(v, ast.Call) and len(v.args) == 2]
    for p, v in passed.items():
        d = dotted(v)
        if isinstance(v, ast.JoinedStr) or (isinstance(v, ast.Constant) and isinstance(v.value, str)) or (isinstance(v, ast.Call) and isinstance(v.func, ast.Attribute) and v.func.attr == "format") or (isinstance(v, ast.BinOp) and isinstance(v.op, (ast.Add, ast.Mod))):
            roles[p] = "name"
        elif isinstance(v, ast.Call) and len(v.args) == 2:
            second = v.args[1]
            if isinstance(second, ast.Tuple) and not second.elts:
                roles[p] = "nerr"
            else:
                roles[p] = "err"
        elif isinstance(v, ast.JoinedStr) or (isinstance(v, ast.Constant) and isinstance(v.value, str)) or (isinstance(v, ast.Call) and isinstance(v.func, ast.Attribute) and v.func.attr == "format"):
            roles[p] = "name"
    # parameters with a default that the wrapper fills from an attribute of the table (or not at all) are not among the
    # seven roles: the generator is interpreted with their default (whether handing over table state is sound is
    # decided by C19's rule on shared state)
    gen = A.dependent_generator(ctx.repo)
    a_ = gen.node.args
    with_default = {x.arg for x in (a_.posonlyargs + a_.args)[len(a_.posonlyargs + a_.args) - len(a_.defaults):]} | {k.arg for k, d in zip(a_.kwonlyargs, a_.kw_defaults) if d is not None}
    for p in list(params):
        v = passed.get(p)
        if p in with_default and p not in roles and (v is None or (isinstance(v, ast.Attribute) and isinstance(v.value, ast.Name) and v.value.id == w.params[0])):
            roles[p] = "extra"
    # remaining four in positional order of the generator: type tuple, handlers, next, self prefix
    rest = [p for p in params if p not in roles]
    if len(rest) != 4:
        raise AnalysisError(f"{w.key}: cannot tell the generator's arguments apart ({sorted(roles.items())}, rest {rest})")
    # the self prefix is the one local assigned a string / conditional string in the wrapper
    str_locals = set()
    for s in ast.walk(w.node):
        if isinstance(s, ast.Assign) and isinstance(s.targets[0], ast.Name):
            v = s.value
            vals = [v.body, v.orelse] if isinstance(v, ast.IfExp) else [v]
            if all(isinstance(x, ast.Constant) and isinstance(x.value, str) for x in vals):
                str_locals.add(s.targets[0].id)
    slf = [p for p in rest if dotted(passed.get(p)) in str_locals]
    if len(slf) != 1:
        by_run = _slf_param_by_interpretation(ctx, w, wcall, params)
        slf = [by_run] if by_run in rest else slf
    if len(slf) != 1:
        raise AnalysisError(f"{w.key}: the self prefix handed to the generator was not found")
    roles[slf[0]] = "slf"
    rest = [p for p in rest if p != slf[0]]
    # next: the wrapper parameter handed through unchanged that is not the first two
    for p, role in zip(rest, ("tup", "handlers", "next")):
        roles[p] = role
    return roles


def generated(ctx):
    if "dependent_dispatchers" not in ctx.cache:
        ctx.cache["dependent_dispatchers"] = {name: Generated(ctx, name) for name in CONFIGS}
    return ctx.cache["dependent_dispatchers"]


def _fmt_out(o):
    if not isinstance(o, tuple):
        return repr(o)
    if o[0] == "call":
        kw = ", ".join(f"{k}={v!r}" for k, v in o[3].items())
        return f"{o[1]!r}({', '.join(repr(x) for x in o[2])}{', ' + kw if kw else ''})"
    if o[0] == "raise":
        v = o[1]
        return f"raise {getattr(v, 'kind', v)}"
    return f"{o[0]}: {o[1]}"


def check(ctx, cfg_name):
    """-> dict law -> list of problems."""
    g = generated(ctx)[cfg_name]
    cfg = CONFIGS[cfg_name]
    problems = {"decision": [], "hand-over": [], "signature": [], "injection": [], "check-placement": [], "result": [], "pure-handover": [], "only-dependent-checks": []}
    # ---- the plain classes of the signatures were settled by the table lookup: the dispatcher does not test them again
    for n_, v_ in g.inject.items():
        if isinstance(v_, DType) and not v_.dep:
            problems["only-dependent-checks"].append(f"the plain type {v_!r} is injected as `{n_}` and tested on every call")
        if isinstance(v_, Checker) and not v_.t.dep:
            problems["only-dependent-checks"].append(f"a check of the plain type {v_.t!r} is injected as `{n_}` and run on every call")
    if g.fn is None:
        for k in problems:
            problems[k].append(f"the generated dispatcher does not parse: {g.syntax_error}")
        return problems, 0
    # ---- signature
    a = g.fn.args
    got = [x.arg for x in a.posonlyargs + a.args]
    want_n = (1 if cfg["slf"] else 0) + len(cfg["args"])
    if len(got) != want_n or a.vararg or a.kwarg or a.kwonlyargs:
        problems["signature"].append(f"parameters {got}, expected {want_n} plain parameters")
    if cfg["slf"] and got[:1] != ["self"]:
        problems["signature"].append(f"first parameter {got[:1]} instead of self")
    for k, name in zip(cfg["args"], got[1 if cfg["slf"] else 0:]):
        if not isinstance(k, int) and name != k:
            problems["signature"].append(f"keyword position {k} is received as parameter {name}")
    if len(set(got)) != len(got):
        problems["signature"].append(f"duplicate parameter names {got}")
    # ---- injection
    inj_handlers = {n: v for n, v in g.inject.items() if isinstance(v, Handler)}
    toks = [tok for tok, _ in g.handlers]
    uses_table = any(isinstance(v, dict) and any(isinstance(x, Handler) for x in v.values()) for v in g.inject.values())
    for tok in toks:
        if tok not in inj_handlers.values() and not uses_table:
            problems["injection"].append(f"handler {tok} is not reachable from the generated code")
    # ---- pure hand-over: a callee's call is the operand of `return`, nothing wraps or catches it
    callee_names = {n for n, v in g.inject.items() if isinstance(v, (Handler, Closure))}
    # locals that hold a callee: looked up in an injected table (`.get(..)` or a subscript) or copied from a callee name
    grew = True
    while grew:
        grew = False
        for st in ast.walk(g.fn):
            if not isinstance(st, ast.Assign):
                continue
            v = st.value
            holds = (
                (isinstance(v, ast.Call) and isinstance(v.func, ast.Attribute) and v.func.attr == "get")
                or (isinstance(v, ast.Subscript) and isinstance(v.value, ast.Name) and isinstance(g.inject.get(v.value.id), dict))
                or (isinstance(v, ast.Name) and v.id in callee_names)
            )
            new_names = {t.id for t in st.targets if isinstance(t, ast.Name)} - callee_names
            if holds and new_names:
                callee_names |= new_names
                grew = True
    returned = {id(st.value) for st in ast.walk(g.fn) if isinstance(st, ast.Return) and st.value is not None}

    def _callee_calls(root):
        return [c for c in ast.walk(root) if isinstance(c, ast.Call) and isinstance(c.func, ast.Name) and c.func.id in callee_names]

    for c in _callee_calls(g.fn):
        if id(c) not in returned:
            problems["pure-handover"].append(f"`{ast.unparse(c)[:60]}` is called but its result is not returned as it is")
    # a try / with is a problem when a callee runs inside it (a lookup alone under try is not a hand-over)
    for x in ast.walk(g.fn):
        if isinstance(x, (ast.Try, ast.With)) and _callee_calls(x):
            problems["pure-handover"].append("the dispatcher encloses the hand-over in try / with")
            break
    # ---- result
    r = g.result
    ok = isinstance(r, Record) and ((getattr(r, "kind", "") == "instantiated") or (getattr(r, "kind", "") == "post" and any(isinstance(x, Record) and getattr(x, "kind", "") == "instantiated" for x in list(r.args) + list(r.kwargs.values()))))
    if not ok:
        problems["result"].append("the generator does not return the function it instantiated")
    elif getattr(r, "kind", "") == "post" and g.name not in list(r.args) + list(r.kwargs.values()):
        problems["result"].append("the dispatcher is not given the name the table chose for it")
    # ---- decision / hand-over, on every value vector
    n = 0
    if problems["signature"]:
        return problems, n
    for vals in itertools.product(*g.domains()):
        n += 1
        want = g.expected(vals)
        got_out, misuse = g.run(vals)
        for m in misuse:
            if m not in problems["check-placement"]:
                problems["check-placement"].append(m)
        if not isinstance(got_out, tuple):
            problems["decision"].append(f"for {list(vals)} the dispatcher returns {got_out!r} instead of calling a handler")
            continue
        if got_out[0] != want[0] or got_out[1] is not want[1]:
            if len(problems["decision"]) < 3:
                problems["decision"].append(f"for {list(vals)} the dispatcher does `{_fmt_out(got_out)}`, the property requires `{_fmt_out(want)}`")
            continue
        if want[0] == "call" and (got_out[2] != want[2] or got_out[3] != want[3]):
            if len(problems["hand-over"]) < 3:
                problems["hand-over"].append(f"for {list(vals)} the dispatcher does `{_fmt_out(got_out)}`, the property requires `{_fmt_out(want)}`")
    return problems, n


LAW_TEXT = {
    "decision": (
        "for every combination of argument values: exactly one handler's conditions hold -> that handler; none -> the next rank (or the no-method error); several -> the rank's ambiguity error",
        "a value-dependent method runs although its condition is false, is skipped although it holds, or an ambiguity / fall-through is decided wrongly",
    ),
    "hand-over": ("the chosen handler / fall-through receives every argument of the call, in order, self first, keyword positions by name", "the callee sees other arguments than the caller passed"),
    "signature": ("the dispatcher takes self (for methods) and one parameter per dispatched position, keyword positions under their own names", "the dispatcher cannot be called the way the entry point calls it"),
    "injection": ("every handler of the rank is reachable from the generated code", "a handler of the rank can never be chosen"),
    "check-placement": ("each type's check is applied to the argument of the position the type was declared at", "a condition is evaluated on another argument than the one it was declared for"),
    "pure-handover": ("the chosen callee's call is the operand of `return`: its result and its exceptions reach the caller unchanged", "the dispatcher post-processes the method's result or catches its exceptions"),
    "only-dependent-checks": ("the dispatcher tests value-dependent types only: plain classes were settled by the (cached) table lookup", "a class predicate is consulted again on every call although the type combination is cached"),
    "result": ("the generator returns the instantiated dispatcher (renamed for the table)", "the table stores something else than the dispatcher"),
}


def law(ctx, *names, configs=None):
    gen = A.dependent_generator(ctx.repo)
    ctx.touch(gen)
    for cfg in configs or CONFIGS:
        if "dependent_checked" not in ctx.cache:
            ctx.cache["dependent_checked"] = {}
        if cfg not in ctx.cache["dependent_checked"]:
            ctx.cache["dependent_checked"][cfg] = check(ctx, cfg)
        probs, n = ctx.cache["dependent_checked"][cfg]
        for name in names:
            text, why = LAW_TEXT[name]
            ps = probs[name]
            ctx.ob(
                f"{gen.key}:{name}:{cfg}",
                gen.loc(),
                f"[{cfg}] {text} (dispatcher obtained by abstractly executing the generator; {n} value vectors interpreted)",
                not ps,
                "; ".join(ps[:3]) + ": " + why,
            )


def with_fallback(ctx, laws, fallback, configs=None):
    """Decide on the abstractly executed dispatchers; if the generator uses a construct the interpreter does not
    model, fall back to reading its emission skeleton."""
    n0 = len(ctx.obs)
    try:
        law(ctx, *laws, configs=configs)
    except AnalysisError as e:
        del ctx.obs[n0:]
        if fallback is not None:
            from .common import run_fallback

            run_fallback(ctx, fallback, e, "dependent generator")
        else:
            raise
