"""C01 - a method only ever runs on arguments its declared signature accepts."""

import ast

from .. import anchors as A
from ..cfg import all_stmts
from ..model import AnalysisError, call_name, dotted, is_self_attr, short, src
from ..norm import atom_str, atoms
from .c05 import lookup_path
from .common import cfg_of, recv_name


# ------------------------------------------------------------------ R1
def r1_filter_feeds_rank(ctx):
    from . import sortexec
    from .common import run_fallback

    n0 = len(ctx.obs)
    try:
        sortexec.law(ctx, "only-applicable", "layers")
    except AnalysisError as e:
        del ctx.obs[n0:]
        run_fallback(ctx, _r1_filter_feeds_rank_shape, e, "layer sorter")


def _r1_filter_feeds_rank_shape(ctx):
    repo = ctx.repo
    f = A.layer_sorter(repo)
    sc = A.subclasscheck_fn(repo)
    ctx.touch(f, sc)
    ctx.require(len(f.params) >= 2, f"{f.key}: expected (queried type, available types)")
    q, av = f.params[0], f.params[1]
    # the filter: a comprehension over the available types conditioned on subclasscheck(q, elt)
    filt = None
    for st in all_stmts(f.node):
        if isinstance(st, ast.Assign) and isinstance(st.value, (ast.ListComp, ast.SetComp, ast.GeneratorExp)):
            comp = st.value
            g = comp.generators[0]
            if dotted(g.iter) == av and len(comp.generators) == 1:
                filt = (st, comp, g)
                break
    resolved = repo.resolve_name(f.module, sc.name)
    ctx.require(resolved and resolved[1] is sc, f"{f.key}: the name {sc.name} does not resolve to the subtype function here")
    ok = False
    detail = f"the available types are not filtered by {sc.name}({q}, <type>) before they are ranked: a registered type the argument's class is not a subtype of gets a level and its method becomes a candidate"
    if filt:
        st, comp, g = filt
        var = dotted(g.target)
        conds = [c for c in g.ifs]
        for c in conds:
            for a in atoms(c):
                if a[0] == "truthy" and isinstance(a[1], ast.Call) and call_name(a[1]) == sc.name and len(a[1].args) == 2:
                    if dotted(a[1].args[0]) == q and dotted(a[1].args[1]) == var:
                        ok = True
                    else:
                        detail = f"`{short(a[1], 50)}` passes its operands in the wrong order (expected {sc.name}({q}, {var})): supertypes are filtered as if they were subtypes"
        elt_ok = dotted(comp.elt) == var
        ok = ok and elt_ok
    ctx.ob(
        f"{f.key}:applicability-filter",
        f.loc(filt[0]) if filt else f.loc(),
        f"the types that are ranked are those t with {sc.name}({q}, t)",
        ok,
        detail,
    )
    if not filt:
        return
    st, comp, g = filt
    tgt = st.targets[0].id if isinstance(st.targets[0], ast.Name) else None
    ctx.require(tgt is not None, f"{f.key}: the filtered collection is not bound to a name")
    cfg = cfg_of(ctx, f)
    fnode = cfg.node_of(st)
    # the unfiltered collection is not used after (or beside) the filter
    bad_uses = []
    for s in all_stmts(f.node):
        if s is st or isinstance(s, (ast.FunctionDef, ast.ClassDef)):
            continue
        from ..cfg import header_exprs

        for e in header_exprs(s):
            for n in ast.walk(e):
                if isinstance(n, ast.Name) and n.id == av and isinstance(n.ctx, ast.Load):
                    if tgt != av or not cfg.dominated_by(cfg.node_of(s), [fnode]):
                        bad_uses.append(s)
    ctx.ob(
        f"{f.key}:unfiltered-unused",
        f.loc(bad_uses[0]) if bad_uses else f.loc(st),
        "the unfiltered collection is not used once the filter has been applied",
        not bad_uses,
        f"`{short(bad_uses[0], 60)}` still reads the unfiltered types: inapplicable types enter the ranking" if bad_uses else "",
    )
    # the sorter's graph is built from the filtered collection
    ts = [c for c in ast.walk(f.node) if isinstance(c, ast.Call) and call_name(c) == "TopologicalSorter"]
    arg = ts[0].args[0] if ts and ts[0].args else None
    graph_ok = False

    def built_from(v, name, at_stmt, depth=0):
        """Is the graph expression v keyed by the elements of `name` (directly, or through a helper given `name`)?"""
        if isinstance(v, ast.DictComp):
            return dotted(v.generators[0].iter) == name
        if isinstance(v, ast.Call) and call_name(v) in ("dict", "dict.fromkeys") and v.args:
            return any(isinstance(x, ast.Name) and x.id == name for x in ast.walk(v.args[0]))
        if isinstance(v, ast.Call) and isinstance(v.func, ast.Name) and depth < 2:
            r = repo.resolve_name(f.module, v.func.id)
            if r and r[0] == "func":
                h = r[1]
                for i, a in enumerate(v.args):
                    if dotted(a) == name and i < len(h.params):
                        hp = h.params[i]
                        rets = [x.value for x in ast.walk(h.node) if isinstance(x, ast.Return) and x.value is not None]
                        for rv_ in rets:
                            if isinstance(rv_, ast.Name):
                                for s2 in ast.walk(h.node):
                                    if isinstance(s2, ast.Assign) and any(dotted(t) == rv_.id for t in s2.targets) and built_from(s2.value, hp, s2, depth + 1):
                                        ctx.touch(h)
                                        return True
                            elif built_from(rv_, hp, None, depth + 1):
                                ctx.touch(h)
                                return True
        return False

    if isinstance(arg, ast.Name):
        for s in all_stmts(f.node):
            if isinstance(s, ast.Assign) and any(isinstance(t, ast.Name) and t.id == arg.id for t in s.targets):
                if built_from(s.value, tgt, s) and cfg.dominated_by(cfg.node_of(s), [fnode]):
                    graph_ok = True
    elif arg is not None:
        graph_ok = built_from(arg, tgt, None)
    ctx.ob(
        f"{f.key}:graph-from-filtered",
        f.loc(ts[0]),
        "every node of the layer graph comes from the filtered collection",
        graph_ok,
        "the layer graph is not built from the filtered collection",
    )


# ------------------------------------------------------------------ R2
def candidates_fn(ctx):
    """The method of the multi-position table that builds and ranks the candidate set."""
    multi = A.multimap(ctx.repo)
    lp = lookup_path(ctx, multi)
    gens = [m for m in lp if any(isinstance(x, (ast.Yield, ast.YieldFrom)) for c in m.children.values() for x in ast.walk(c.node))]
    if len(gens) == 1:
        return gens[0]
    cands = []
    for m in lp:
        rv = recv_name(m)
        if any(isinstance(n, ast.Subscript) and is_self_attr(n.value, "maps", selfname=rv) for n in ast.walk(m.node)):
            cands.append(m)
    ctx.require(len(cands) == 1, f"expected one method reading the per-position tables on the lookup path, found {[c.key for c in cands]}")
    return cands[0]


def _vararg_dead(ctx):
    """Constant-propagation fact: every construction of the signature record passes vararg=False."""
    sig = A.signature_class(ctx.repo)
    sites = []
    for f in ctx.repo.all_funcs():
        for c in ast.walk(f.node):
            if isinstance(c, ast.Call):
                cn = call_name(c)
                if cn == sig.name or (cn == "cls" and f.cls is sig):
                    sites.append((f, c))
    if not sites:
        return False, "no construction of the signature record found"
    for f, c in sites:
        kw = [k for k in c.keywords if k.arg == "vararg"]
        if not kw or not (isinstance(kw[0].value, ast.Constant) and kw[0].value.value is False):
            return False, f"{f.loc(c)} constructs a signature with a non-constant vararg"
    return True, f"{len(sites)} construction site(s), all vararg=False"


def _is_key_filter(comp_or_iter, keyparam, want_tuple):
    """generators: `for v in keyparam if [not] isinstance(v, tuple)`"""
    g = comp_or_iter.generators
    if len(g) != 1 or dotted(g[0].iter) != keyparam or len(g[0].ifs) != 1:
        return None
    v = dotted(g[0].target)
    a = atoms(g[0].ifs[0])
    if len(a) != 1:
        return None
    kind, e = a[0][0], a[0][1]
    if kind not in ("truthy", "falsy") or not (isinstance(e, ast.Call) and call_name(e) == "isinstance" and dotted(e.args[0]) == v and dotted(e.args[1]) == "tuple"):
        return None
    if (kind == "truthy") != want_tuple:
        return None
    return v


def _nargs_def_ok(value, keyparam):
    if isinstance(value, ast.Call) and call_name(value) == "len" and len(value.args) == 1 and isinstance(value.args[0], (ast.ListComp, ast.GeneratorExp, ast.SetComp)):
        return _is_key_filter(value.args[0], keyparam, False) is not None
    if isinstance(value, ast.Call) and call_name(value) == "sum" and len(value.args) == 1 and isinstance(value.args[0], ast.GeneratorExp):
        ge = value.args[0]
        if _is_key_filter(ge, keyparam, False) is not None and isinstance(ge.elt, ast.Constant) and ge.elt.value == 1:
            return True
        if len(ge.generators) == 1 and dotted(ge.generators[0].iter) == keyparam and not ge.generators[0].ifs:
            a = atoms(ge.elt)
            v = dotted(ge.generators[0].target)
            return len(a) == 1 and a[0][0] == "falsy" and isinstance(a[0][1], ast.Call) and call_name(a[0][1]) == "isinstance" and dotted(a[0][1].args[0]) == v and dotted(a[0][1].args[1]) == "tuple"
    return False


def _names_def_ok(value, keyparam):
    if isinstance(value, ast.SetComp) or (isinstance(value, ast.Call) and call_name(value) in ("set", "frozenset") and value.args and isinstance(value.args[0], (ast.GeneratorExp, ast.ListComp))):
        comp = value if isinstance(value, ast.SetComp) else value.args[0]
        v = _is_key_filter(comp, keyparam, True)
        if v is None:
            return False
        e = comp.elt
        return isinstance(e, ast.Subscript) and dotted(e.value) == v and isinstance(e.slice, ast.Constant) and e.slice.value == 0
    return False


def _maps_index(ctx, m, expr, depth=0):
    """If expr reads the per-position table `self.maps[idx][...]` (directly, through a local, or through a helper of
    the class that returns it), return the idx expression."""
    rv = recv_name(m)
    for b in ast.walk(expr):
        if isinstance(b, ast.Subscript) and is_self_attr(b.value, "maps", selfname=rv):
            return b.slice
    if isinstance(expr, ast.Name) and depth < 3:
        for s in all_stmts(m.node):
            if isinstance(s, ast.Assign) and any(isinstance(t, ast.Name) and t.id == expr.id for t in s.targets):
                r = _maps_index(ctx, m, s.value, depth + 1)
                if r is not None:
                    return r
    for c in ast.walk(expr):
        if isinstance(c, ast.Call) and is_self_attr(c.func, selfname=rv) and m.cls is not None and depth < 3:
            h = ctx.repo.find_method(m.cls, c.func.attr)
            if h is not None and h is not m:
                hrv = recv_name(h)
                hp = [p for p in h.params if p != hrv]
                for b in ast.walk(h.node):
                    if isinstance(b, ast.Subscript) and is_self_attr(b.value, "maps", selfname=hrv) and isinstance(b.slice, ast.Name) and b.slice.id in hp:
                        i = hp.index(b.slice.id)
                        if i < len(c.args):
                            return c.args[i]
    return None


def _is_negative(idx):
    return (isinstance(idx, ast.UnaryOp) and isinstance(idx.op, ast.USub)) or (isinstance(idx, ast.Constant) and isinstance(idx.value, int) and idx.value < 0)


def _expand_bool_locals(m, ats, depth=0):
    """A truthy/falsy atom over a local that is assigned once from a condition is replaced by that condition's atoms."""
    out = []
    for a in ats:
        if a[0] in ("truthy", "falsy") and isinstance(a[1], ast.Name) and depth < 3:
            defs = [s for s in all_stmts(m.node) if isinstance(s, ast.Assign) and any(isinstance(t, ast.Name) and t.id == a[1].id for t in s.targets)]
            if len(defs) == 1 and isinstance(defs[0].value, (ast.BoolOp, ast.Compare, ast.UnaryOp)):
                out += _expand_bool_locals(m, atoms(defs[0].value, negate=a[0] == "falsy"), depth + 1)
                continue
        out.append(a)
    return out


def arity_filter(ctx):
    """-> (method, key parameter, (anchor node, atoms) of the per-position filter, list of var-positional legs)."""
    from .common import path_atoms

    m = candidates_fn(ctx)
    rv = recv_name(m)
    keyparam = [p for p in m.params if p != rv][0]
    sites = []
    for n in ast.walk(m.node):
        gens = []
        if isinstance(n, (ast.DictComp, ast.ListComp, ast.SetComp, ast.GeneratorExp)):
            gens = [(g.target, g.iter, "comp", n, g) for g in n.generators]
        elif isinstance(n, ast.For):
            gens = [(n.target, n.iter, "loop", n, None)]
        for target, it, kind, node, g in gens:
            if not (isinstance(it, ast.Call) and isinstance(it.func, ast.Attribute) and it.func.attr == "items"):
                continue
            if not (isinstance(target, ast.Tuple) and any(isinstance(e, ast.Tuple) for e in target.elts)):
                continue
            idx = _maps_index(ctx, m, it.func.value)
            if idx is None:
                continue
            if kind == "comp":
                ats = []
                for c in g.ifs:
                    ats += atoms(c)
            else:
                # the store(s) in the loop body: conditions under which a handler is kept
                stores = [s for b in node.body for s in ast.walk(b) if isinstance(s, ast.Assign) and isinstance(s.targets[0], ast.Subscript)]
                ats = []
                if stores:
                    inner = path_atoms(m.node, stores[0])
                    outer = path_atoms(m.node, node)
                    ats = [a for a in inner if not any(a is o for o in outer)][: len(inner) - len(outer)] if len(inner) >= len(outer) else inner
            ats = _expand_bool_locals(m, ats)
            sites.append(("leg" if _is_negative(idx) else "main", node, ats))
    main = [s for s in sites if s[0] == "main"]
    legs = [s for s in sites if s[0] == "leg"]
    ctx.require(len(main) == 1, f"{m.key}: expected one filter over the per-position candidates, found {len(main)}")
    return m, keyparam, main[0], legs


def r2_arity_keyword_filter(ctx, strict_extra=False):
    from . import mroexec
    from .common import run_fallback

    n0 = len(ctx.obs)
    try:
        mroexec.law(ctx, "candidates", "specificity")
    except AnalysisError as e:
        del ctx.obs[n0:]
        run_fallback(ctx, lambda c: _r2_arity_keyword_filter_shape(c, strict_extra), e, "candidate ranking")


def _r2_arity_keyword_filter_shape(ctx, strict_extra=False):
    m, keyparam, (_kind, st, conj), legs = arity_filter(ctx)
    ctx.touch(m)
    # locals
    defs = {}
    for s in all_stmts(m.node):
        if isinstance(s, ast.Assign) and len(s.targets) == 1 and isinstance(s.targets[0], ast.Name):
            defs.setdefault(s.targets[0].id, []).append(s.value)
    nargs_vars = {n for n, vs in defs.items() if len(vs) == 1 and _nargs_def_ok(vs[0], keyparam)}
    names_vars = {n for n, vs in defs.items() if len(vs) == 1 and _names_def_ok(vs[0], keyparam)}
    found = {"req_pos": None, "max_pos": None, "req_names": None}
    extra = []

    def is_attr(e, name):
        return isinstance(e, ast.Attribute) and e.attr == name

    def upper(e):
        if is_attr(e, "max_pos"):
            return True
        if isinstance(e, ast.IfExp) and is_attr(e.test, "vararg") and is_attr(e.orelse, "max_pos"):
            return True
        return False

    for a in conj:
        if a[0] == "le" and is_attr(a[1], "req_pos") and isinstance(a[2], ast.Name):
            found["req_pos"] = (a, a[2].id in nargs_vars and a[3] == 0)
        elif a[0] == "le" and isinstance(a[1], ast.Name) and upper(a[2]):
            found["max_pos"] = (a, a[1].id in nargs_vars and a[3] == 0)
        elif a[0] == "falsy" and isinstance(a[1], ast.BinOp) and isinstance(a[1].op, ast.Sub) and is_attr(a[1].left, "req_names") and isinstance(a[1].right, ast.Name):
            found["req_names"] = (a, a[1].right.id in names_vars)
        elif a[0] == "le" and is_attr(a[1], "req_names") and isinstance(a[2], ast.Name):
            found["req_names"] = (a, a[2].id in names_vars and a[3] == 0)
        elif a[0] == "truthy" and isinstance(a[1], ast.Call) and isinstance(a[1].func, ast.Attribute) and a[1].func.attr == "issubset" and is_attr(a[1].func.value, "req_names"):
            found["req_names"] = (a, dotted(a[1].args[0]) in names_vars)
        else:
            extra.append(a)
    texts = {
        "req_pos": ("at least the required positionals are supplied (sig.req_pos <= number of positional arguments)", "a call with too few positional arguments enters a method that requires more"),
        "max_pos": ("no more positionals than the method accepts (number of positional arguments <= sig.max_pos, offset 0)", "a call with too many positional arguments is dispatched to a method that cannot take them"),
        "req_names": ("every required keyword-only parameter was supplied (sig.req_names - supplied names is empty)", "a call that omits a required keyword-only argument is dispatched to the method anyway"),
    }
    if not strict_extra:
        for k, (text, why) in texts.items():
            hit = found[k]
            ctx.ob(
                f"{m.key}:filter:{k}",
                m.loc(st),
                f"a candidate is kept only if {text}",
                bool(hit and hit[1]),
                (f"the conjunct is present as `{atom_str(hit[0])}` but with a wrong offset or over the wrong quantity: {why}" if hit else f"the applicability filter has no such conjunct: {why}"),
            )
        ok_defs = bool(nargs_vars) and bool(names_vars)
        ctx.ob(
            f"{m.key}:filter:counts",
            m.loc(),
            "the positional count covers exactly the non-tuple key entries and the supplied names exactly the first components of the tuple entries",
            ok_defs,
            "the positional count / supplied-name set are not computed from the key as the filter assumes",
        )
        dead, why = _vararg_dead(ctx)
        for _k, lnode, _ats in legs:
            ctx.ob(
                f"{m.key}:vararg-leg-dead",
                m.loc(lnode),
                f"the var-positional leg (`{short(lnode, 40)}`) cannot contribute candidates: {why}",
                dead,
                f"the var-positional leg is live ({why}) and does not apply the arity / keyword filter",
            )
    else:
        ctx.ob(
            f"{m.key}:filter:no-extra-conjunct",
            m.loc(st),
            "the applicability filter rejects a candidate only for arity or a missing required keyword",
            not extra,
            f"extra conjunct `{atom_str(extra[0])}` rejects call shapes the method's signature accepts" if extra else "",
        )
    return found, extra


# ------------------------------------------------------------------ R3
def r3_candidates_only_narrow(ctx):
    """Decided on the interpreted ranking (a key whose first argument nothing applies to, and one where two methods
    apply at different arguments only, have no candidates); the statement shapes below are the fallback."""
    from . import mroexec

    n0 = len(ctx.obs)
    try:
        mroexec.law(ctx, "candidates", scenarios=["nothing-at-the-first-argument", "nothing-at-one-argument"])
        return
    except AnalysisError:
        del ctx.obs[n0:]
    _r3_candidates_only_narrow_shape(ctx)


def _r3_candidates_only_narrow_shape(ctx):
    m = candidates_fn(ctx)
    ctx.touch(m)
    hits = []
    for st in all_stmts(m.node):
        if isinstance(st, ast.If) and st.orelse:
            seeded = [s for s in st.body if isinstance(s, ast.Assign) and isinstance(s.targets[0], ast.Name) and isinstance(s.value, ast.Call) and call_name(s.value) in ("set", "frozenset")]
            if seeded and any(isinstance(x, ast.Name) and x.id == seeded[0].targets[0].id for x in ast.walk(st.test)):
                hits.append((st, seeded[0].targets[0].id))
    ctx.require(hits, f"{m.key}: the seeding of the candidate set from the first position's candidates was not found")
    for st, name in hits:
        t = st.test
        is_none = isinstance(t, ast.Compare) and len(t.ops) == 1 and isinstance(t.ops[0], ast.Is) and dotted(t.left) == name and isinstance(t.comparators[0], ast.Constant) and t.comparators[0].value is None
        ctx.ob(
            f"{m.key}:{name}:seeded-once",
            m.loc(st),
            f"the candidate set is seeded only while it is still uninitialised (`{name} is None`), never again once a position has emptied it",
            is_none,
            f"`if {short(t, 40)}:` also re-seeds a candidate set that an earlier argument has already narrowed to nothing: a method that does not accept the first argument becomes a candidate through a later one",
        )
    hits = [st for st, name in hits]
    names_of = {id(st): [s for s in st.body if isinstance(s, ast.Assign)][0].targets[0].id for st in hits}
    for st in hits:
        name = names_of[id(st)]
        ok = bool(st.orelse)
        bad = None
        for s in st.orelse:
            good = False
            if isinstance(s, ast.AugAssign) and isinstance(s.target, ast.Name) and s.target.id == name and isinstance(s.op, ast.BitAnd):
                good = True
            elif isinstance(s, ast.Expr) and isinstance(s.value, ast.Call) and isinstance(s.value.func, ast.Attribute) and s.value.func.attr == "intersection_update" and dotted(s.value.func.value) == name:
                good = True
            elif isinstance(s, ast.Assign) and any(isinstance(t, ast.Name) and t.id == name for t in s.targets):
                v = s.value
                good = (isinstance(v, ast.BinOp) and isinstance(v.op, ast.BitAnd) and name in (dotted(v.left), dotted(v.right))) or (isinstance(v, ast.Call) and isinstance(v.func, ast.Attribute) and v.func.attr == "intersection" and dotted(v.func.value) == name)
            if not good:
                ok = False
                bad = s
        # other writes to the name elsewhere in the loop
        ctx.ob(
            f"{m.key}:{name}:narrow-only",
            m.loc(st),
            f"after the first position the candidate set `{name}` is only intersected with each later position's candidates",
            ok,
            f"`{short(bad, 50)}` updates the candidate set other than by intersection: a method that does not accept one of the arguments stays a candidate" if bad is not None else "no narrowing step",
        )


# ------------------------------------------------------------------ R6
def r6_bound_before_predicate(ctx):
    dm = A.dependent_meta(ctx.repo)
    ic = dm.methods.get("__instancecheck__")
    ctx.require(ic is not None, f"{dm.key} has no __instancecheck__")
    ctx.touch(ic)
    rv = recv_name(ic)
    arg = [p for p in ic.params if p != rv][0]
    from .common import holds_at

    checks = [c for c in ast.walk(ic.node) if isinstance(c, ast.Call) and is_self_attr(c.func, "check", selfname=rv)]
    ok = bool(checks)

    def bound_test(a):
        return a[0] == "truthy" and isinstance(a[1], ast.Call) and call_name(a[1]) == "isinstance" and len(a[1].args) == 2 and dotted(a[1].args[0]) == arg and is_self_attr(a[1].args[1], "bound", selfname=rv)

    for c in checks:
        ok = ok and [dotted(x) for x in c.args] == [arg] and holds_at(ctx, ic, c, bound_test)
    # and the result is that conjunction: no return bypasses the predicate with a truthy constant
    for r in [n for n in ast.walk(ic.node) if isinstance(n, ast.Return) and n.value is not None]:
        v = r.value
        if isinstance(v, ast.Constant) and v.value:
            ok = False
    ctx.ob(
        f"{ic.key}:bound-first",
        ic.loc(),
        "isinstance(value, dependent type) evaluates the condition only where the bound test has already succeeded (short-circuit conjunction or early exit)",
        ok,
        "the condition is evaluated without (or before) the bound test: a user predicate runs on a value outside its bound, and a value outside the bound can match",
    )


def r4_key_and_argument_agree(ctx):
    from .c03 import r2_one_name_three_roles
    from .c09 import r3_each_argument_once

    r2_one_name_three_roles(ctx)
    r3_each_argument_once(ctx)


def r5_value_checks_cover_every_dependent_parameter(ctx):
    from .c10 import r2

    r2(ctx)


def _more(name):
    def run(ctx):
        from . import more

        getattr(more, name)(ctx)

    run.__name__ = name
    return run


RULES = [
    ("C01.R4", "P1", r4_key_and_argument_agree, "key and forwarded argument agree (entry point and rewritten call sites)"),
    ("C01.R5", "P1", r5_value_checks_cover_every_dependent_parameter, "value checks are installed for every dependent parameter"),
    ("C01.R1", "P1", r1_filter_feeds_rank, "applicability filter feeds the ranking"),
    ("C01.R2", "P1", r2_arity_keyword_filter, "arity / required-keyword filter"),
    ("C01.R3", "P1", r3_candidates_only_narrow, "candidates only narrow"),
    ("C01.R6", "P1", r6_bound_before_predicate, "bound before predicate"),
    ("C01.R7", "P1", _more("hash_reads_what_eq_compares"), "equality of dependent types covers every constructor field; hash consults only what equality compares"),
]
