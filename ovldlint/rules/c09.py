"""C09 - source rewriting changes nothing except the recurse/call_next call sites."""

import ast
import re

from .. import anchors as A
from ..cfg import all_stmts
from ..effects import stmt_calls
from ..model import AnalysisError, call_name, dotted, is_self_attr, parent_map, short, src, str_value
from .common import cfg_of, recv_name


# ----------------------------------------------------------------- R1 copy sites
def _copy_sites(ctx):
    """FunctionType(...) constructions whose code derives from a function handed to the enclosing function."""
    sites = []
    for f in ctx.repo.all_funcs():
        for st in all_stmts(f.node):
            if isinstance(st, (ast.FunctionDef, ast.ClassDef)) or hasattr(st, "body"):
                continue
            for c in ast.walk(st):
                if isinstance(c, ast.Call) and call_name(c) in ("FunctionType", "types.FunctionType"):
                    sites.append((f, st, c))
    return sites


def _source_param(f, call):
    """The parameter function whose attributes the copy takes (by majority of <p>.__x__ arguments)."""
    counts = {}
    for a in list(call.args) + [k.value for k in call.keywords]:
        for n in ast.walk(a):
            if isinstance(n, ast.Attribute) and n.attr.startswith("__") and isinstance(n.value, ast.Name):
                counts[n.value.id] = counts.get(n.value.id, 0) + 1
    if not counts:
        return None
    return max(counts, key=counts.get)


def copy_carries_everything(ctx):
    repo = ctx.repo
    sites = _copy_sites(ctx)
    ctx.require(len(sites) >= 2, "fewer FunctionType construction sites than the registration path needs")
    adapter = A.adapter(repo)
    rc = A.recompiler(repo)
    reg_path = {rc.key}
    for c in ast.walk(adapter.node):
        if isinstance(c, ast.Call) and isinstance(c.func, ast.Name):
            r = repo.resolve_name(adapter.module, c.func.id)
            if r and r[0] == "func":
                reg_path.add(r[1].key)
    n = 0
    for f, st, call in sites:
        srcp = _source_param(f, call)
        code_arg = call.args[0] if call.args else None
        # a copy of a user method: the source is a parameter of the function (or of the enclosing method)
        is_param = srcp in f.params
        if f.key not in reg_path:
            if is_param or (srcp and f.cls is not None):
                ctx.note(f"{f.key} ({f.loc(call)}) also copies a function with FunctionType but is not on the registration path; no property covers it")
            continue
        ctx.require(is_param, f"{f.loc(call)}: cannot tell which function this FunctionType(...) copies")
        ctx.touch(f)
        # FunctionType(code, globals, name=None, argdefs=None, closure=None): positional or by keyword
        args = list(call.args)
        order = ["code", "globals", "name", "argdefs", "closure"]
        kwmap = {k.arg: k.value for k in call.keywords if k.arg}
        args = args + [kwmap.get(nm) for nm in order[len(args):]]
        while args and args[-1] is None:
            args.pop()
        code_arg = args[0] if args else None

        def attr_of(e, name):
            return isinstance(e, ast.Attribute) and e.attr == name and dotted(e.value) == srcp

        ok_glob = len(args) > 1 and attr_of(args[1], "__globals__")
        ok_def = len(args) > 3 and attr_of(args[3], "__defaults__")
        clo = args[4] if len(args) > 4 else None
        ok_clo = False
        clo_detail = ""
        if clo is not None:
            if attr_of(clo, "__closure__"):
                ok_clo = True
            elif isinstance(clo, ast.Name):
                # a rebuilt closure: each free variable of the new code is mapped to the original cell of that name
                for s in all_stmts(f.node):
                    if isinstance(s, ast.Assign) and any(dotted(t) == clo.id for t in s.targets):
                        comps = [x for x in ast.walk(s.value) if isinstance(x, (ast.ListComp, ast.GeneratorExp))]
                        for comp in comps:
                            g = comp.generators[0]
                            e = comp.elt
                            it_ok = isinstance(g.iter, ast.Attribute) and g.iter.attr == "co_freevars" and dotted(g.iter.value) != f"{srcp}.__code__"
                            var = dotted(g.target)
                            by_name = (
                                isinstance(e, ast.Subscript)
                                and attr_of(e.value, "__closure__")
                                and isinstance(e.slice, ast.Call)
                                and isinstance(e.slice.func, ast.Attribute)
                                and e.slice.func.attr == "index"
                                and dotted(e.slice.func.value) == f"{srcp}.__code__.co_freevars"
                                and len(e.slice.args) == 1
                                and dotted(e.slice.args[0]) == var
                            )
                            if it_ok and by_name:
                                ok_clo = True
                            else:
                                clo_detail = f"`{short(comp, 70)}` does not map each free variable of the new code to the original cell of the same name"
        n += 1
        ctx.ob(f"{f.key}:copy:globals", f.loc(call), f"the copy of `{srcp}` runs in `{srcp}.__globals__`", ok_glob, "the copy does not take the original function's globals")
        ctx.ob(f"{f.key}:copy:defaults", f.loc(call), f"the copy takes `{srcp}.__defaults__`", ok_def, "the copy drops or replaces the positional defaults: an omitted optional parameter has no default / another default")
        ctx.ob(f"{f.key}:copy:closure", f.loc(call), f"the copy's closure is `{srcp}.__closure__`, or is rebuilt cell by cell by free-variable name", ok_clo, clo_detail or "the copy does not carry the original closure cells: closure variables are unbound or bound to the wrong cell")
        # kwdefaults and annotations assigned before the copy escapes
        tgt = None
        if isinstance(st, ast.Assign) and isinstance(st.targets[0], ast.Name):
            tgt = st.targets[0].id
        ctx.require(tgt is not None, f"{f.loc(call)}: the copy is not bound to a name")
        cfg = cfg_of(ctx, f)
        for attr, why in (("__kwdefaults__", "keyword-only parameters lose their defaults"), ("__annotations__", "the copy loses the annotations")):
            assigns = [
                s
                for s in all_stmts(f.node)
                if isinstance(s, ast.Assign)
                and any(isinstance(t, ast.Attribute) and t.attr == attr and dotted(t.value) == tgt for t in s.targets)
                and attr_of(s.value, attr)
            ]
            # ... or copied by a loop over attribute names: for a in (<names>): setattr(copy, a, getattr(original, a))
            for lp in all_stmts(f.node):
                if not isinstance(lp, ast.For) or not isinstance(lp.target, ast.Name):
                    continue
                it = lp.iter
                if isinstance(it, ast.Name):
                    from ..orderdom import _package_constant

                    it = _package_constant(it.id) or it
                if not (isinstance(it, (ast.Tuple, ast.List)) and any(isinstance(e, ast.Constant) and e.value == attr for e in it.elts)):
                    continue
                v = lp.target.id
                for c2 in ast.walk(lp):
                    if isinstance(c2, ast.Call) and call_name(c2) == "setattr" and len(c2.args) == 3 and dotted(c2.args[0]) == tgt and dotted(c2.args[1]) == v:
                        g = c2.args[2]
                        if isinstance(g, ast.Call) and call_name(g) == "getattr" and len(g.args) == 2 and dotted(g.args[0]) == srcp and dotted(g.args[1]) == v:
                            # unconditional inside the loop body
                            if any(isinstance(s2, ast.Expr) and s2.value is c2 for s2 in lp.body):
                                assigns.append(lp)
            nodes = [cfg.node_of(s) for s in assigns]
            ok = bool(nodes) and cfg.must_reach(cfg.node_of(st), nodes)
            ctx.ob(f"{f.key}:copy:{attr}", f.loc(assigns[0]) if assigns else f.loc(call), f"`{tgt}.{attr}` is assigned from `{srcp}.{attr}` on every path before the copy escapes", ok, f"the copy does not carry {attr} over: {why}")
    ctx.require(n >= 2, "expected the rename and the recompile copy sites on the registration path")


# ----------------------------------------------------------------- R2 positions survive
def _lines_in_front(x):
    """Number of lines the parsed text has in front of the method's own source, or None if not evident."""
    if x is None:
        return None
    if isinstance(x, ast.Name):
        return 0
    if isinstance(x, ast.Call) and len(x.args) == 1 and not x.keywords:
        return _lines_in_front(x.args[0])
    if isinstance(x, ast.BinOp) and isinstance(x.op, ast.Add) and isinstance(x.left, ast.Constant) and isinstance(x.left.value, str):
        r = _lines_in_front(x.right)
        return None if r is None else x.left.value.count("\n") + r
    if isinstance(x, ast.JoinedStr) and x.values and isinstance(x.values[-1], ast.FormattedValue):
        front = "".join(v.value for v in x.values[:-1] if isinstance(v, ast.Constant))
        if all(isinstance(v, ast.Constant) for v in x.values[:-1]):
            r = _lines_in_front(x.values[-1].value)
            return None if r is None else front.count("\n") + r
    return None


def _block_of(pm, st):
    p = pm.get(st)
    for fld in ("body", "orelse", "finalbody"):
        blk = getattr(p, fld, None)
        if isinstance(blk, list) and any(x is st for x in blk):
            return blk
    return []


SAMPLE_INDENTED = (
    "    @decorated\n"
    "    def method(self, x):\n"
    "        text = \"\"\"first\n"
    "        second, indented by eight in the source\n"
    "at column zero\"\"\"\n"
    "        # a comment\n"
    "        return recurse(x)\n"
)
SAMPLE_PLAIN = "def function(x):\n    text = \"\"\"first\n  second\"\"\"\n    return recurse(x)\n"


def parse_step(ctx):
    """Interpret the part of the re-compiler that turns a method's source into a tree and computes the line shift, on
    two sample sources (an indented method with a decorator and a multi-line string literal, a plain function):
    -> list of problems for the laws 'verbatim' and 'line-numbers', or raises AnalysisError if not interpretable."""
    from ..metainterp import HostFn, HostInterp, Raised, Record, _Shared
    from .common import local_slice

    rc = A.recompiler(ctx.repo)
    rw = A.rewriter(ctx.repo)
    srcp = rc.params[0]
    # the tree handed to the rewriter and the shift handed to increment_lineno
    visits = [c for c in ast.walk(rc.node) if isinstance(c, ast.Call) and isinstance(c.func, ast.Attribute) and c.func.attr == "visit" and c.args]
    incs = [c for c in ast.walk(rc.node) if isinstance(c, ast.Call) and call_name(c) in ("ast.increment_lineno", "increment_lineno") and len(c.args) >= 2]
    if len(visits) != 1 or not incs:
        raise AnalysisError(f"{rc.key}: the rewriter's visit or the line shift was not found")
    tree_expr, shift_expr = visits[0].args[0], incs[0].args[1]
    problems = {"verbatim": [], "line-numbers": []}
    funcs = {n: g.node for n, g in rc.module.funcs.items() if g.parent is None and g.cls is None and g is not rc}
    for label, sample, first in (("an indented method", SAMPLE_INDENTED, 100), ("a plain function", SAMPLE_PLAIN, 7)):
        genv = {"inspect": Record(getsource=HostFn(lambda fn, sample=sample: sample)), "OSError": Record(kind="OSError")}
        hi = HostInterp({}, Record(), {}, globals_env=genv, classes={}, functions=funcs)
        fn = Record(__code__=Record(co_firstlineno=first, co_filename="<file>", co_freevars=()), __closure__=None, __name__="method")
        env = _Shared({srcp: fn})
        stmts = []
        for e in (tree_expr, shift_expr):
            for st in local_slice(rc.node, e, bound=(srcp,)) or []:
                if st not in stmts:
                    stmts.append(st)
        stmts.sort(key=lambda st: st.lineno)
        try:
            for st in stmts:
                hi.stmt(st, env)
            tree = hi.ev(tree_expr, env)
            shift = hi.ev(shift_expr, env)
        except Raised as r:
            problems["verbatim"].append(f"for {label} the source cannot be parsed ({r.what}): a literal or comment line left of the definition breaks registration")
            continue
        if not isinstance(tree, ast.AST) or not isinstance(shift, int):
            raise AnalysisError(f"{rc.key}: the parse step did not yield a tree and an integer shift")
        want_tree = ast.parse("if True:\n" + sample).body[0] if sample[:1] == " " else ast.parse(sample)
        consts = [n for n in ast.walk(tree) if isinstance(n, ast.Constant) and isinstance(n.value, str)]
        want_consts = [n for n in ast.walk(want_tree) if isinstance(n, ast.Constant) and isinstance(n.value, str)]
        if [c.value for c in consts] != [c.value for c in want_consts]:
            problems["verbatim"].append(f"for {label} the string literal becomes {consts[0].value!r} where the source says {want_consts[0].value!r}")
        # a node that sits on source line k must end up on line first + k - 1
        defs = [n for n in ast.walk(tree) if isinstance(n, ast.FunctionDef)]
        src_line = next(i for i, ln in enumerate(sample.split("\n"), 1) if ln.lstrip().startswith("def "))
        if not defs or defs[0].lineno + shift != first + src_line - 1:
            problems["line-numbers"].append(f"for {label} the `def` on source line {src_line} of a definition starting at file line {first} ends up on line {defs[0].lineno + shift if defs else '?'} instead of {first + src_line - 1}")
    return problems


def r9_source_parsed_verbatim(ctx):
    from .common import run_fallback

    rc = A.recompiler(ctx.repo)
    try:
        problems = parse_step(ctx)
    except AnalysisError as e:
        run_fallback(ctx, _r9_source_parsed_verbatim_shape, e, "parse step of the re-compiler")
        return
    ctx.touch(rc)
    ctx.ob(f"{rc.key}:source-verbatim", rc.loc(), "the tree handed to the rewriter is the method's source as written: string literals keep their text, lines left of the definition do not matter (parse step interpreted on two sample sources)", not problems["verbatim"], "; ".join(problems["verbatim"]) + ": whatever changes inside the lines changes what the rewritten method computes")
    ctx.ob(f"{rc.key}:line-shift", rc.loc(), "after the shift, a node on line k of the source sits on file line co_firstlineno + k - 1", not problems["line-numbers"], "; ".join(problems["line-numbers"]) + ": tracebacks of rewritten methods point at wrong lines")


def _r9_source_parsed_verbatim_shape(ctx):
    """The text handed to the parser is the method's source as written (at most with constant lines in front): no
    transformation that rewrites the contents of lines."""
    rc = A.recompiler(ctx.repo)
    ctx.touch(rc)
    parses = [x for x in ast.walk(rc.node) if isinstance(x, ast.Call) and call_name(x) in ("ast.parse", "parse")]
    ctx.require(parses, f"{rc.key}: no ast.parse call")

    def transforms(x, acc, fnode=None, depth=0):
        fnode = fnode or rc.node
        if isinstance(x, ast.Call):
            cn = call_name(x) or ""
            helper = ctx.repo.resolve_name(rc.module, cn) if cn and "." not in cn else None
            if helper and helper[0] == "func" and depth < 3:
                # a helper of the package that fetches the source: what it returns is what counts
                for r in ast.walk(helper[1].node):
                    if isinstance(r, ast.Return) and r.value is not None:
                        transforms(r.value, acc, helper[1].node, depth + 1)
                return acc
            if cn not in ("inspect.getsource", "getsource"):
                acc.append(x)
            for a in x.args:
                transforms(a, acc, fnode, depth)
            if isinstance(x.func, ast.Attribute):
                transforms(x.func.value, acc, fnode, depth)
        elif isinstance(x, ast.BinOp):
            transforms(x.left, acc, fnode, depth)
            transforms(x.right, acc, fnode, depth)
        elif isinstance(x, ast.Name):
            for v in [s.value for s in all_stmts(fnode) if isinstance(s, ast.Assign) and any(dotted(t) == x.id for t in s.targets)]:
                transforms(v, acc, fnode, depth)
        return acc

    for pc in parses:
        tr = transforms(pc.args[0], []) if pc.args else []
        ctx.ob(
            f"{rc.key}:source-verbatim:{short(pc, 30)}",
            rc.loc(pc),
            f"`{short(pc, 50)}` parses the method's source as written",
            not tr,
            f"the source passes through `{short(tr[0], 40) if tr else ''}` before it is parsed: whatever that changes inside the lines (the leading whitespace of the lines of a multi-line string literal, for a dedent) changes what the rewritten method computes",
        )


def r2_positions_survive(ctx):
    repo = ctx.repo
    rc = A.recompiler(repo)
    rw = A.rewriter(repo)
    ctx.touch(rc)
    cfg = cfg_of(ctx, rc)
    srcp = rc.params[0]
    compiles = [(st, c) for st in all_stmts(rc.node) if not hasattr(st, "body") for c in ast.walk(st) if isinstance(c, ast.Call) and call_name(c) == "compile"]
    ctx.require(compiles, f"{rc.key}: no compile() call")
    for st, c in compiles:
        tree_arg = c.args[0] if c.args else next((k.value for k in c.keywords if k.arg == "source"), None)
        fname = next((k.value for k in c.keywords if k.arg == "filename"), c.args[1] if len(c.args) > 1 else None)
        ok_f = dotted(fname) == f"{srcp}.__code__.co_filename"
        ctx.ob(f"{rc.key}:compile:filename", rc.loc(c), "the rewritten method is compiled under the original file name", ok_f, f"compiled under `{short(fname, 30) if fname is not None else '?'}`: tracebacks and debuggers no longer point at the original file")
        incs = []
        offsets = []
        for s in all_stmts(rc.node):
            if isinstance(s, ast.Expr) and isinstance(s.value, ast.Call) and call_name(s.value) in ("ast.increment_lineno", "increment_lineno"):
                a = s.value.args
                if len(a) >= 2 and dotted(a[0]) == dotted(tree_arg):
                    off = a[1]
                    good = isinstance(off, ast.BinOp) and isinstance(off.op, ast.Sub) and dotted(off.left) == f"{srcp}.__code__.co_firstlineno" and isinstance(off.right, (ast.Constant, ast.Name))
                    if good:
                        incs.append(s)
                        offsets.append(off.right)
        # not rebound between the offset and the compile
        ok_l = bool(incs) and cfg.dominated_by(cfg.node_of(st), [cfg.node_of(s) for s in incs])
        if ok_l:
            last = incs[-1]
            rebinds = [s for s in all_stmts(rc.node) if isinstance(s, ast.Assign) and any(dotted(t) == dotted(tree_arg) for t in s.targets) and cfg.node_of(s) in cfg.reachable(cfg.node_of(last)) and cfg.node_of(st) in cfg.reachable(cfg.node_of(s))]
            ok_l = not rebinds
        ctx.ob(f"{rc.key}:compile:line-offset", rc.loc(c), f"the tree handed to compile was shifted relative to `{srcp}.__code__.co_firstlineno`", ok_l, "the rewritten tree is compiled without the original line offset: tracebacks point at wrong line numbers")
        # the amount: first line of the parsed text that belongs to the source = 1 + lines put in front of it
        pm = parent_map(rc.node)
        parses = [(s, x) for s in all_stmts(rc.node) if not hasattr(s, "body") for x in ast.walk(s) if isinstance(x, ast.Call) and call_name(x) in ("ast.parse", "parse")]
        if not parses:
            ctx.note(f"{rc.key}: no ast.parse call in the re-compiler itself; the amount of the shift is decided by C09.R9's interpretation")
        for ps, pc in parses:
            n_front = _lines_in_front(pc.args[0] if pc.args else None)
            amount = None
            for off in offsets:
                if isinstance(off, ast.Constant):
                    amount = off.value
                else:
                    # the variable's value on the path of this parse: assigned in the same block, else the only assignment
                    blk = _block_of(pm, ps)
                    same = [x.value for x in blk if isinstance(x, ast.Assign) and any(dotted(t) == off.id for t in x.targets)]
                    alls = [x.value for x in all_stmts(rc.node) if isinstance(x, ast.Assign) and any(dotted(t) == off.id for t in x.targets)]
                    cand = same if same else (alls if len(alls) == 1 else [])
                    if len(cand) == 1 and isinstance(cand[0], ast.Constant):
                        amount = cand[0].value
            ctx.ob(
                f"{rc.key}:compile:line-offset-amount:{short(pc, 30)}",
                rc.loc(pc),
                f"`{short(pc, 40)}` puts {n_front if n_front is not None else '?'} line(s) in front of the method's source, and the tree is shifted by co_firstlineno - {amount if amount is not None else '?'}",
                n_front is not None and amount == n_front + 1,
                "the shift does not match the number of lines in front of the source in the parsed text: tracebacks of rewritten methods are off by a line",
            )
    from .rewriter import law_locations

    law_locations(ctx)


# ----------------------------------------------------------------- R3 each argument once, in order
def _fstring_parts(node):
    s = str_value(node)
    return s


def r3_each_argument_once(ctx):
    from .rewriter import law_each_argument_once

    law_each_argument_once(ctx)


def r4_call_shapes(ctx):
    from .rewriter import law_call_shapes, law_helper_names_private

    law_call_shapes(ctx)
    law_helper_names_private(ctx)


# ----------------------------------------------------------------- R5 walrus placement
def r5_walrus_placement(ctx):
    rw = A.rewriter(ctx.repo)
    ctx.touch(*rw.methods.values())
    handled = [n for n in rw.methods if n in ("visit_ListComp", "visit_SetComp", "visit_DictComp", "visit_GeneratorExp", "visit_comprehension")]
    mentions = any(isinstance(x, ast.Attribute) and x.attr in ("generators", "iter") for m in rw.methods.values() for x in ast.walk(m.node))
    emits_walrus = any(isinstance(c, ast.Call) and call_name(c) == "ast.NamedExpr" for c in ast.walk(rw.node))
    ctx.require(emits_walrus, "the rewriter no longer emits assignment expressions (restructured)")
    ok = bool(handled) or mentions
    ctx.ob(
        f"{rw.key}:walrus-in-comprehension-iterable-{'handled' if ok else 'unhandled'}",
        rw.loc(),
        "the rewriter knows when it is inside a comprehension's iterable expression, where Python forbids assignment expressions",
        ok,
        f"the rewriter (methods: {', '.join(sorted(rw.methods))}) introduces `:=` temporaries wherever the call stands; `[... for x in recurse(y)]` is rewritten into a SyntaxError ('assignment expression cannot be used in a comprehension iterable expression')",
    )


# ----------------------------------------------------------------- R6 decorators
def r6_only_outer_decorators(ctx):
    rc = A.recompiler(ctx.repo)
    ctx.touch(rc)
    writes = []
    for st in all_stmts(rc.node):
        if isinstance(st, ast.Assign):
            for t in st.targets:
                if isinstance(t, ast.Attribute) and t.attr == "decorator_list":
                    writes.append((st, t))
    ctx.require(writes, f"{rc.key}: decorators of the rewritten method are no longer dropped (restructured)")
    pm = parent_map(rc.node)
    for st, t in writes:
        in_loop = False
        p = st
        while p in pm:
            p = pm[p]
            if isinstance(p, (ast.For, ast.While)):
                in_loop = True
        outer = isinstance(t.value, ast.Subscript) and isinstance(t.value.slice, ast.Constant) and t.value.slice.value == 0 and isinstance(t.value.value, ast.Attribute) and t.value.value.attr == "body"
        ctx.ob(
            f"{rc.key}:decorators:{'outer-only' if outer and not in_loop else 'all'}",
            rc.loc(st),
            "only the decorators of the method itself (the outermost definition) are dropped before recompiling",
            outer and not in_loop,
            f"`{short(st, 50)}` clears decorator lists beyond the outermost definition: decorated nested functions inside the method lose their decorators",
        )


def r7_own_code_object(ctx):
    """The code object handed to FunctionType must be the method's own - decided by abstractly executing the
    re-compiler on a function with a lambda (holding a comprehension) in its signature; the reading of the
    statement that picks the constant is the fallback."""
    from . import recodeexec
    from .common import run_fallback

    n0 = len(ctx.obs)
    try:
        recodeexec.law(ctx, "carried-over", scenarios=["function-with-a-lambda-default", "plain-function"])
    except AnalysisError as e:
        del ctx.obs[n0:]
        run_fallback(ctx, _r7_own_code_object_shape, e, "re-compiler")


def _r7_own_code_object_shape(ctx):
    rc = A.recompiler(ctx.repo)
    ctx.touch(rc)
    ft = [c for c in ast.walk(rc.node) if isinstance(c, ast.Call) and call_name(c) in ("FunctionType", "types.FunctionType")]
    ctx.require(ft, f"{rc.key}: no FunctionType construction")
    code_name = dotted(ft[0].args[0]) if ft[0].args else None
    ctx.require(code_name, f"{rc.key}: the code object is not passed by name")
    picks = []
    for st in all_stmts(rc.node):
        if not isinstance(st, ast.Assign):
            continue
        tgt = st.targets[0]
        v = st.value
        sel = None
        if isinstance(tgt, (ast.Tuple, ast.List)) and any(dotted(e) == code_name for e in tgt.elts if not isinstance(e, ast.Starred)):
            # (*_, new_code) = [...]: last;  (new_code, *_) = [...]: first
            idx = [i for i, e in enumerate(tgt.elts) if not isinstance(e, ast.Starred) and dotted(e) == code_name][0]
            has_star_before = any(isinstance(e, ast.Starred) for e in tgt.elts[:idx])
            sel = "last" if has_star_before and idx == len(tgt.elts) - 1 else ("only" if len(tgt.elts) == 1 else "not-last")
        elif isinstance(tgt, ast.Name) and tgt.id == code_name and isinstance(v, ast.Subscript) and not isinstance(v.slice, ast.Slice):
            k = v.slice
            if isinstance(k, ast.UnaryOp) and isinstance(k.op, ast.USub) and isinstance(k.operand, ast.Constant) and k.operand.value == 1:
                sel = "last"
            elif isinstance(k, ast.Constant) and isinstance(k.value, int):
                sel = "not-last"
        if sel and any(isinstance(x, ast.Attribute) and x.attr == "co_consts" for x in ast.walk(v)):
            picks.append((st, sel))
    ctx.require(picks, f"{rc.key}: could not find where `{code_name}` is taken from the compiled constants")
    for st, sel in picks:
        ctx.ob(
            f"{rc.key}:own-code:{sel}",
            rc.loc(st),
            f"`{short(st, 60)}` takes the last code constant of the compiled definition (the method's own code)",
            sel in ("last",),
            f"`{short(st, 60)}` does not take the last code constant: when a default value is a lambda (or contains a comprehension) its code object comes first, and the registered method becomes that lambda's body",
        )


def r1(ctx):
    copy_carries_everything(ctx)


def r8_symbols_found_wherever_they_live(ctx):
    from .c08 import r1_self_references_found

    r1_self_references_found(ctx)


RULES = [
    ("C09.R9", "P1", r9_source_parsed_verbatim, "the source is parsed as written"),
    ("C09.R8", "P1", r8_symbols_found_wherever_they_live, "recurse / call_next are found in globals, closure cells and nested code"),
    ("C09.R1", "P1", r1, "a copy carries everything"),
    ("C09.R2", "P1", r2_positions_survive, "positions survive"),
    ("C09.R3", "P1", r3_each_argument_once, "each argument once, in order"),
    ("C09.R4", "P1", r4_call_shapes, "every call shape is handled or left alone"),
    ("C09.R5", "P1", r5_walrus_placement, "no walrus where Python forbids one"),
    ("C09.R6", "P1", r6_only_outer_decorators, "only the outer decorators are dropped"),
    ("C09.R7", "P1", r7_own_code_object, "the recompiled code object is the method's own"),
]
