"""C09 - source rewriting changes nothing except the recurse/call_next call sites."""

import ast
import re

from .. import anchors as A
from ..cfg import all_stmts
from ..effects import stmt_calls
from ..model import AnalysisError, call_name, dotted, is_self_attr, parent_map, short, src, str_value
from .common import cfg_of, recv_name


# ----------------------------------------------------------------- R1 copy sites
def _copy_sites(ctx):
    """FunctionType(...) constructions whose code derives from a function handed to the enclosing function."""
    sites = []
    for f in ctx.repo.all_funcs():
        for st in all_stmts(f.node):
            if isinstance(st, (ast.FunctionDef, ast.ClassDef)) or hasattr(st, "body"):
                continue
            for c in ast.walk(st):
                if isinstance(c, ast.Call) and call_name(c) in ("FunctionType", "types.FunctionType"):
                    sites.append((f, st, c))
    return sites


def _source_param(f, call):
    """The parameter function whose attributes the copy takes (by majority of <p>.__x__ arguments)."""
    counts = {}
    for a in list(call.args) + [k.value for k in call.keywords]:
        for n in ast.walk(a):
            if isinstance(n, ast.Attribute) and n.attr.startswith("__") and isinstance(n.value, ast.Name):
                counts[n.value.id] = counts.get(n.value.id, 0) + 1
    if not counts:
        return None
    return max(counts, key=counts.get)


def copy_carries_everything(ctx):
    repo = ctx.repo
    sites = _copy_sites(ctx)
    ctx.require(len(sites) >= 2, "fewer FunctionType construction sites than the registration path needs")
    adapter = A.adapter(repo)
    rc = A.recompiler(repo)
    reg_path = {rc.key}
    for c in ast.walk(adapter.node):
        if isinstance(c, ast.Call) and isinstance(c.func, ast.Name):
            r = repo.resolve_name(adapter.module, c.func.id)
            if r and r[0] == "func":
                reg_path.add(r[1].key)
    n = 0
    for f, st, call in sites:
        srcp = _source_param(f, call)
        code_arg = call.args[0] if call.args else None
        # a copy of a user method: the source is a parameter of the function (or of the enclosing method)
        is_param = srcp in f.params
        if f.key not in reg_path:
            if is_param or (srcp and f.cls is not None):
                ctx.note(f"{f.key} ({f.loc(call)}) also copies a function with FunctionType but is not on the registration path; no property covers it")
            continue
        ctx.require(is_param, f"{f.loc(call)}: cannot tell which function this FunctionType(...) copies")
        ctx.touch(f)
        args = list(call.args)

        def attr_of(e, name):
            return isinstance(e, ast.Attribute) and e.attr == name and dotted(e.value) == srcp

        ok_glob = len(args) > 1 and attr_of(args[1], "__globals__")
        ok_def = len(args) > 3 and attr_of(args[3], "__defaults__")
        clo = args[4] if len(args) > 4 else None
        ok_clo = False
        clo_detail = ""
        if clo is not None:
            if attr_of(clo, "__closure__"):
                ok_clo = True
            elif isinstance(clo, ast.Name):
                # a rebuilt closure: each free variable of the new code is mapped to the original cell of that name
                for s in all_stmts(f.node):
                    if isinstance(s, ast.Assign) and any(dotted(t) == clo.id for t in s.targets):
                        comps = [x for x in ast.walk(s.value) if isinstance(x, (ast.ListComp, ast.GeneratorExp))]
                        for comp in comps:
                            g = comp.generators[0]
                            e = comp.elt
                            it_ok = isinstance(g.iter, ast.Attribute) and g.iter.attr == "co_freevars" and dotted(g.iter.value) != f"{srcp}.__code__"
                            var = dotted(g.target)
                            by_name = (
                                isinstance(e, ast.Subscript)
                                and attr_of(e.value, "__closure__")
                                and isinstance(e.slice, ast.Call)
                                and isinstance(e.slice.func, ast.Attribute)
                                and e.slice.func.attr == "index"
                                and dotted(e.slice.func.value) == f"{srcp}.__code__.co_freevars"
                                and len(e.slice.args) == 1
                                and dotted(e.slice.args[0]) == var
                            )
                            if it_ok and by_name:
                                ok_clo = True
                            else:
                                clo_detail = f"`{short(comp, 70)}` does not map each free variable of the new code to the original cell of the same name"
        n += 1
        ctx.ob(f"{f.key}:copy:globals", f.loc(call), f"the copy of `{srcp}` runs in `{srcp}.__globals__`", ok_glob, "the copy does not take the original function's globals")
        ctx.ob(f"{f.key}:copy:defaults", f.loc(call), f"the copy takes `{srcp}.__defaults__`", ok_def, "the copy drops or replaces the positional defaults: an omitted optional parameter has no default / another default")
        ctx.ob(f"{f.key}:copy:closure", f.loc(call), f"the copy's closure is `{srcp}.__closure__`, or is rebuilt cell by cell by free-variable name", ok_clo, clo_detail or "the copy does not carry the original closure cells: closure variables are unbound or bound to the wrong cell")
        # kwdefaults and annotations assigned before the copy escapes
        tgt = None
        if isinstance(st, ast.Assign) and isinstance(st.targets[0], ast.Name):
            tgt = st.targets[0].id
        ctx.require(tgt is not None, f"{f.loc(call)}: the copy is not bound to a name")
        cfg = cfg_of(ctx, f)
        for attr, why in (("__kwdefaults__", "keyword-only parameters lose their defaults"), ("__annotations__", "the copy loses the annotations")):
            assigns = [
                s
                for s in all_stmts(f.node)
                if isinstance(s, ast.Assign)
                and any(isinstance(t, ast.Attribute) and t.attr == attr and dotted(t.value) == tgt for t in s.targets)
                and attr_of(s.value, attr)
            ]
            nodes = [cfg.node_of(s) for s in assigns]
            ok = bool(nodes) and cfg.must_reach(cfg.node_of(st), nodes)
            ctx.ob(f"{f.key}:copy:{attr}", f.loc(assigns[0]) if assigns else f.loc(call), f"`{tgt}.{attr}` is assigned from `{srcp}.{attr}` on every path before the copy escapes", ok, f"the copy does not carry {attr} over: {why}")
    ctx.require(n >= 2, "expected the rename and the recompile copy sites on the registration path")


# ----------------------------------------------------------------- R2 positions survive
def r2_positions_survive(ctx):
    repo = ctx.repo
    rc = A.recompiler(repo)
    rw = A.rewriter(repo)
    ctx.touch(rc)
    cfg = cfg_of(ctx, rc)
    srcp = rc.params[0]
    compiles = [(st, c) for st in all_stmts(rc.node) if not hasattr(st, "body") for c in ast.walk(st) if isinstance(c, ast.Call) and call_name(c) == "compile"]
    ctx.require(compiles, f"{rc.key}: no compile() call")
    for st, c in compiles:
        tree_arg = c.args[0] if c.args else next((k.value for k in c.keywords if k.arg == "source"), None)
        fname = next((k.value for k in c.keywords if k.arg == "filename"), c.args[1] if len(c.args) > 1 else None)
        ok_f = dotted(fname) == f"{srcp}.__code__.co_filename"
        ctx.ob(f"{rc.key}:compile:filename", rc.loc(c), "the rewritten method is compiled under the original file name", ok_f, f"compiled under `{short(fname, 30) if fname is not None else '?'}`: tracebacks and debuggers no longer point at the original file")
        incs = []
        for s in all_stmts(rc.node):
            if isinstance(s, ast.Expr) and isinstance(s.value, ast.Call) and call_name(s.value) in ("ast.increment_lineno", "increment_lineno"):
                a = s.value.args
                if len(a) >= 2 and dotted(a[0]) == dotted(tree_arg):
                    off = a[1]
                    good = isinstance(off, ast.BinOp) and isinstance(off.op, ast.Sub) and dotted(off.left) == f"{srcp}.__code__.co_firstlineno" and isinstance(off.right, ast.Constant) and off.right.value == 1
                    if good:
                        incs.append(s)
        # not rebound between the offset and the compile
        ok_l = bool(incs) and cfg.dominated_by(cfg.node_of(st), [cfg.node_of(s) for s in incs])
        if ok_l:
            last = incs[-1]
            rebinds = [s for s in all_stmts(rc.node) if isinstance(s, ast.Assign) and any(dotted(t) == dotted(tree_arg) for t in s.targets) and cfg.node_of(s) in cfg.reachable(cfg.node_of(last)) and cfg.node_of(st) in cfg.reachable(cfg.node_of(s))]
            ok_l = not rebinds
        ctx.ob(f"{rc.key}:compile:line-offset", rc.loc(c), f"the tree handed to compile was shifted by `{srcp}.__code__.co_firstlineno - 1`", ok_l, "the rewritten tree is compiled without the original line offset: tracebacks point at wrong line numbers")
    # each replacement node takes the location of the node it replaces
    for mname in ("visit_Name", "visit_Call"):
        m = rw.methods.get(mname)
        ctx.require(m is not None, f"rewriter lost {mname}")
        ctx.touch(m)
        rv = recv_name(m)
        nodep = [p for p in m.params if p != rv][0]
        for r in [x for x in ast.walk(m.node) if isinstance(x, ast.Return) and x.value is not None]:
            # returns inside nested helpers are not replacement results
            owner_ok = True
            for inner in [x for x in ast.walk(m.node) if isinstance(x, ast.FunctionDef) and x is not m.node]:
                if any(y is r for y in ast.walk(inner)):
                    owner_ok = False
            if not owner_ok:
                continue
            v = r.value
            kind = None
            if isinstance(v, ast.Name) and v.id == nodep:
                kind = "unchanged"
            elif isinstance(v, ast.Call) and is_self_attr(v.func, "generic_visit", selfname=rv):
                kind = "generic_visit"
            elif isinstance(v, ast.Call) and call_name(v) in ("ast.copy_location", "copy_location"):
                old = next((k.value for k in v.keywords if k.arg == "old_node"), v.args[1] if len(v.args) > 1 else None)
                kind = "copy_location" if dotted(old) == nodep else None
            ctx.ob(
                f"{m.key}:return:{kind or short(v, 30)}",
                m.loc(r),
                f"`{short(r, 50)}` returns the node itself, its generic visit, or a new node given the location of `{nodep}`",
                kind is not None,
                f"`{short(r, 60)}` returns a new node without the location of the node it replaces: fix_missing_locations then gives it its parent's position and tracebacks through the call point at the wrong line/column",
            )


# ----------------------------------------------------------------- R3 each argument once, in order
def _fstring_parts(node):
    s = str_value(node)
    return s


def r3_each_argument_once(ctx):
    rw = A.rewriter(ctx.repo)
    vc = rw.methods["visit_Call"]
    ctx.touch(vc)
    rv = recv_name(vc)
    nodep = [p for p in vc.params if p != rv][0]
    helpers = [x for x in vc.node.body if isinstance(x, ast.FunctionDef)]
    # the helper that creates the assignment expression
    helper = None
    for h in helpers:
        if any(isinstance(c, ast.Call) and call_name(c) == "ast.NamedExpr" for c in ast.walk(h)):
            helper = h
    ctx.require(helper is not None, f"{vc.key}: no helper building an assignment expression (ast.NamedExpr)")
    hp = [a.arg for a in helper.args.args]
    ctx.require(len(hp) == 2, f"{vc.key}: the temp helper no longer takes (key, argument)")
    keyp, argp = hp
    ne = [c for c in ast.walk(helper) if isinstance(c, ast.Call) and call_name(c) == "ast.NamedExpr"][0]
    kw = {k.arg: k.value for k in ne.keywords}
    tgt = kw.get("target")
    val = kw.get("value")
    store_tpl = None
    if isinstance(tgt, ast.Call) and call_name(tgt) == "ast.Name":
        idv = next((k.value for k in tgt.keywords if k.arg == "id"), tgt.args[0] if tgt.args else None)
        store_tpl = _fstring_parts(idv)
        ctxv = next((k.value for k in tgt.keywords if k.arg == "ctx"), None)
        is_store = ctxv is not None and "Store" in src(ctxv)
    ok_val = isinstance(val, ast.Call) and is_self_attr(val.func, "visit", selfname=rv) and len(val.args) == 1 and dotted(val.args[0]) == argp
    ctx.ob(
        f"{vc.key}:temp:value-is-visited-argument",
        vc.loc(ne),
        "each argument expression is stored once into its temporary, after being rewritten itself (nested recurse/call_next calls inside arguments)",
        ok_val,
        f"the temporary is assigned `{short(val, 40) if val is not None else '?'}`: nested recurse/call_next calls inside an argument are not rewritten, or the argument is not the helper's own",
    )
    ctx.ob(f"{vc.key}:temp:store-name", vc.loc(ne), "the temporary is a Store of a name built from the call-site prefix and the argument's key", store_tpl is not None and is_store and f"§{keyp}§" in store_tpl, "the temporary's name does not depend on the argument's key: two arguments share one temporary")
    # the prefix of the temporaries is fresh for every rewritten call site
    pref = None
    if store_tpl:
        m0 = re.match(r"§(\w+)§", store_tpl)
        pref = m0.group(1) if m0 else None
    pdefs = [s for s in vc.node.body if isinstance(s, ast.Assign) and any(dotted(t) == pref for t in s.targets)] if pref else []
    fresh = False
    if len(pdefs) == 1:
        tpl = str_value(pdefs[0].value) or ""
        m1 = re.search(r"§next\((\w+)\.(\w+)\)§", tpl)
        if m1 and m1.group(1) == rv:
            init = rw.methods.get("__init__")
            fresh = init is not None and any(
                isinstance(s, ast.Assign) and any(is_self_attr(t, m1.group(2), selfname=recv_name(init)) for t in s.targets) and isinstance(s.value, ast.Call) and call_name(s.value) in ("count", "itertools.count")
                for s in ast.walk(init.node)
            )
    ctx.ob(
        f"{vc.key}:temp:fresh-prefix",
        vc.loc(pdefs[0]) if pdefs else vc.loc(),
        "the temporaries of each rewritten call site carry a prefix drawn from a per-method counter (no two call sites share temporaries)",
        fresh,
        f"`{short(pdefs[0], 60) if pdefs else '?'}`: the temporaries' prefix is not unique per call site: a recurse/call_next call nested in an argument of another one overwrites the outer call's temporaries after its types were taken, and the selected method runs on the inner call's arguments",
    )
    # calls of the helper: positionals over enumerate(node.args), keywords over node.keywords
    calls = [c for c in ast.walk(vc.node) if isinstance(c, ast.Call) and isinstance(c.func, ast.Name) and c.func.id == helper.name]
    pos_calls, kw_calls = [], []
    pm = parent_map(vc.node)
    for c in calls:
        comp = c
        while comp in pm and not isinstance(comp, (ast.ListComp, ast.GeneratorExp)):
            comp = pm[comp]
        ctx.require(isinstance(comp, (ast.ListComp, ast.GeneratorExp)), f"{vc.loc(c)}: helper call outside a comprehension")
        g = comp.generators[0]
        if isinstance(g.iter, ast.Call) and call_name(g.iter) == "enumerate" and dotted(g.iter.args[0]) == f"{nodep}.args":
            i, a = [dotted(x) for x in g.target.elts]
            pos_calls.append((c, comp, dotted(c.args[0]) == i and dotted(c.args[1]) == a))
        elif dotted(g.iter) == f"{nodep}.keywords":
            k = dotted(g.target)
            kw_calls.append((c, comp, dotted(c.args[0]) == f"{k}.arg" and dotted(c.args[1]) == f"{k}.value", k))
        else:
            pos_calls.append((c, comp, False))
    ok_pos = len(pos_calls) == 1 and pos_calls[0][2]
    ok_kw = len(kw_calls) == 1 and kw_calls[0][2]
    ctx.ob(f"{vc.key}:lookup:positionals-in-order", vc.loc(pos_calls[0][0]) if pos_calls else vc.loc(), "one temporary per positional argument, in source order (enumerate over the call's args)", ok_pos, "positional arguments are not each evaluated once in source order")
    ctx.ob(f"{vc.key}:lookup:keywords-in-order", vc.loc(kw_calls[0][0]) if kw_calls else vc.loc(), "one temporary per keyword argument, keyed by the keyword's name, in source order", ok_kw, "keyword arguments are not each evaluated once in source order under their own name")
    # positionals are placed before keywords in the lookup tuple
    order_ok = False
    if pos_calls and kw_calls:
        pst = kst = None
        for st in vc.node.body:
            if any(x is pos_calls[0][1] for x in ast.walk(st)):
                pst = st
            if any(x is kw_calls[0][1] for x in ast.walk(st)):
                kst = st
        if isinstance(pst, ast.Assign) and isinstance(kst, ast.AugAssign) and dotted(pst.targets[0]) == dotted(kst.target) and pst.value is pos_calls[0][1] and pst.lineno < kst.lineno:
            order_ok = True
        if isinstance(pst, ast.Assign) and pst is kst and isinstance(pst.value, ast.BinOp):
            order_ok = any(x is pos_calls[0][1] for x in ast.walk(pst.value.left))
    ctx.ob(f"{vc.key}:lookup:positionals-before-keywords", vc.loc(), "positional temporaries are evaluated before keyword temporaries (left-to-right evaluation of the original call)", order_ok, "the lookup tuple evaluates keyword arguments before positionals, or reorders the positionals")
    # the new call loads exactly those temporaries
    new_calls = [c for c in ast.walk(vc.node) if isinstance(c, ast.Call) and call_name(c) == "ast.Call" and any(k.arg == "keywords" and not (isinstance(k.value, ast.List) and not k.value.elts) for k in c.keywords)]
    ctx.require(len(new_calls) == 1, f"{vc.key}: expected one construction of the replacement call")
    nc = {k.arg: k.value for k in new_calls[0].keywords}
    loads_ok = False
    comp = [x for x in ast.walk(nc.get("args", ast.Constant(value=None))) if isinstance(x, ast.ListComp)]
    if len(comp) == 1:
        g = comp[0].generators[0]
        e = comp[0].elt
        if isinstance(g.iter, ast.Call) and call_name(g.iter) == "enumerate" and dotted(g.iter.args[0]) == f"{nodep}.args" and isinstance(e, ast.Call) and call_name(e) == "ast.Name":
            i = dotted(g.target.elts[0])
            idv = next((k.value for k in e.keywords if k.arg == "id"), None)
            load_tpl = _fstring_parts(idv) if idv is not None else None
            loads_ok = load_tpl is not None and store_tpl is not None and load_tpl.replace(f"§{i}§", "§K§") == store_tpl.replace(f"§{keyp}§", "§K§") and "Load" in src(e)
    ctx.ob(f"{vc.key}:call:positional-loads", vc.loc(new_calls[0]), "the replacement call passes, in order, a load of each positional temporary", loads_ok, "the replacement call does not load exactly the positional temporaries in order: an argument is evaluated twice, dropped or passed in another position")
    kloads_ok = False
    comp = [x for x in ast.walk(nc.get("keywords", ast.Constant(value=None))) if isinstance(x, ast.ListComp)]
    if len(comp) == 1:
        g = comp[0].generators[0]
        e = comp[0].elt
        if dotted(g.iter) == f"{nodep}.keywords" and isinstance(e, ast.Call) and call_name(e) == "ast.keyword":
            k = dotted(g.target)
            ek = {x.arg: x.value for x in e.keywords}
            namev = ek.get("value")
            if dotted(ek.get("arg")) == f"{k}.arg" and isinstance(namev, ast.Call) and call_name(namev) == "ast.Name":
                idv = next((x.value for x in namev.keywords if x.arg == "id"), None)
                load_tpl = _fstring_parts(idv) if idv is not None else None
                kloads_ok = load_tpl is not None and store_tpl is not None and load_tpl.replace(f"§{k}.arg§", "§K§") == store_tpl.replace(f"§{keyp}§", "§K§")
    ctx.ob(f"{vc.key}:call:keyword-loads", vc.loc(new_calls[0]), "the replacement call passes each keyword under its own name as a load of that keyword's temporary", kloads_ok, "the replacement call does not pass each keyword temporary under the original keyword name")


# ----------------------------------------------------------------- R4 call shapes
def r4_call_shapes(ctx):
    rw = A.rewriter(ctx.repo)
    vc = rw.methods["visit_Call"]
    vn = rw.methods.get("visit_Name")
    ctx.touch(vc, vn)
    rv = recv_name(vc)
    nodep = [p for p in vc.params if p != rv][0]
    cfg = cfg_of(ctx, vc)
    top_ifs = [st for st in vc.node.body if isinstance(st, ast.If)]
    helper_line = min([x.lineno for x in vc.node.body if isinstance(x, ast.FunctionDef)] + [x.lineno for x in ast.walk(vc.node) if isinstance(x, ast.Call) and call_name(x) == "ast.NamedExpr"])

    def bails(st):
        return any(isinstance(s, ast.Return) and isinstance(s.value, ast.Call) and is_self_attr(s.value.func, "generic_visit", selfname=rv) for s in st.body)

    starred = dstar = None
    for st in top_ifs:
        if st.lineno > helper_line or not bails(st):
            continue
        t = src(st.test)
        if "Starred" in t and f"{nodep}.args" in t:
            starred = st
        if ".arg is None" in t and f"{nodep}.keywords" in t or ("arg is None" in t and "keywords" in t):
            dstar = st
    ctx.ob(f"{vc.key}:bail-out:starred", vc.loc(starred) if starred else vc.loc(), "a call with *args is left to the generic path (not rewritten with per-argument temporaries)", starred is not None, "a starred positional argument reaches the per-argument rewrite: `recurse(*xs)` is keyed by type(xs) as if it were one argument")
    ctx.ob(f"{vc.key}:bail-out:double-star", vc.loc(dstar) if dstar else vc.loc(), "a call with **kwargs is left to the generic path", dstar is not None, "a double-starred keyword argument reaches the per-argument rewrite: `recurse(a, **kw)` is looked up under the key (None, dict) and no method matches")
    # every return of visit_Call returns a transformed node
    rets = [x for x in ast.walk(vc.node) if isinstance(x, ast.Return)]
    own = []
    for r in rets:
        if not any(any(y is r for y in ast.walk(inner)) for inner in ast.walk(vc.node) if isinstance(inner, ast.FunctionDef) and inner is not vc.node):
            own.append(r)
    for r in own:
        v = r.value
        good = v is not None and not (isinstance(v, ast.Name) and v.id == nodep)
        ctx.ob(
            f"{vc.key}:return-transformed:{short(v, 30) if v is not None else 'None'}",
            vc.loc(r),
            "every exit of visit_Call hands back a node whose children were visited",
            good,
            f"`{short(r, 40)}` returns the call without visiting its children: recurse / self references inside it (the callee and nested arguments) are left unrewritten",
        )
    # the generic path turns a starred call_next into a build error (visit_Name raises on the call_next symbol)
    raises = vn is not None and any(isinstance(x, ast.Raise) for x in ast.walk(vn.node))
    bail_mentions_cn = any(any(is_self_attr(x, "call_next_sym", selfname=rv) for x in ast.walk(st.test)) for st in (starred, dstar) if st is not None)
    special = [st for st in top_ifs if st not in (starred, dstar) and "Starred" in src(st)]
    accepted = not raises or bail_mentions_cn or bool(special)
    ctx.ob(
        f"{vc.key}:starred-call_next-{'accepted' if accepted else 'rejected'}",
        vc.loc(starred) if starred else vc.loc(),
        "call_next(*args) / call_next(**kw), valid placements, are accepted",
        accepted,
        "the bail-out sends a starred call_next to the generic path, where visit_Name rejects the bare call_next symbol: a syntactically valid call_next(*args) makes the build fail with UsageError",
    )


# ----------------------------------------------------------------- R5 walrus placement
def r5_walrus_placement(ctx):
    rw = A.rewriter(ctx.repo)
    ctx.touch(*rw.methods.values())
    handled = [n for n in rw.methods if n in ("visit_ListComp", "visit_SetComp", "visit_DictComp", "visit_GeneratorExp", "visit_comprehension")]
    mentions = any(isinstance(x, ast.Attribute) and x.attr in ("generators", "iter") for m in rw.methods.values() for x in ast.walk(m.node))
    emits_walrus = any(isinstance(c, ast.Call) and call_name(c) == "ast.NamedExpr" for c in ast.walk(rw.node))
    ctx.require(emits_walrus, "the rewriter no longer emits assignment expressions (restructured)")
    ok = bool(handled) or mentions
    ctx.ob(
        f"{rw.key}:walrus-in-comprehension-iterable-{'handled' if ok else 'unhandled'}",
        rw.loc(),
        "the rewriter knows when it is inside a comprehension's iterable expression, where Python forbids assignment expressions",
        ok,
        f"the rewriter (methods: {', '.join(sorted(rw.methods))}) introduces `:=` temporaries wherever the call stands; `[... for x in recurse(y)]` is rewritten into a SyntaxError ('assignment expression cannot be used in a comprehension iterable expression')",
    )


# ----------------------------------------------------------------- R6 decorators
def r6_only_outer_decorators(ctx):
    rc = A.recompiler(ctx.repo)
    ctx.touch(rc)
    writes = []
    for st in all_stmts(rc.node):
        if isinstance(st, ast.Assign):
            for t in st.targets:
                if isinstance(t, ast.Attribute) and t.attr == "decorator_list":
                    writes.append((st, t))
    ctx.require(writes, f"{rc.key}: decorators of the rewritten method are no longer dropped (restructured)")
    pm = parent_map(rc.node)
    for st, t in writes:
        in_loop = False
        p = st
        while p in pm:
            p = pm[p]
            if isinstance(p, (ast.For, ast.While)):
                in_loop = True
        outer = isinstance(t.value, ast.Subscript) and isinstance(t.value.slice, ast.Constant) and t.value.slice.value == 0 and isinstance(t.value.value, ast.Attribute) and t.value.value.attr == "body"
        ctx.ob(
            f"{rc.key}:decorators:{'outer-only' if outer and not in_loop else 'all'}",
            rc.loc(st),
            "only the decorators of the method itself (the outermost definition) are dropped before recompiling",
            outer and not in_loop,
            f"`{short(st, 50)}` clears decorator lists beyond the outermost definition: decorated nested functions inside the method lose their decorators",
        )


def r7_own_code_object(ctx):
    """The code object handed to FunctionType must be the method's own: among the code constants of the compiled
    definition it is the LAST one (code objects of lambdas / comprehensions in the defaults come before it)."""
    rc = A.recompiler(ctx.repo)
    ctx.touch(rc)
    ft = [c for c in ast.walk(rc.node) if isinstance(c, ast.Call) and call_name(c) in ("FunctionType", "types.FunctionType")]
    ctx.require(ft, f"{rc.key}: no FunctionType construction")
    code_name = dotted(ft[0].args[0]) if ft[0].args else None
    ctx.require(code_name, f"{rc.key}: the code object is not passed by name")
    picks = []
    for st in all_stmts(rc.node):
        if not isinstance(st, ast.Assign):
            continue
        tgt = st.targets[0]
        v = st.value
        sel = None
        if isinstance(tgt, (ast.Tuple, ast.List)) and any(dotted(e) == code_name for e in tgt.elts if not isinstance(e, ast.Starred)):
            # (*_, new_code) = [...]: last;  (new_code, *_) = [...]: first
            idx = [i for i, e in enumerate(tgt.elts) if not isinstance(e, ast.Starred) and dotted(e) == code_name][0]
            has_star_before = any(isinstance(e, ast.Starred) for e in tgt.elts[:idx])
            sel = "last" if has_star_before and idx == len(tgt.elts) - 1 else ("only" if len(tgt.elts) == 1 else "not-last")
        elif isinstance(tgt, ast.Name) and tgt.id == code_name and isinstance(v, ast.Subscript) and not isinstance(v.slice, ast.Slice):
            k = v.slice
            if isinstance(k, ast.UnaryOp) and isinstance(k.op, ast.USub) and isinstance(k.operand, ast.Constant) and k.operand.value == 1:
                sel = "last"
            elif isinstance(k, ast.Constant) and isinstance(k.value, int):
                sel = "not-last"
        if sel and any(isinstance(x, ast.Attribute) and x.attr == "co_consts" for x in ast.walk(v)):
            picks.append((st, sel))
    ctx.require(picks, f"{rc.key}: could not find where `{code_name}` is taken from the compiled constants")
    for st, sel in picks:
        ctx.ob(
            f"{rc.key}:own-code:{sel}",
            rc.loc(st),
            f"`{short(st, 60)}` takes the last code constant of the compiled definition (the method's own code)",
            sel in ("last",),
            f"`{short(st, 60)}` does not take the last code constant: when a default value is a lambda (or contains a comprehension) its code object comes first, and the registered method becomes that lambda's body",
        )


def r1(ctx):
    copy_carries_everything(ctx)


def r8_symbols_found_wherever_they_live(ctx):
    from .c08 import r1_self_references_found

    r1_self_references_found(ctx)


RULES = [
    ("C09.R8", "P1", r8_symbols_found_wherever_they_live, "recurse / call_next are found in globals, closure cells and nested code"),
    ("C09.R1", "P1", r1, "a copy carries everything"),
    ("C09.R2", "P1", r2_positions_survive, "positions survive"),
    ("C09.R3", "P1", r3_each_argument_once, "each argument once, in order"),
    ("C09.R4", "P1", r4_call_shapes, "every call shape is handled or left alone"),
    ("C09.R5", "P1", r5_walrus_placement, "no walrus where Python forbids one"),
    ("C09.R6", "P1", r6_only_outer_decorators, "only the outer decorators are dropped"),
    ("C09.R7", "P1", r7_own_code_object, "the recompiled code object is the method's own"),
]
