"""Rules added after the second round of independently seeded changes.  Each rule is shared into the properties it is
a necessary condition of (see the RULES tables of the property modules)."""

import ast
import itertools
import re

from .. import anchors as A
from ..cfg import all_stmts
from ..effects import func_writes, stmt_calls
from ..metainterp import HostFn, HostInterp, Instance, OwnObject, Raised, Record
from ..model import AnalysisError, call_name, dotted, is_self_attr, parent_map, short, src, str_value
from .common import cfg_of, recv_name

HOLE = re.compile(r"§([^§]*)§")


def _module_counters(mod):
    """module-level names bound to itertools.count(...)"""
    out = set()
    for st in mod.tree.body:
        if isinstance(st, ast.Assign) and isinstance(st.value, ast.Call) and call_name(st.value) in ("count", "itertools.count"):
            out |= {t.id for t in st.targets if isinstance(t, ast.Name)}
    return out


def _local_defs(fnode, name):
    return [s.value for s in all_stmts(fnode) if isinstance(s, ast.Assign) and any(isinstance(t, ast.Name) and t.id == name for t in s.targets)]


# ---------------------------------------------------------------------------------------- recompiler globals
def recompiler_globals_are_unique(ctx):
    """Each global the re-compiler plants in the method's module is named uniquely for what it denotes: a value of
    the function object under a name that contains the function object's serial number, the new code object under a
    name that contains a fresh number from a module-level counter."""
    repo = ctx.repo
    rc = A.recompiler(repo)
    oc = A.function_class(repo)
    ctx.touch(rc)
    counters = _module_counters(rc.module)
    # attributes of the function class that hold a serial number: assigned next(<module counter>) in its __init__
    serial_attrs = set()
    oc_counters = _module_counters(oc.module)
    for m in oc.methods.values():
        rv = recv_name(m)
        for st in all_stmts(m.node):
            if isinstance(st, ast.Assign) and isinstance(st.value, ast.Call) and call_name(st.value) == "next" and st.value.args and dotted(st.value.args[0]) in oc_counters:
                serial_attrs |= {t.attr for t in st.targets if is_self_attr(t, selfname=rv)}
    # locals that hold the freshly made function / code object
    fresh = set()
    changed = True
    while changed:
        changed = False
        for st in all_stmts(rc.node):
            if isinstance(st, ast.Assign) and isinstance(st.value, ast.Call):
                cn = call_name(st.value) or ""
                args_src = {dotted(a) for a in st.value.args}
                if cn.split(".")[-1] in ("FunctionType", "compile") or (args_src & fresh):
                    for t in st.targets:
                        for n in ast.walk(t):
                            if isinstance(n, ast.Name) and n.id not in fresh:
                                fresh.add(n.id)
                                changed = True
    stores = []
    for st in all_stmts(rc.node):
        if isinstance(st, ast.Assign) and len(st.targets) == 1 and isinstance(st.targets[0], ast.Subscript):
            b = st.targets[0].value
            if isinstance(b, ast.Attribute) and b.attr == "__globals__":
                stores.append((st, st.targets[0].slice, st.value))
        elif isinstance(st, ast.Expr) and isinstance(st.value, ast.Call) and isinstance(st.value.func, ast.Attribute) and st.value.func.attr == "setdefault" and len(st.value.args) == 2:
            b = st.value.func.value
            if isinstance(b, ast.Attribute) and b.attr == "__globals__":
                stores.append((st, st.value.args[0], st.value.args[1]))
    ctx.require(len(stores) >= 3, f"{rc.key}: expected the re-compiler to plant the function object, the table and the code object in the method's globals")
    params = set(rc.params)
    n_code = n_obj = 0
    for st, name_expr, v in stores:
        tpl = str_value(name_expr, rc.node)
        if tpl is None:
            raise AnalysisError(f"{rc.loc(st)}: the name of the planted global is not a template the analysis can evaluate")
        holes = HOLE.findall(tpl)
        hole_nodes = []
        for h in holes:
            try:
                hn = ast.parse(h, mode="eval").body
            except SyntaxError:
                continue
            # a hole that is a local assigned once stands for what was assigned (`serial = next(counter)`)
            seen_names = set()
            while isinstance(hn, ast.Name) and hn.id not in seen_names and hn.id not in params:
                seen_names.add(hn.id)
                defs = _local_defs(rc.node, hn.id)
                if len(defs) != 1:
                    break
                hn = defs[0]
            hole_nodes.append(hn)
        roots = {n.id for n in ast.walk(v) if isinstance(n, ast.Name)}
        has_counter = any(isinstance(h, ast.Call) and call_name(h) == "next" and h.args and dotted(h.args[0]) in counters for h in hole_nodes)
        has_serial = any(isinstance(h, ast.Attribute) and h.attr in serial_attrs and isinstance(h.value, ast.Name) and h.value.id in params for h in hole_nodes)
        if roots & fresh:
            n_code += 1
            ctx.ob(
                f"{rc.key}:code-global-name",
                rc.loc(st),
                f"`{short(st, 60)}`: a value made by this re-compilation is planted under a name that contains a fresh number from a module-level counter",
                has_counter,
                f"the name `{tpl}` is not unique to this re-compilation: two methods whose name parts coincide (closures made by one `def`, a method shared by a function and its variant) overwrite each other's code object, and call_next continues after the wrong method",
            )
        elif roots & params:
            n_obj += 1
            ctx.ob(
                f"{rc.key}:object-global-name:{short(v, 30)}",
                rc.loc(st),
                f"`{short(st, 60)}`: a value of the function object is planted under a name that contains the object's serial number",
                has_serial or has_counter,
                f"the name `{tpl}` is shared by different function objects: recurse / call_next in one function's methods resolve in another function's table",
            )
    ctx.require(n_code + n_obj >= 2, f"{rc.key}: planted globals not recognised (code {n_code}, object {n_obj})")


# ---------------------------------------------------------------------------------------- call paths are pure
def call_paths_keep_no_state(ctx):
    """The methods of the function class that run per call (they take the call's *args) write nothing to the object:
    a memo of lookup results outside the cache classes is keyed differently from the table and survives rebuilds."""
    oc = A.function_class(ctx.repo)
    guard = A.guard_method(ctx.repo)
    n = 0
    for m in oc.methods.values():
        if not m.node.args.vararg:
            continue
        rv = recv_name(m)
        if any(is_self_attr(c.func, guard.name, selfname=rv) for st in all_stmts(m.node) for c in stmt_calls(st)):
            continue  # a mutator of the method set (it announces itself to the lock), not a call path
        n += 1
        ctx.touch(m)
        ws = func_writes(m.node, rv)
        ctx.ob(
            f"{m.key}:writes-nothing",
            m.loc(ws[0].stmt) if ws else m.loc(),
            "a per-call method of the function object stores nothing on the object (lookups are cached by the table only)",
            not ws,
            f"`{short(ws[0].stmt, 60)}` keeps per-call results on the function object: they are filed under another key than the table's and outlive what produced them, so a call's outcome depends on earlier calls (and concurrent calls race on it)" if ws else "",
        )
    ctx.require(n >= 2, f"{oc.key}: expected __call__ and next to take *args")


def value_checks_are_pure(ctx):
    """Per-call value checks of dependent types (check / __instancecheck__) write nothing to the shared type object."""
    repo = ctx.repo
    dm = A.dependent_meta(repo)
    n = 0
    for c in repo.all_classes():
        if not any(x is dm for x in repo.class_mro(c)):
            continue
        for name in ("check", "__instancecheck__"):
            m = c.methods.get(name)
            if m is None:
                continue
            n += 1
            ctx.touch(m)
            rv = recv_name(m)
            ws = func_writes(m.node, rv)
            # writes through type(self) / cls count as well
            for x in ast.walk(m.node):
                if isinstance(x, (ast.Assign, ast.AugAssign)):
                    for t in x.targets if isinstance(x, ast.Assign) else [x.target]:
                        if isinstance(t, ast.Attribute) and isinstance(t.value, ast.Call) and call_name(t.value) == "type":
                            ws.append(Record(stmt=x))
            ctx.ob(
                f"{m.key}:pure",
                m.loc(ws[0].stmt) if ws else m.loc(),
                "the per-call value check of a dependent type stores nothing on the (shared) type object",
                not ws,
                f"`{short(ws[0].stmt, 60)}` memoises on the type object shared by every call and thread: an answer computed for one value is served for another" if ws else "",
            )
    ctx.require(n >= 3, "expected check / __instancecheck__ methods on the dependent types")


# ---------------------------------------------------------------------------------------- resolve always ranks
def resolution_always_ranks(ctx):
    """Every normal return of the table's resolution passed through the ranking of the candidates: there is no
    shortcut that returns without storing the entries the caller re-reads."""
    from .c10 import _wrap_site

    res, call, w = _wrap_site(ctx)
    ctx.touch(res)
    rv = recv_name(res)
    cfg = cfg_of(ctx, res)
    ranker_calls = []
    multi = A.multimap(ctx.repo)
    for st in all_stmts(res.node):
        for c in stmt_calls(st):
            if is_self_attr(c.func, selfname=rv) and c.func.attr in multi.methods:
                m = multi.methods[c.func.attr]
                # the ranking: iterates the per-argument tables and returns groups
                if any(isinstance(x, ast.Attribute) and x.attr == "sort" for x in ast.walk(m.node)) or any(call_name(x) == "sorted" for x in ast.walk(m.node) if isinstance(x, ast.Call)):
                    ranker_calls.append(st)
    ctx.require(ranker_calls, f"{res.key}: no call of the candidate ranking found")
    nodes = [cfg.node_of(s) for s in ranker_calls]
    ok = cfg.exit not in cfg.reachable(cfg.entry, avoiding=nodes)
    early = None
    if not ok:
        for s in all_stmts(res.node):
            if isinstance(s, ast.Return) and cfg.node_of(s) in cfg.reachable(cfg.entry, avoiding=nodes):
                early = s
                break
    ctx.ob(
        f"{res.key}:ranks-before-return",
        res.loc(early) if early is not None else res.loc(),
        "every normal return of the resolution comes after the candidates were ranked (and their entries or errors stored)",
        ok,
        f"`{short(early, 50) if early is not None else 'a path'}` returns before ranking: the caller re-reads the key it just resolved, finds nothing, and resolves again without end (or serves what an earlier, different situation left there)",
    )


# ---------------------------------------------------------------------------------------- unregister removes all
def removal_is_exhaustive(ctx):
    """Removing a function from the definitions removes every signature it is registered under."""
    oc = A.function_class(ctx.repo)
    n = 0
    for m in oc.methods.values():
        others = [p for p in m.params if p != recv_name(m)]
        if len(others) != 1:
            continue
        p = others[0]
        tests = [c for c in ast.walk(m.node) if isinstance(c, ast.Compare) and len(c.ops) == 1 and isinstance(c.ops[0], (ast.Is, ast.IsNot)) and p in (dotted(c.left), dotted(c.comparators[0]))]
        tests = [c for c in tests if not (isinstance(c.comparators[0], ast.Constant) or isinstance(c.left, ast.Constant))]
        if not tests:
            continue
        if not func_writes(m.node, recv_name(m)):
            continue  # a query, not a removal
        n += 1
        ctx.touch(m)
        pm = parent_map(m.node)
        bad = None
        for c in tests:
            cur = c
            while cur in pm:
                cur = pm[cur]
                if isinstance(cur, (ast.For, ast.While)):
                    for x in ast.walk(cur):
                        if isinstance(x, (ast.Break, ast.Return)):
                            bad = x
                    break
        ctx.ob(
            f"{m.key}:removes-every-entry",
            m.loc(bad) if bad is not None else m.loc(tests[0]),
            f"`{m.name}` drops every definition whose function is the given one (no early exit from the scan)",
            bad is None,
            "the scan stops at the first hit: a function registered under several signatures stays reachable through the others after it was unregistered",
        )
    ctx.require(n >= 1, f"{oc.key}: no method removing a definition by identity found")


# ---------------------------------------------------------------------------------------- applicable set
def applicable_set_from_final_candidates(ctx):
    """The set of applicable code objects the table records per key is that of the final candidates."""
    from . import mroexec
    from .common import run_fallback

    n0 = len(ctx.obs)
    try:
        mroexec.law(ctx, "applicable-set")
    except AnalysisError as e:
        del ctx.obs[n0:]
        run_fallback(ctx, _applicable_set_shape, e, "candidate ranking")


def _applicable_set_shape(ctx):
    multi = A.multimap(ctx.repo)
    n = 0
    for m in multi.methods.values():
        rv = recv_name(m)
        for st in all_stmts(m.node):
            if not (isinstance(st, ast.Assign) and len(st.targets) == 1 and isinstance(st.targets[0], ast.Subscript) and is_self_attr(st.targets[0].value, selfname=rv)):
                continue
            v = st.value
            if "__code__" not in src(v):
                continue
            comps = [x for x in ast.walk(v) if isinstance(x, (ast.SetComp, ast.ListComp, ast.GeneratorExp))]
            if not comps:
                continue
            comp = comps[0]
            n += 1
            ctx.touch(m)
            base = dotted(comp.generators[0].iter)
            # the final candidates: the local that is sorted / ranked afterwards
            sorted_locals = {dotted(c.func.value) for c in ast.walk(m.node) if isinstance(c, ast.Call) and isinstance(c.func, ast.Attribute) and c.func.attr == "sort"}
            sorted_locals |= {t.id for s in all_stmts(m.node) if isinstance(s, ast.Assign) and isinstance(s.value, ast.Call) and call_name(s.value) == "sorted" for t in s.targets if isinstance(t, ast.Name)}
            ctx.require(sorted_locals, f"{m.key}: the candidate list that is sorted was not found")
            ctx.ob(
                f"{m.key}:applicable-set-source",
                m.loc(st),
                f"the applicable-code set stored by `{short(st, 40)}` ranges over the final, sorted candidate list ({', '.join(sorted(x for x in sorted_locals if x))})",
                base in sorted_locals and not comp.generators[0].ifs and len(comp.generators) == 1,
                f"the set ranges over `{base}`, which also holds handlers eliminated by a later argument: a caller that matches only a prefix of the arguments is treated as part of the chain and call_next raises instead of behaving like a fresh call",
            )
    ctx.require(n >= 1, f"{multi.key}: the store of the applicable-code set was not found")


# ---------------------------------------------------------------------------------------- adapter unconditional
def adaptation_is_per_build(ctx):
    """Each registration performed by a build adapts the original afresh: the adapter's call is on every path of the
    per-definition registration and its result is not kept on the function object."""
    repo = ctx.repo
    oc = A.function_class(repo)
    ad = A.adapter(repo)
    n = 0
    for m in oc.methods.values():
        calls = [c for c in ast.walk(m.node) if isinstance(c, ast.Call) and call_name(c) == ad.name]
        if not calls:
            continue
        n += 1
        ctx.touch(m)
        cfg = cfg_of(ctx, m)
        sts = [s for s in all_stmts(m.node) if any(c in stmt_calls(s) for c in calls)]
        nodes = [cfg.node_of(s) for s in sts]
        always = cfg.exit not in cfg.reachable(cfg.entry, avoiding=nodes)
        rv = recv_name(m)
        kept = [w for w in func_writes(m.node, rv) if any(c in list(ast.walk(w.node)) for c in calls)]
        ctx.ob(
            f"{m.key}:adapts-on-every-path",
            m.loc(sts[0]),
            f"`{ad.name}` runs on every path of `{m.name}` and its result is not kept on the function object",
            always and not kept,
            "the adapted method is reused from an earlier build: its recurse / call_next names were bound to the table of that build, so nested calls resolve in a stale table after a rebuild that came through a mixin or parent",
        )
    ctx.require(n >= 1, f"{oc.key}: no method calls the adapter")


# ---------------------------------------------------------------------------------------- annotations normalised
def annotations_pass_the_normaliser(ctx):
    """Every annotation read from a signature goes through the normaliser before it is stored or compared."""
    repo = ctx.repo
    nz = A.normalizer(repo)
    # names under which the normaliser instance is callable
    names = set()
    for mod in repo.modules.values():
        for st in mod.tree.body:
            if isinstance(st, ast.Assign) and isinstance(st.value, ast.Call) and call_name(st.value) == nz.name:
                names |= {t.id for t in st.targets if isinstance(t, ast.Name)}
    ctx.require(names, f"no module-level instance of {nz.name}")
    n = 0
    for f in repo.all_funcs():
        if f.cls is nz:
            continue
        pm = None
        for x in ast.walk(f.node):
            if isinstance(x, ast.Attribute) and x.attr in ("annotation", "return_annotation") and isinstance(x.ctx, ast.Load):
                if pm is None:
                    pm = parent_map(f.node)
                p = pm.get(x)
                ok = isinstance(p, ast.Call) and call_name(p) in names and p.args and p.args[0] is x
                if not ok and isinstance(p, ast.Assign) and len(p.targets) == 1 and isinstance(p.targets[0], ast.Name) and p.value is x:
                    # kept in a local: every use of the local must be the normaliser's argument
                    v = p.targets[0].id
                    loads = [u for u in ast.walk(f.node) if isinstance(u, ast.Name) and u.id == v and isinstance(u.ctx, ast.Load)]
                    stores = [u for u in ast.walk(f.node) if isinstance(u, ast.Name) and u.id == v and isinstance(u.ctx, ast.Store)]
                    ok = bool(loads) and len(stores) == 1 and all(isinstance(pm.get(u), ast.Call) and call_name(pm.get(u)) in names and pm.get(u).args and pm.get(u).args[0] is u for u in loads)
                n += 1
                ctx.touch(f)
                ctx.ob(
                    f"{f.key}:annotation-normalised:{short(p if isinstance(p, ast.AST) else x, 40)}",
                    f.loc(x),
                    f"`{short(x, 30)}` is read only as the argument of the normaliser",
                    ok,
                    f"`{short(p if isinstance(p, ast.AST) else x, 60)}` uses the raw annotation: string / typing forms are not converted, so a parameter annotated `type[...]` through a string or alias is not recognised as type-valued",
                )
    ctx.require(n >= 3, "expected the signature extraction to read parameter and return annotations")


# ---------------------------------------------------------------------------------------- eq / hash
def _attrs_read(m, depth=0):
    """Attributes of the receiver a method consults, looking through helper methods of its class (two levels)."""
    rv = recv_name(m)
    out = set()
    for x in ast.walk(m.node):
        if is_self_attr(x, selfname=rv):
            h = m.cls.methods.get(x.attr) if m.cls is not None else None
            if h is not None and h is not m and depth < 2:
                out |= _attrs_read(h, depth + 1)
            else:
                out.add(x.attr)
    return out


def hash_reads_what_eq_compares(ctx):
    """For every class of the package that defines both __eq__ and __hash__: the hash consults only attributes the
    equality compares (otherwise equal objects hash differently), and for the dependent types the equality consults
    every field the constructor stores."""
    repo = ctx.repo
    n = 0
    for c in repo.all_classes():
        eq, hs = c.methods.get("__eq__"), c.methods.get("__hash__")
        if eq is None or hs is None:
            continue
        n += 1
        ctx.touch(eq, hs)
        ea, ha = _attrs_read(eq), _attrs_read(hs)
        extra = ha - ea
        ctx.ob(
            f"{hs.key}:subset-of-eq",
            hs.loc(),
            f"`{c.name}.__hash__` consults only what `__eq__` compares ({', '.join(sorted(ea)) or 'nothing'})",
            not extra,
            f"the hash also depends on {sorted(extra)}, which equality does not compare: two equal types land in different buckets, so a type registered once is looked up as missing (or registered twice)",
        )
    ctx.require(n >= 3, "expected several classes with __eq__ and __hash__")
    dm = A.dependent_meta(repo)
    m = 0
    for c in repo.all_classes():
        if not any(x is dm for x in repo.class_mro(c)) or "__eq__" not in c.methods:
            continue
        # fields stored by the constructors along the class chain, grouped by the value they are given
        groups = []  # list of sets of attribute names holding one value
        inits = [cc.methods["__init__"] for cc in repo.class_mro(c) if "__init__" in cc.methods]
        if not inits:
            continue
        init = inits[0]
        for ini in inits:
            rv = recv_name(ini)
            by_source = {}
            for st in all_stmts(ini.node):
                if isinstance(st, ast.Assign) and not isinstance(st.value, ast.Constant):
                    names = {t.attr for t in st.targets if is_self_attr(t, selfname=rv)}
                    if names:
                        # attributes given the same parameter (in one statement or in several) hold one value
                        src_key = st.value.id if isinstance(st.value, ast.Name) and st.value.id in ini.params else None
                        if src_key is not None and src_key in by_source:
                            by_source[src_key] |= names
                        else:
                            groups.append(names)
                            if src_key is not None:
                                by_source[src_key] = names
            if not any(isinstance(x, ast.Call) and isinstance(x.func, ast.Attribute) and x.func.attr == "__init__" and isinstance(x.func.value, ast.Call) and call_name(x.func.value) == "super" for x in ast.walk(ini.node)):
                break
        stored = {min(g) for g in groups}
        eq = c.methods["__eq__"]
        ea = _attrs_read(eq)
        # delegation to the parent's equality covers the parent's fields
        if any(isinstance(x, ast.Call) and isinstance(x.func, ast.Attribute) and x.func.attr == "__eq__" for x in ast.walk(eq.node)):
            continue
        m += 1
        ctx.touch(eq, init)
        missing = {min(g) for g in groups if not (g & ea)}
        ctx.ob(
            f"{eq.key}:covers-constructor-fields",
            eq.loc(),
            f"`{c.name}.__eq__` compares every field the constructor stores ({', '.join(sorted(stored))})",
            not missing,
            f"equality ignores {sorted(missing)}: two dependent types that differ only there are one key of the method table, so the method registered second replaces the first and values of the first's bound have no applicable method",
        )
    ctx.require(m >= 1, "expected a dependent type class with its own equality")


def equality_tells_lookalikes_apart(ctx):
    """Every `__eq__` of the package, interpreted on two objects whose constituents are *different* objects that look
    alike (same code, same name, same module): the two are unequal.  Types are keys of the method table, so two types
    that compare equal are one registration."""
    import itertools

    from ..metainterp import HostInterp, Instance, Raised, Record

    repo = ctx.repo
    n = 0
    for c in repo.all_classes():
        eq = c.methods.get("__eq__")
        if eq is None or len(eq.params) != 2:
            continue
        attrs = sorted(_attrs_read(eq))
        if not attrs or len(attrs) > 4:
            continue
        methods = repo.raw_methods(c)
        funcs = {k: g.node for k, g in eq.module.funcs.items() if g.parent is None and g.cls is None and not g.node.decorator_list}
        code = Record(kind="one code object")

        def lookalike():
            return Record(__code__=code, __name__="check", __qualname__="factory.<locals>.check", __module__="m", __doc__=None, __defaults__=None, __kwdefaults__=None)

        verdicts, shapes_tried = [], 0
        for shape, differing in itertools.product(itertools.product(("object", "tuple"), repeat=len(attrs)), attrs):
            a, b = Instance(c.name, methods), Instance(c.name, methods)
            for at, sh in zip(attrs, shape):
                # the two objects differ in one constituent and share the others
                a.__dict__[at] = lookalike() if sh == "object" else (lookalike(),)
                b.__dict__[at] = a.__dict__[at] if at != differing else (lookalike() if sh == "object" else (lookalike(),))
            hi = HostInterp(methods, a, {}, globals_env={}, classes={}, functions=funcs)
            shapes_tried += 1
            try:
                r = hi.call_function(methods["__eq__"], [a, b], {}, {})
            except (AnalysisError, Raised, TypeError, AttributeError):
                continue
            verdicts.append(((shape, differing), r))
        if not verdicts:
            continue
        n += 1
        ctx.touch(eq)
        bad = [(sh, r) for sh, r in verdicts if r is not NotImplemented and r]
        ctx.ob(
            f"{eq.key}:lookalikes-differ",
            eq.loc(),
            f"`{c.name}.__eq__` tells apart two objects built from different look-alike constituents ({', '.join(attrs)}; interpreted on {len(verdicts)} shapes)",
            not bad,
            f"two objects whose {bad[0][0][1] if bad else ''} are different functions/objects with the same code and name (everything else shared) compare equal: two types made by one factory (two deferred classes, two checks closed over different values) are one key of the method table, so one's method answers for the other",
        )
    ctx.require(n >= 3, "expected several interpretable __eq__ methods")


# ---------------------------------------------------------------------------------------- merge precedence
def definition_merge_overrides(ctx):
    """The view of all definitions merges the mixins in order, later ones overriding earlier ones, own last
    (decided by interpreting the reader, see c16.merged_view)."""
    from .c16 import effective_readers, merged_view

    rd, _ = effective_readers(ctx)
    ctx.touch(rd)
    merged_view(ctx, rd)


def definition_view_is_current(ctx):
    """The view of all definitions shows the ancestors' current tables on every read (see c16.merged_view_is_current)."""
    from .c16 import effective_readers, merged_view_is_current

    rd, _ = effective_readers(ctx)
    ctx.touch(rd)
    merged_view_is_current(ctx, rd)


def conversion_leaves_argument_alone(ctx):
    """Converting a plain function to a function object does not mark the plain function."""
    repo = ctx.repo
    oc = A.function_class(repo)
    n = 0
    for f in repo.all_funcs():
        if f.cls is not None or f.parent is not None or len(f.params) != 1:
            continue
        if not any(isinstance(c, ast.Call) and call_name(c) in ("inspect.isfunction", "isfunction") for c in ast.walk(f.node)):
            continue
        if not any(isinstance(c, ast.Call) and call_name(c) == "isinstance" and len(c.args) == 2 and dotted(c.args[1]) == oc.name for c in ast.walk(f.node)):
            continue
        n += 1
        ctx.touch(f)
        p = f.params[0]
        ws = [st for st in all_stmts(f.node) if isinstance(st, (ast.Assign, ast.AugAssign)) for t in (st.targets if isinstance(st, ast.Assign) else [st.target]) if isinstance(t, ast.Attribute) and dotted(t.value) == p]
        ws += [c for c in ast.walk(f.node) if isinstance(c, ast.Call) and call_name(c) == "setattr" and c.args and dotted(c.args[0]) == p]
        ctx.ob(
            f"{f.key}:argument-unmarked",
            f.loc(ws[0]) if ws else f.loc(),
            f"`{f.name}` stores nothing on the object it converts",
            not ws,
            f"`{short(ws[0], 50) if ws else ''}` marks the plain function: from then on the class machinery takes the inherited plain method for a function object and drops it from (or crashes on) a later class's merge",
        )
    ctx.require(n >= 1, "the conversion to a function object was not found")


# ---------------------------------------------------------------------------------------- update order
def own_rebuild_before_dependents(ctx):
    """The propagation of a change rebuilds the function itself before it walks its dependents."""
    repo = ctx.repo
    build = A.build_method(repo)
    try:
        upd = A.update_method(repo)
    except AnalysisError:
        # no method rebuilds a built function at all (C05.R2 / C16.R3 report that): nothing to order
        ctx.ob(f"{build.key}:no-propagation-to-order", build.loc(), "no propagation method: the ordering of own rebuild and dependents is not applicable", True, "")
        return
    ctx.touch(upd)
    rv = recv_name(upd)
    cfg = cfg_of(ctx, upd)
    own = [s for s in all_stmts(upd.node) if any(is_self_attr(c.func, build.name, selfname=rv) for c in stmt_calls(s))]
    loops = [s for s in all_stmts(upd.node) if isinstance(s, ast.For) and any(isinstance(c, ast.Call) and isinstance(c.func, ast.Attribute) and c.func.attr == upd.name and not is_self_attr(c.func, selfname=rv) for c in ast.walk(s))]
    if not (own and loops):
        # nothing to order (the presence of both is C05.R2 / C16.R3's obligation)
        ctx.ob(f"{upd.key}:nothing-to-order", upd.loc(), "own rebuild or dependents' walk absent: the ordering obligation is not applicable", True, "")
        return
    own_nodes = {cfg.node_of(s) for s in own}
    # the guard of the own rebuild (`if self._compiled:`) counts as the own-rebuild point
    pm = parent_map(upd.node)
    for s in own:
        p = pm.get(s)
        if isinstance(p, ast.If):
            own_nodes.add(cfg.node_of(p))
    bad = [lp for lp in loops if not cfg.dominated_by(cfg.node_of(lp), own_nodes)]
    ctx.ob(
        f"{upd.key}:self-before-dependents",
        upd.loc(bad[0]) if bad else upd.loc(loops[0]),
        "a change is applied to the function itself before its dependents are updated",
        not bad,
        "the dependents are rebuilt first: when the rebuild of one of them fails, the error leaves the function itself on its old table although its own method set is valid",
    )


# ---------------------------------------------------------------------------------------- sort key vs dominance
def sort_key_refines_dominance(ctx):
    """Interpret Candidate.sort_key and Candidate.dominates on a finite domain: whenever A truly dominates B (higher
    priority, or equal priority and dominates(A, B)), A's sort key is strictly greater - so the sorted list never
    depends on the iteration order of the candidate set for a dominated pair."""
    repo = ctx.repo
    multi = A.multimap(repo)
    cands = [c for c in repo.all_classes() if c.module is multi.module and "dominates" in c.methods]
    ctx.require(len(cands) == 1, "candidate class (with `dominates`) not found")
    cc = cands[0]
    dom = cc.methods["dominates"]
    # the sort key: the method passed as key= to the sort of the candidate list
    keyname = None
    for m in multi.methods.values():
        for c in ast.walk(m.node):
            if isinstance(c, ast.Call) and (call_name(c) == "sorted" or (isinstance(c.func, ast.Attribute) and c.func.attr == "sort")):
                for k in c.keywords:
                    if k.arg == "key" and isinstance(k.value, ast.Attribute) and dotted(k.value.value) == cc.name:
                        keyname = k.value.attr
                        rev = any(kk.arg == "reverse" and isinstance(kk.value, ast.Constant) and kk.value.value is True for kk in c.keywords)
    ctx.require(keyname in cc.methods, f"{multi.key}: the candidates are not sorted by a method of {cc.name}")
    key = cc.methods[keyname]
    ctx.touch(dom, key)
    methods = {n: m.node for n, m in cc.methods.items()}
    hi = HostInterp({}, Record(), {}, globals_env={}, classes={cc.name: methods}, functions={})
    fields = [st.target.id for st in cc.node.body if isinstance(st, ast.AnnAssign) and isinstance(st.target, ast.Name)]
    ctx.require({"priority", "specificity", "tiebreak"} <= set(fields), f"{cc.key}: fields changed ({fields})")

    def mk(p, s, t):
        o = Instance(cc.name, methods)
        o.__dict__.update(handler=f"h{p}{s}{t}", priority=p, specificity=s, tiebreak=t)
        return o

    specs = [(a,) for a in (0, 1, 2)] + [(a, b) for a in (0, 1, 2) for b in (0, 1, 2)]
    objs = [(p, s, t) for p in (0, 1) for s in specs for t in (0, -1, -2)]
    bad = None
    n = 0
    keys = {}
    for o in objs:
        keys[o] = hi.call_function(methods[keyname], [mk(*o)], {}, {})
    for a in objs:
        for b in objs:
            if len(a[1]) != len(b[1]) or a is b:
                continue
            if a[0] > b[0]:
                d = True
            elif a[0] == b[0]:
                d = bool(hi.call_function(methods["dominates"], [mk(*a), mk(*b)], {}, {}))
            else:
                d = False
            n += 1
            if d:
                ka, kb = keys[a], keys[b]
                ok = (ka > kb) if rev else (ka < kb)
                if not ok and bad is None:
                    bad = (a, b, ka, kb)
    ctx.ob(
        f"{key.key}:refines-dominance",
        key.loc(),
        f"whenever candidate A dominates candidate B, A sorts strictly before B ({n} pairs interpreted)",
        bad is None,
        f"(priority, specificity, tiebreak) = {bad[0]} dominates {bad[1]} but their sort keys are {bad[2]} and {bad[3]}: the stable sort leaves them in the iteration order of the candidate set (memory addresses), and when the dominated one comes first both land in one rank - the same call is ambiguous in one process and resolved in the next" if bad else "",
    )


# ---------------------------------------------------------------------------------------- strict order of dependent types
def dependent_lt_is_antisymmetric(ctx):
    """Interpret each `__lt__` of the dependent types on parameter vectors over {Any, X, Y}: never a < b and b < a,
    never a < a."""
    repo = ctx.repo
    dm = A.dependent_meta(repo)
    n = 0
    for c in repo.all_classes():
        if not any(x is dm for x in repo.class_mro(c)) or "__lt__" not in c.methods:
            continue
        m = c.methods["__lt__"]
        attrs = _attrs_read(m)
        if attrs != {"parameters"}:
            continue
        n += 1
        ctx.touch(m)
        ANY = Record(name="Any")
        methods = {k: v.node for k, v in c.methods.items()}
        hi = HostInterp({}, Record(), {}, globals_env={"Any": ANY, "typing": Record(Any=ANY)}, classes={c.name: methods}, functions={})

        def mk(ps):
            o = Instance(c.name, methods)
            o.__dict__.update(parameters=tuple(ps))
            return o

        vals = [ANY, "X", "Y"]
        vecs = [v for k in (1, 2, 3) for v in itertools.product(vals, repeat=k)]
        bad = None
        wider = None
        cnt = 0
        for a in vecs:
            for b in vecs:
                cnt += 1
                try:
                    ab = bool(hi.call_function(m.node, [mk(a), mk(b)], {}, {}))
                    ba = bool(hi.call_function(m.node, [mk(b), mk(a)], {}, {}))
                except Raised:
                    continue
                if ab and ba and bad is None:
                    bad = (a, b)
                crossing = len(a) == len(b) and any(x is ANY and y is not ANY for x, y in zip(a, b)) and any(y is ANY and x is not ANY for x, y in zip(a, b))
                if (ab or ba) and crossing and wider is None:
                    wider = (a, b)
        show = lambda v: "(" + ", ".join("Any" if x is ANY else x for x in v) + ")"  # noqa: E731
        ctx.ob(
            f"{m.key}:crossing-patterns-unordered",
            m.loc(),
            f"`{c.name}.__lt__` leaves two patterns unordered when each has a wildcard where the other is fixed ({cnt} parameter pairs interpreted)",
            wider is None,
            f"parameters {show(wider[0])} and {show(wider[1])} are ordered although each has a wildcard where the other is fixed: each accepts values the other rejects, yet one is preferred, so a value satisfying both runs one method silently instead of raising the ambiguity error" if wider else "",
        )
        ctx.ob(
            f"{m.key}:antisymmetric",
            m.loc(),
            f"`{c.name}.__lt__` never holds in both directions ({cnt} parameter pairs interpreted)",
            bad is None,
            f"parameters {show(bad[0])} < {show(bad[1])} and {show(bad[1])} < {show(bad[0])} both hold: the type order answers LESS in both directions, so which method wins depends on the order of comparison" if bad else "",
        )
    ctx.require(n >= 1, "no parameter-wise __lt__ on a dependent type found")


def foreign_operand_is_deferred(ctx):
    """A type-order hook written for operands of its own class answers NotImplemented for any other operand, which
    makes the comparison consult the other operand's hook (Union / Intersection) or the subclass fallback."""
    repo = ctx.repo
    dm = A.dependent_meta(repo)
    n = 0
    for c in repo.all_classes():
        if c is dm or not any(x is dm for x in repo.class_mro(c)) or "__type_order__" not in c.methods:
            continue
        m = c.methods["__type_order__"]
        rv = recv_name(m)
        other = [p for p in m.params if p != rv]
        if len(other) != 1:
            continue
        tests = [x for x in ast.walk(m.node) if isinstance(x, ast.Call) and call_name(x) == "isinstance" and len(x.args) == 2 and dotted(x.args[0]) == other[0] and dotted(x.args[1]) in (c.name, f"type({rv})")]
        if not tests:
            continue
        n += 1
        ctx.touch(m)
        NI = Record(name="NotImplemented")
        methods = {k: v.node for k, v in c.methods.items()}
        hi = HostInterp({}, Record(), {}, globals_env={"NotImplemented": NI, "isinstance": lambda a, b: False, "super": lambda *a: Record(**{"__type_order__": lambda o: "<inherited>"})}, classes={c.name: methods}, functions={})
        me = Instance(c.name, methods)
        try:
            got = hi.call_function(m.node, [me, Record(kind="foreign")], {}, {})
        except (Raised, AnalysisError) as e:
            got = f"<{e}>"
        ctx.ob(
            f"{m.key}:foreign-operand-deferred",
            m.loc(),
            f"`{c.name}.__type_order__` answers NotImplemented for an operand that is not a {c.name}",
            got is NI,
            f"for a foreign operand the hook answers {got!r}: the left operand's hook wins, the other operand's own rule (union / intersection membership) is never asked, and the order of a product type against a union or intersection that contains one is no longer mirror-symmetric",
        )
    ctx.require(n >= 1, "no class-specific type-order hook found")


# ---------------------------------------------------------------------------------------- entry parts
def entry_parts_unconditional(ctx):
    """Where the build copies the parts of the generated entry point by a loop over attribute names, every part is
    copied whatever its value (an empty default tuple must replace a stale non-empty one)."""
    repo = ctx.repo
    build = A.build_method(repo)
    ctx.touch(build)
    rv = recv_name(build)
    pm = parent_map(build.node)
    seen = 0
    for c in ast.walk(build.node):
        if isinstance(c, ast.Call) and call_name(c) == "setattr" and len(c.args) == 3:
            seen += 1
            cur = c
            cond = None
            while cur in pm:
                p = pm[cur]
                if isinstance(p, ast.If):
                    cond = p
                    break
                if isinstance(p, (ast.For, ast.FunctionDef)):
                    break
                cur = p
            ctx.ob(
                f"{build.key}:setattr-part:{short(c.args[1], 20)}",
                build.loc(c),
                f"`{short(c, 50)}` copies the part whatever its value",
                cond is None,
                f"the copy is skipped when `{short(cond.test, 40) if cond else ''}` is false: after a rebuild in which a parameter lost its default, the live entry point keeps the stale defaults of the previous build",
            )
    return seen


# ---------------------------------------------------------------------------------------- stored values are re-readable
ONE_SHOT = ("filter", "map", "zip", "iter", "reversed", "enumerate", "itertools.chain", "chain", "itertools.islice", "islice")


def tables_hold_rereadable_values(ctx):
    """What the cache classes store in their tables is read again on later lookups: never a one-shot iterator."""
    repo = ctx.repo
    n = 0
    for cls in A.cache_classes(repo):
        for m in cls.methods.values():
            rv = recv_name(m)
            for st in all_stmts(m.node):
                if not isinstance(st, ast.Assign):
                    continue
                tgts = [t for t in st.targets if isinstance(t, ast.Subscript) and (is_self_attr(t.value, selfname=rv) or (isinstance(t.value, ast.Name) and t.value.id == rv))]
                if not tgts:
                    continue
                n += 1
                ctx.touch(m)
                v = st.value
                lazy = isinstance(v, ast.GeneratorExp) or (isinstance(v, ast.Call) and (call_name(v) or "") in ONE_SHOT)
                ctx.ob(
                    f"{m.key}:stored-value-rereadable:{short(tgts[0], 30)}",
                    m.loc(st),
                    f"`{short(st, 50)}` stores a value that can be read any number of times",
                    not lazy,
                    f"`{short(v, 50)}` is a one-shot iterator: the first lookup that reads the entry consumes it, every later one sees it empty - the same call is answered differently the second time",
                )
    ctx.require(n >= 3, "expected stores into the tables of the cache classes")


def per_position_lookup_ignores_cache(ctx):
    """Interpret the per-position map's miss handler for a class with two bases, once on an empty cache and once on a
    cache that already holds the (correct) entries of its bases: the result must be the same."""
    repo = ctx.repo
    tm = A.typemap(repo)
    miss = tm.methods.get("__missing__")
    ctx.require(miss is not None, f"{tm.key} lost __missing__")
    ctx.touch(miss)
    from ..metainterp import HostFn
    from .resolveexec import Table

    # real (host) classes as stand-ins: the code may ask for __base__, __mro__, type(t)
    O = object
    A_ = type("A", (O,), {})
    Loud = type("Loud", (O,), {})
    C = type("C", (A_, Loud), {})
    hA, hL, hO = "handler-A", "handler-Loud", "handler-object"
    layers = {C: [[A_, Loud], [O]], A_: [[A_], [O]], Loud: [[Loud], [O]], O: [[O]]}
    sorter = A.layer_sorter(repo)

    def run(prefill):
        me = Table(entries={A_: {hA}, Loud: {hL}, O: {hO}}, types={A_, Loud, O})
        for k, v in prefill.items():
            dict.__setitem__(me, k, dict(v))
        genv = {sorter.name: lambda cls, avail: [list(g) for g in layers[cls]], "type": type}
        hi = HostInterp({n: m.node for n, m in tm.methods.items()}, me, {}, globals_env=genv, classes={}, functions={})
        hi.host_types = hi.host_types + (Table,)
        try:
            return dict(hi.call_function(miss.node, [me, C], {}, {})), dict(me)
        except Raised as r:
            return ("raised", r.what), dict(me)

    try:
        base, _ = run({})
        correct = {A_: {hA: 1, hO: 0}, Loud: {hL: 1, hO: 0}, O: {hO: 0}}
        variants = {"the first base looked up earlier": {A_: correct[A_]}, "both bases looked up earlier": {A_: correct[A_], Loud: correct[Loud]}, "object looked up earlier": {O: correct[O]}}
        bad = None
        for what, pre in variants.items():
            got, _ = run(pre)
            if got != base and bad is None:
                bad = (what, got, base)
    except AnalysisError as e:
        ctx.note(f"{miss.key} not interpretable ({e}); reads of the own cache checked syntactically")
        rv = recv_name(miss)
        reads = [x for x in ast.walk(miss.node) if (isinstance(x, ast.Subscript) and isinstance(x.ctx, ast.Load) and isinstance(x.value, ast.Name) and x.value.id == rv) or (isinstance(x, ast.Compare) and any(isinstance(o, (ast.In, ast.NotIn)) for o in x.ops) and any(isinstance(c, ast.Name) and c.id == rv for c in x.comparators)) or (isinstance(x, ast.Call) and call_name(x) in ("dict.__getitem__", "dict.get", f"{rv}.get"))]
        ctx.ob(f"{miss.key}:ignores-cache", miss.loc(reads[0]) if reads else miss.loc(), "the per-position lookup computes its result from the registrations only, never from entries cached for other classes", not reads, f"`{short(reads[0], 40) if reads else ''}` reads the cache: what a lookup returns depends on which other classes were looked up before")
        return
    ctx.ob(
        f"{miss.key}:ignores-cache",
        miss.loc(),
        "the per-position lookup of a class gives the same result whatever entries of other classes are already cached (interpreted for a class with two bases)",
        bad is None and isinstance(base, dict) and base.get(hL) == base.get(hA),
        (f"with {bad[0]} the lookup of C(A, Loud) gives {bad[1]} instead of {bad[2]}: the outcome of a call depends on earlier calls" if bad else f"the lookup of C(A, Loud) gives {base}"),
    )


# ---------------------------------------------------------------------------------------- build state read after the build
def build_state_read_after_ensuring_the_build(ctx):
    """A method that makes sure the function is built reads what the build replaces (the table, the signature
    analysis) only afterwards: a reference taken before belongs to the previous, possibly empty, build."""
    repo = ctx.repo
    oc = A.function_class(repo)
    build = A.build_method(repo)
    # attributes the build rebinds, directly or through the methods it calls on self
    rb = recv_name(build)
    replaced = {w.attr for w in func_writes(build.node, rb) if w.kind == "rebind"}
    for st in all_stmts(build.node):
        for c in stmt_calls(st):
            if is_self_attr(c.func, selfname=rb) and c.func.attr in oc.methods:
                h = oc.methods[c.func.attr]
                replaced |= {w.attr for w in func_writes(h.node, recv_name(h)) if w.kind == "rebind"}
    replaced -= {"_compiled", "dispatch"}
    ctx.require(len(replaced) >= 2, f"{build.key}: expected the build to replace the table and the analysis (found {sorted(replaced)})")
    # methods that ensure the build: they call the build, or a method whose body calls the build
    ensurers = {build.name}
    for m in oc.methods.values():
        rv = recv_name(m)
        if m is not build and any(is_self_attr(c.func, build.name, selfname=rv) for st in all_stmts(m.node) for c in stmt_calls(st)) and not func_writes(m.node, rv):
            ensurers.add(m.name)
    n = 0
    for m in oc.methods.values():
        if m is build or m.name in ensurers:
            continue
        rv = recv_name(m)
        cfg = cfg_of(ctx, m)
        ens = [st for st in all_stmts(m.node) if any(is_self_attr(c.func, selfname=rv) and c.func.attr in ensurers for c in stmt_calls(st))]
        if not ens:
            continue
        ens_nodes = [cfg.node_of(s) for s in ens]
        from ..cfg import header_exprs

        for st in all_stmts(m.node):
            if isinstance(st, (ast.FunctionDef, ast.ClassDef)) or st in ens:
                continue
            reads = [x for e in header_exprs(st) for x in ast.walk(e) if is_self_attr(x, selfname=rv) and x.attr in replaced and isinstance(x.ctx, ast.Load)]
            for x in reads:
                n += 1
                ctx.touch(m)
                ok = cfg.dominated_by(cfg.node_of(st), ens_nodes)
                ctx.ob(
                    f"{m.key}:{x.attr}-read-after-build",
                    m.loc(st),
                    f"`{short(st, 50)}` reads `{x.attr}`, which the build replaces, only after the build was ensured",
                    ok,
                    f"`{short(st, 50)}` takes `{x.attr}` before `{short(ens[0], 30)}`: on a function that was not built yet this is the empty object of the constructor, so the key is built with the wrong key functions (or looked up in a stale table)",
                )
    ctx.require(n >= 1, "no method reads build state after ensuring the build")


# ---------------------------------------------------------------------------------------- Literal bound
def literal_bound_covers_every_value(ctx):
    """Interpret the default bound of the literal type on values of one, two and three types: it is that type, or
    the union of all of them."""
    repo = ctx.repo
    n = 0
    for c in repo.all_classes():
        if "default_bound" not in c.methods or "check" not in c.methods:
            continue
        m = c.methods["default_bound"]
        if not m.node.args.vararg:
            continue
        # the literal type: its check is membership of the value among the parameters
        ck = c.methods["check"]
        if not any(isinstance(x, ast.Compare) and any(isinstance(o, ast.In) for o in x.ops) for x in ast.walk(ck.node)):
            continue
        n += 1
        ctx.touch(m)

        class UnionStub:
            def __class_getitem__(cls, item):
                return ("Union", tuple(item) if isinstance(item, (tuple, list)) else (item,))

            def __getitem__(self, item):
                return ("Union", tuple(item) if isinstance(item, (tuple, list)) else (item,))

        class V:
            def __init__(self, t):
                self.t = t

        bad = None
        cases = [("int",), ("int", "int"), ("int", "str"), ("str", "int"), ("int", "str", "float"), ("int", "str", "int")]
        for tys in cases:
            genv = {"type": lambda v: v.t, "Union": UnionStub()}
            me = Record(parameters=())
            hi = HostInterp({}, me, {}, globals_env=genv, classes={}, functions={})
            hi.host_types = hi.host_types + (UnionStub,)
            try:
                got = hi.call_function(m.node, [me] + [V(t) for t in tys], {}, {})
            except (AnalysisError, Raised) as e:
                raise AnalysisError(f"{m.key}: not interpretable: {e}")
            distinct = list(dict.fromkeys(tys))
            covered = {got} if isinstance(got, str) else (set(got[1]) if isinstance(got, tuple) and got and got[0] == "Union" else set())
            if covered != set(distinct) and bad is None:
                bad = (tys, got)
        ctx.ob(
            f"{m.key}:covers-every-value-type",
            m.loc(),
            f"the bound of a literal type is the type of its values, or the union of all their types ({len(cases)} cases interpreted)",
            bad is None,
            (f"for values of types {bad[0]} the bound is {bad[1]}: values of the other types can never reach the method, and reordering the values changes what it accepts" if bad else ""),
        )
    ctx.require(n >= 1, "literal type with a default bound not found")


# ---------------------------------------------------------------------------------------- rename only the unnamed
def entry_point_replaced_only_on_unnamed_or_fresh(ctx):
    """The method that re-creates the entry point (and with it loses every mark set on the old one) is called only on a
    function object that has no name yet, or on one created in the same function."""
    repo = ctx.repo
    oc = A.function_class(repo)
    renamers = [m for m in oc.methods.values() if m.name != "__init__" and any(w.attr == "dispatch" and w.kind == "rebind" for w in func_writes(m.node, recv_name(m))) and not any(is_self_attr(c.func, selfname=recv_name(m)) and c.func.attr == A.build_method(repo).name for st in all_stmts(m.node) for c in stmt_calls(st)) and m is not A.build_method(repo)]
    ctx.require(renamers, f"{oc.key}: no method replaces the entry point outside the build")
    from .common import holds_at

    names = {m.name for m in renamers}
    n = 0
    for f in repo.all_funcs():
        for c in ast.walk(f.node):
            if not (isinstance(c, ast.Call) and isinstance(c.func, ast.Attribute) and c.func.attr in names and isinstance(c.func.value, ast.Name)):
                continue
            recv = c.func.value.id
            n += 1
            ctx.touch(f)
            defs = [s.value for s in all_stmts(f.node) if isinstance(s, ast.Assign) and any(isinstance(t, ast.Name) and t.id == recv for t in s.targets)]
            fresh = bool(defs) and all(isinstance(v, ast.Call) and ((isinstance(v.func, ast.Attribute) and v.func.attr in ("copy", "variant")) or call_name(v) == oc.name) for v in defs)
            guarded = holds_at(ctx, f, c, lambda a, recv=recv: a[0] == "cmp" and a[1] == "Is" and {src(a[2]), src(a[3])} == {f"{recv}.name", "None"})
            ctx.ob(
                f"{f.key}:{c.func.attr}-on-unnamed-or-fresh",
                f.loc(c),
                f"`{short(c, 40)}` replaces the entry point of a function object that is new in this function or has no name yet",
                fresh or guarded,
                f"`{short(c, 40)}` re-creates the entry point of an object that may already be in use: marks carried by the old entry point (extend_super) are lost, and a class built with it as a mixin drops its definitions",
            )
    ctx.require(n >= 2, "expected calls of the renaming method")


# ---------------------------------------------------------------------------------------- mutators: rebuild last
def rebuild_is_the_mutators_last_effect(ctx):
    """A method that changes the method set (it announces itself to the lock and then propagates the change) has
    made all its changes - to itself and to the functions it links with - before it starts the rebuild."""
    from ..effects import MUTATORS

    repo = ctx.repo
    oc = A.function_class(repo)
    guard = A.guard_method(repo)
    try:
        upd = A.update_method(repo)
    except AnalysisError:
        ctx.ob(f"{oc.key}:no-propagation", oc.loc(), "no propagation method (reported by C05.R2 / C16.R3): nothing to order", True, "")
        return
    n = 0
    for m in oc.methods.values():
        rv = recv_name(m)
        calls_guard = any(is_self_attr(c.func, guard.name, selfname=rv) for st in all_stmts(m.node) for c in stmt_calls(st))
        upd_stmts = [st for st in all_stmts(m.node) if any(is_self_attr(c.func, upd.name, selfname=rv) for c in stmt_calls(st))]
        if not calls_guard or not upd_stmts or m is upd:
            continue
        n += 1
        ctx.touch(m)
        cfg = cfg_of(ctx, m)
        after = set()
        for u in upd_stmts:
            after |= cfg.reachable(cfg.node_of(u))
        late = []
        for st in all_stmts(m.node):
            if isinstance(st, (ast.FunctionDef, ast.ClassDef)) or cfg.node_of(st) not in after or st in upd_stmts:
                continue
            from ..cfg import header_exprs
            from ..effects import stmt_writes

            ws = list(stmt_writes(st, rv))
            for e in header_exprs(st):
                for x in ast.walk(e):
                    if isinstance(x, ast.Call) and isinstance(x.func, ast.Attribute) and x.func.attr in MUTATORS and isinstance(x.func.value, ast.Attribute) and x.func.value.attr in ("children", "mixins", "_defns"):
                        ws.append(x)
            if ws:
                late.append(st)
        ctx.ob(
            f"{m.key}:changes-before-rebuild",
            m.loc(late[0]) if late else m.loc(upd_stmts[0]),
            f"`{m.name}` has made all its changes before it calls `{upd.name}()`",
            not late,
            f"`{short(late[0], 50) if late else ''}` runs after the rebuild was started: when the rebuild fails, the change is only half made (the parent is locked by a child it does not know, so the offending method can never be removed)",
        )
    ctx.require(n >= 2, "expected several mutators that propagate their change")


# ---------------------------------------------------------------------------------------- shared default arguments
def no_shared_mutable_defaults_written(ctx):
    """A mutable default argument is one object shared by all calls (and threads): it is never written, and never
    handed to exec / eval as a namespace."""
    from ..effects import MUTATORS

    repo = ctx.repo
    n = 0
    for f in repo.all_funcs():
        a = f.node.args
        params = [x.arg for x in a.posonlyargs + a.args]
        defaults = dict(zip(params[len(params) - len(a.defaults):], a.defaults))
        defaults.update({x.arg: d for x, d in zip(a.kwonlyargs, a.kw_defaults) if d is not None})
        for p, d in defaults.items():
            if not (isinstance(d, (ast.Dict, ast.List, ast.Set)) or (isinstance(d, ast.Call) and call_name(d) in ("dict", "list", "set", "defaultdict"))):
                continue
            n += 1
            ctx.touch(f)
            bad = None
            for x in ast.walk(f.node):
                if isinstance(x, (ast.Assign, ast.AugAssign)):
                    for t in x.targets if isinstance(x, ast.Assign) else [x.target]:
                        if isinstance(t, ast.Subscript) and dotted(t.value) == p:
                            bad = x
                        if isinstance(x, ast.AugAssign) and dotted(t) == p:
                            bad = x
                if isinstance(x, ast.Call) and isinstance(x.func, ast.Attribute) and x.func.attr in MUTATORS and dotted(x.func.value) == p:
                    bad = x
                if isinstance(x, ast.Call) and call_name(x) in ("exec", "eval") and any(dotted(y) == p for y in list(x.args[1:]) + [k.value for k in x.keywords]):
                    bad = x
            ctx.ob(
                f"{f.key}:default-{p}-not-written",
                f.loc(bad) if bad is not None else f.loc(),
                f"the mutable default of `{p}` in `{f.name}` is only read",
                bad is None,
                f"`{short(bad, 50) if bad is not None else ''}` writes into the default object, which every call shares: two builds that generate code at the same time pick up each other's function",
            )
    ctx.require(n >= 1, "expected at least one mutable default argument in the package (instantiate_code's inject)")


# ---------------------------------------------------------------------------------------- constants in generated code
def inlined_constants_are_literals(ctx):
    """Interpret the name database's lookup on values of many kinds: what it returns is either a name it registered
    for the object, or source text that is a literal for an equal value of the same type."""
    import enum
    import math

    repo = ctx.repo
    gen = A.entry_generator(repo)
    # the name database: the class the generators instantiate whose __getitem__ yields names
    cands = []
    for c in ast.walk(gen.node):
        if isinstance(c, ast.Call) and isinstance(c.func, ast.Name):
            r = repo.resolve_name(gen.module, c.func.id)
            if r and r[0] == "class" and "__getitem__" in r[1].methods and r[1] not in cands:
                cands.append(r[1])
    ctx.require(len(cands) == 1, f"name database class not found ({[c.key for c in cands]})")
    ndb = cands[0]
    get = ndb.methods["__getitem__"]
    ctx.touch(get)
    methods = {n: m.node for cc in reversed(repo.class_mro(ndb)) for n, m in cc.methods.items()}

    class Color(str, enum.Enum):
        RED = "red"

    class Level(enum.IntEnum):
        LOW = 1

    class Obj:
        pass

    values = [("an int", 3), ("a negative int", -3), ("a str", "it's"), ("a float", 2.5), ("infinity", math.inf), ("minus infinity", -math.inf), ("nan", math.nan), ("True", True), ("a str-mixin enum member", Color.RED), ("an IntEnum member", Level.LOW), ("an object", Obj()), ("a class", Obj), ("None", None)]
    bad = None
    n = 0
    for what, v in values:
        obj = Instance(ndb.name, methods)
        hi = HostInterp({}, Record(), {}, globals_env={"count": lambda *a: __import__("itertools").count(*a)}, classes={ndb.name: methods}, functions={})
        try:
            hi.call_function(methods["__init__"], [obj, "INJECT"], {}, {})
            got = hi.call_function(get.node, [obj, v], {}, {})
        except (AnalysisError, Raised) as e:
            raise AnalysisError(f"{get.key}: not interpretable for {what}: {e}")
        n += 1
        named = {k: val for k, val in obj.__dict__.items() if isinstance(val, dict)}
        is_name = any(got in d and d[got] is v for d in named.values())
        ok = is_name
        if not ok and isinstance(got, str):
            try:
                back = ast.literal_eval(got)
                ok = type(back) is type(v) and (back == v)
            except (ValueError, SyntaxError):
                ok = False
        if not ok and bad is None:
            bad = (what, v, got)
    ctx.ob(
        f"{get.key}:inlined-text-is-a-literal",
        get.loc(),
        f"a value is handed to generated code under a registered name, or as text that is a literal for an equal value of the same type ({n} kinds of values interpreted)",
        bad is None,
        (f"for {bad[0]} ({bad[1]!r}) the generated code contains `{bad[2]}`, which is not a literal for that value: a function with such a Literal fails with SyntaxError / NameError at its first call (or compares against another value)" if bad else ""),
    )


# ---------------------------------------------------------------------------------------- key functions are not memoised
def key_functions_are_not_memoised(ctx):
    """The functions that turn an argument into its table key are computed per call: a value-keyed memo (lru_cache)
    hands equal-but-different arguments (True / 1.0, a named tuple / the equal tuple) the key of the first one seen."""
    from .c14 import get_callgraph_for

    repo = ctx.repo
    sub = A.subtler_fn(repo)
    cg = get_callgraph_for(ctx)
    clo = cg.closure([sub])
    n = 0
    bad = None
    for f in clo:
        n += 1
        ctx.touch(f)
        for d in f.node.decorator_list:
            name = dotted(d.func) if isinstance(d, ast.Call) else dotted(d)
            if name and name.split(".")[-1] in ("lru_cache", "cache", "cached"):
                bad = (f, d)
    ctx.ob(
        f"{sub.key}:not-memoised",
        bad[0].loc(bad[1]) if bad else sub.loc(),
        f"the type-valued key function and what it calls ({n} functions) are not memoised by argument value",
        bad is None,
        (f"`{bad[0].name}` is wrapped in `{short(bad[1], 30)}`: the memo is keyed by equality and hash of the argument, so an argument is given the key of an equal argument of another class seen earlier - the outcome of a call depends on earlier calls" if bad else ""),
    )


# ---------------------------------------------------------------------------------------- the order function's protocol
class _Ord:
    """Stand-in for a member of the Order enum."""

    def __init__(self, name):
        self.name = name

    def opposite(self):
        return {"LESS": _ORD["MORE"], "MORE": _ORD["LESS"]}.get(self.name, self)

    def __repr__(self):
        return self.name


_ORD = {n: _Ord(n) for n in ("LESS", "MORE", "SAME", "NONE")}
for _o in _ORD.values():
    for _n, _v in _ORD.items():
        setattr(_o, _n, _v)


def _ref_merge(orders):
    s = {o.name for o in orders}
    if s == {"SAME"}:
        return _ORD["SAME"]
    if not (s - {"LESS", "SAME"}):
        return _ORD["LESS"]
    if not (s - {"MORE", "SAME"}):
        return _ORD["MORE"]
    return _ORD["NONE"]


def order_function_protocol(ctx):
    """Interpret `typeorder` on operands that are records with or without an order hook, and on two parametrised
    generics: the first operand's hook decides unless it declines (NotImplemented), then the second operand's hook,
    mirrored; generics of the same origin are ordered by merging the orders of their argument pairs."""
    import itertools

    repo = ctx.repo
    to = A.typeorder_fn(repo)
    en = A.order_enum(repo)
    ctx.touch(to)
    NI = NotImplemented
    funcs = {n: g.node for n, g in to.module.funcs.items() if g.parent is None and g.cls is None}

    def interp(genv_extra):
        order_ns = Record(merge=HostFn(lambda orders: _ref_merge(list(orders))), **_ORD)
        genv = {en.name: order_ns, "NotImplemented": NI}
        genv.update(genv_extra)
        hi = HostInterp({}, Record(), {}, globals_env=genv, classes={}, functions=funcs)
        hi.host_types = hi.host_types + (_Ord,)
        return hi

    # ---- hooks
    answers = {"absent": None, "declines": NI, "LESS": _ORD["LESS"], "NONE": _ORD["NONE"]}
    bad = None
    n = 0
    for a, b in itertools.product(answers, repeat=2):
        def mk(ans, label):
            r = Record(label=label)
            if ans != "absent":
                r.__type_order__ = HostFn(lambda other, v=answers[ans]: v)
            return r

        t1, t2 = mk(a, "t1"), mk(b, "t2")
        hi = interp({"get_origin": lambda t: None, "get_args": lambda t: (), "issubclass": lambda x, y: False, "isinstance": lambda x, y: False})
        try:
            got = hi.call_function(to.node, [t1, t2], {}, {})
        except (AnalysisError, Raised) as e:
            raise AnalysisError(f"{to.key}: not interpretable: {e}")
        n += 1
        if a in ("LESS", "NONE"):
            want = answers[a]
        elif b in ("LESS", "NONE"):
            want = answers[b].opposite()
        else:
            want = _ORD["NONE"]  # neither hook decides: the class fallback, stubbed as unrelated
        if got is not want and bad is None:
            bad = (a, b, got, want)
    ctx.ob(
        f"{to.key}:hook-protocol",
        to.loc(),
        f"the first operand's order hook decides unless it is absent or declines; then the second operand's hook decides, mirrored; then the class fallback ({n} combinations interpreted)",
        bad is None,
        (f"with the first operand's hook {bad[0]} and the second's answering {bad[1]} the order is {bad[2]} instead of {bad[3]}: a type whose own hook declines is never asked about from the other side, so typeorder(a, b) and typeorder(b, a) are no longer mirror images" if bad else ""),
    )
    # ---- generics of the same origin: merge of the argument orders
    bad = None
    n = 0
    names = ("LESS", "MORE", "SAME", "NONE")
    for x, y in itertools.product(names, repeat=2):
        table = {("a0", "b0"): _ORD[x], ("a1", "b1"): _ORD[y]}

        def arg(label):
            r = Record(label=label)
            r.__type_order__ = HostFn(lambda other, label=label: table.get((label, other.label), _ORD[{"LESS": "MORE", "MORE": "LESS"}.get(table[(other.label, label)].name, table[(other.label, label)].name)] if (other.label, label) in table else _ORD["NONE"]))
            return r

        a0, a1, b0, b1 = arg("a0"), arg("a1"), arg("b0"), arg("b1")
        O = Record(label="O")
        O.__type_order__ = HostFn(lambda other: _ORD["SAME"])
        g1, g2 = Record(label="G1"), Record(label="G2")
        origins = {id(g1): O, id(g2): O}
        args = {id(g1): (a0, a1), id(g2): (b0, b1)}
        hi = interp({"get_origin": lambda t: origins.get(id(t)), "get_args": lambda t: args.get(id(t), ()), "issubclass": lambda p, q: False, "isinstance": lambda p, q: False, "subclasscheck": lambda p, q: False})
        hi.functions.pop("subclasscheck", None)
        try:
            got = hi.call_function(to.node, [g1, g2], {}, {})
        except (AnalysisError, Raised) as e:
            raise AnalysisError(f"{to.key}: not interpretable on generics: {e}")
        n += 1
        want = _ref_merge([_ORD[x], _ORD[y]])
        if got is not want and bad is None:
            bad = (x, y, got, want)
    ctx.ob(
        f"{to.key}:generic-arguments-merged",
        to.loc(),
        f"two parametrised generics of the same origin are ordered by merging the orders of their argument pairs ({n} combinations interpreted)",
        bad is None,
        (f"with argument orders {bad[0]} and {bad[1]} the generics compare {bad[2]} instead of {bad[3]}: list[Literal[0]] vs list[int] no longer follows Literal[0] vs int" if bad else ""),
    )


def combinators_keep_their_members(ctx):
    """Union / Intersection store the members they are given, as given: a member that is itself a union or an
    intersection stays one member."""
    repo = ctx.repo
    n = 0
    for c in repo.all_classes():
        if c.name not in ("Union", "Intersection") or "__init__" not in c.methods:
            continue
        init = c.methods["__init__"]
        if not init.node.args.vararg:
            continue
        n += 1
        ctx.touch(init)
        methods = {k: v.node for k, v in c.methods.items()}
        bad = None
        for inner_cls in ("Union", "Intersection"):
            inner = Instance(inner_cls, {})
            inner.__dict__.update(types=("B", "C"), __args__=("B", "C"))
            nested = Record(_handler=inner, _impl=inner, handler=inner, __args__=("B", "C"), types=("B", "C"))
            me = Instance(c.name, methods)
            hi = HostInterp({}, me, {}, globals_env={"type": lambda x: ("class", getattr(x, "_cls_name", type(x).__name__)), "isinstance": lambda x, k: isinstance(k, tuple) and len(k) == 2 and k[0] == "class" and getattr(x, "_cls_name", None) == k[1]}, classes={"Union": {}, "Intersection": {}, c.name: methods}, functions={})
            try:
                hi.call_function(init.node, [me, "A", nested], {}, {})
            except (AnalysisError, Raised) as e:
                raise AnalysisError(f"{init.key}: not interpretable: {e}")
            stored = [v for k, v in me.__dict__.items() if isinstance(v, (tuple, list)) and not k.startswith("_cls")]
            ok = bool(stored) and all(tuple(v) == ("A", nested) for v in stored)
            if not ok and bad is None:
                bad = (inner_cls, stored)
        ctx.ob(
            f"{init.key}:members-as-given",
            init.loc(),
            f"{c.name}[A, <a union or an intersection>] keeps two members",
            bad is None,
            (f"given A and a nested {bad[0]} of B and C, {c.name} stores {bad[1]}: {c.name}[{bad[0]}[B, C], A] becomes a flat combination of A, B and C - an intersection inside a union turns into alternatives, and a nested union no longer compares MORE than its own member" if bad else ""),
        )
    ctx.require(n >= 2, "expected the union and the intersection constructors")


def _memo_in_closure(ctx, clo):
    """-> (location, text) of the first process-wide memo found on a function of the closure - as a decorator, as
    `name = lru_cache(..)(f)`, or on a private helper the model spliced into its callers (read from the raw tree)."""
    repo = ctx.repo
    MEMO = ("lru_cache", "cache", "cached")
    bad = None
    for f in clo:
        ctx.touch(f)
        for d in f.node.decorator_list:
            nm = dotted(d.func) if isinstance(d, ast.Call) else dotted(d)
            if nm and nm.split(".")[-1] in MEMO:
                bad = bad or (f.loc(d), f"`{f.name}` is decorated with `{short(d, 30)}`")
    names = {f.name for f in clo}
    for mod in {f.module for f in clo}:
        spliced = {q.split(".")[-1] for q in getattr(mod, "inlined", [])}
        if not spliced:
            continue
        if not hasattr(mod, "_raw_tree"):
            mod._raw_tree = ast.parse(mod.src)
        for st in ast.walk(mod._raw_tree):
            if isinstance(st, ast.FunctionDef) and st.name in spliced:
                names.add(st.name)
                for d in st.decorator_list:
                    nm = dotted(d.func) if isinstance(d, ast.Call) else dotted(d)
                    if nm and nm.split(".")[-1] in MEMO:
                        bad = bad or (f"{mod.rel}:{st.lineno}", f"`{st.name}` is decorated with `{short(d, 30)}`")
    for mod in repo.modules.values():
        for st in ast.walk(mod.tree):
            if isinstance(st, ast.Assign) and isinstance(st.value, ast.Call):
                v = st.value
                inner = v.func
                wrapped = [a for a in v.args if isinstance(a, ast.Name) and a.id in names]
                fn_name = dotted(inner.func) if isinstance(inner, ast.Call) else dotted(inner)
                if wrapped and fn_name and fn_name.split(".")[-1] in MEMO:
                    bad = bad or (f"{mod.rel}:{st.lineno}", f"`{short(st, 50)}` wraps `{wrapped[0].id}` in a memo")
    # a memo written by hand: a function of the closure (or a helper spliced into one) files results in a container
    # that lives at module level and reads it back
    for mod in {f.module for f in clo}:
        if not hasattr(mod, "_raw_tree"):
            mod._raw_tree = ast.parse(mod.src)
        tables = set()
        for st in mod._raw_tree.body:
            if isinstance(st, ast.Assign) and (isinstance(st.value, (ast.Dict, ast.List, ast.Set)) or (isinstance(st.value, ast.Call) and call_name(st.value) in ("dict", "list", "set", "defaultdict", "collections.defaultdict", "OrderedDict", "WeakKeyDictionary", "weakref.WeakKeyDictionary", "WeakValueDictionary"))):
                tables |= {t.id for t in st.targets if isinstance(t, ast.Name)}
        if not tables:
            continue
        for st in mod._raw_tree.body:
            if not (isinstance(st, ast.FunctionDef) and st.name in names):
                continue
            stores = [x for x in ast.walk(st) if (isinstance(x, ast.Subscript) and isinstance(x.ctx, ast.Store) and isinstance(x.value, ast.Name) and x.value.id in tables) or (isinstance(x, ast.Call) and isinstance(x.func, ast.Attribute) and x.func.attr in ("setdefault", "update", "append", "add") and isinstance(x.func.value, ast.Name) and x.func.value.id in tables)]
            if not stores:
                continue
            tname = stores[0].value.id if isinstance(stores[0], ast.Subscript) else stores[0].func.value.id
            local = {a.arg for a in ast.walk(st.args) if isinstance(a, ast.arg)} | {t.id for a in ast.walk(st) if isinstance(a, ast.Assign) for t in a.targets if isinstance(t, ast.Name)}
            reads = [x for x in ast.walk(st) if isinstance(x, ast.Name) and x.id == tname and isinstance(x.ctx, ast.Load)]
            if tname not in local and len(reads) > len(stores):
                bad = bad or (f"{mod.rel}:{stores[0].lineno}", f"`{st.name}` keeps its results in the module-level `{tname}` and reads them back")
    return bad



def resolution_functions_are_not_memoised(ctx):
    """The subtype test, the order function, the layer sorter and the key function consult hooks whose answers can
    change (ABC.register, a method added to a class) and are asked by every function object: none of them, nor what
    they call, is wrapped in a process-wide memo (lru_cache / cache), as a decorator or as `name = lru_cache(..)(f)`."""
    from .c14 import get_callgraph_for

    repo = ctx.repo
    roots = [A.subclasscheck_fn(repo), A.typeorder_fn(repo), A.layer_sorter(repo), A.subtler_fn(repo)]
    cg = get_callgraph_for(ctx)
    clo = cg.closure(roots)
    bad = _memo_in_closure(ctx, clo)
    ctx.ob(
        "mro:resolution-functions-not-memoised",
        bad[0] if bad else roots[0].loc(),
        f"none of the {len(clo)} functions behind the subtype test, the order function, the layer sorter and the key function is memoised process-wide",
        bad is None,
        (f"{bad[1]}: the answer for a pair of types is frozen the first time any function asks, so a class registered with an ABC (or given a method) later is never matched by functions built afterwards, and equal-but-different arguments share a key" if bad else ""),
    )


# ---------------------------------------------------------------------------------------- memos in per-call value checks
def _paths(e, defs, params, seen=()):
    """Access paths on the parameters that expression `e` depends on: 'fn', 'fn.__code__', ... (locals expanded through
    their single definitions; a call depends on the whole of its arguments)."""
    out = set()
    if isinstance(e, ast.Name):
        if e.id in params:
            return {e.id}
        if e.id in defs and e.id not in seen:
            for d in defs[e.id]:
                out |= _paths(d, defs, params, seen + (e.id,))
        return out
    if isinstance(e, ast.Attribute):
        base = _paths(e.value, defs, params, seen)
        if isinstance(e.value, (ast.Name, ast.Attribute)):
            return {f"{b}.{e.attr}" for b in base}
        return base
    if isinstance(e, ast.Call) and call_name(e) == "getattr" and len(e.args) >= 2 and isinstance(e.args[1], ast.Constant):
        base = _paths(e.args[0], defs, params, seen)
        out = {f"{b}.{e.args[1].value}" for b in base} if isinstance(e.args[0], (ast.Name, ast.Attribute)) else set(base)
        for a in e.args[2:]:
            out |= _paths(a, defs, params, seen)
        return out
    for ch in ast.iter_child_nodes(e):
        out |= _paths(ch, defs, params, seen)
    return out


def _memo_stores(fn, module_names):
    """(statement, container name, key expression, value expression) for every store of the function into a
    module-level container: `G[k] = v` (also chained `x = G[k] = v`) and `G.setdefault(k, v)`."""
    out = []
    for st in ast.walk(fn):
        if isinstance(st, ast.Assign):
            for t in st.targets:
                if isinstance(t, ast.Subscript) and isinstance(t.value, ast.Name) and t.value.id in module_names:
                    out.append((st, t.value.id, t.slice, st.value))
        elif isinstance(st, ast.Call) and isinstance(st.func, ast.Attribute) and st.func.attr == "setdefault" and isinstance(st.func.value, ast.Name) and st.func.value.id in module_names and len(st.args) == 2:
            out.append((st, st.func.value.id, st.args[0], st.args[1]))
    return out


def _uncovered(fn, st_key_value, params):
    defs = {}
    for x in ast.walk(fn):
        if isinstance(x, ast.Assign):
            for t in x.targets:
                if isinstance(t, ast.Name):
                    defs.setdefault(t.id, []).append(x.value)
        elif isinstance(x, ast.AnnAssign) and isinstance(x.target, ast.Name) and x.value is not None:
            defs.setdefault(x.target.id, []).append(x.value)
    _, _, k, v = st_key_value
    kp, vp = _paths(k, defs, params), _paths(v, defs, params)
    return sorted(p for p in vp if not any(p == q or p.startswith(q + ".") for q in kp)), sorted(kp)


_MEMO_EXAMPLE = """
def check(fn, argt):
    code = getattr(fn, "__code__", None)
    try:
        return TABLE[code]
    except KeyError:
        sig = TABLE[code] = extract(fn)
        return sig
"""


def value_check_memos_are_keyed_on_what_they_read(ctx):
    """A per-call value check of a dependent type (`check` / `__instancecheck__`, or a function made a type by the
    check decorator) that stores into a module-level table stores under a key that determines everything the stored
    value was computed from: otherwise the answer computed for one value is served for another."""
    repo = ctx.repo
    # the rule must recognise the memo idiom (kept positive example)
    ex = ast.parse(_MEMO_EXAMPLE).body[0]
    st = _memo_stores(ex, {"TABLE"})
    if len(st) != 1 or _uncovered(ex, st[0], {"fn", "argt"})[0] != ["fn"]:
        raise AnalysisError("memo rule no longer recognises its positive example")
    dm = A.dependent_meta(repo)
    deco = A.dependent_check_decorator(repo) if hasattr(A, "dependent_check_decorator") else None
    checks = []
    for c in repo.all_classes():
        if any(x is dm for x in repo.class_mro(c)):
            for name in ("check", "__instancecheck__"):
                if name in c.methods:
                    checks.append(c.methods[name])
    for f in repo.all_funcs():
        for d in f.node.decorator_list:
            nm = dotted(d.func) if isinstance(d, ast.Call) else dotted(d)
            if nm and nm.split(".")[-1] == "dependent_check":
                checks.append(f)
                for ch in f.children.values():
                    pass
    # classes made types by the decorator: their `check`
    for c in repo.all_classes():
        for d in c.node.decorator_list:
            nm = dotted(d.func) if isinstance(d, ast.Call) else dotted(d)
            if nm and nm.split(".")[-1] == "dependent_check" and "check" in c.methods and c.methods["check"] not in checks:
                checks.append(c.methods["check"])
    ctx.require(len(checks) >= 8, "expected the per-call value checks of the dependent types")
    from .c14 import get_callgraph_for

    cg = get_callgraph_for(ctx)
    bad = None
    n_stores = 0
    for f in checks:
        ctx.touch(f)
        for g in cg.closure([f]):
            if g.module.name.split(".")[-1] not in ("dependent",) and g is not f:
                continue
            module_names = set(g.module.assigns)
            params = set(g.params)
            for s in _memo_stores(g.node, module_names):
                n_stores += 1
                unc, kp = _uncovered(g.node, s, params)
                if unc and bad is None:
                    bad = (g.loc(s[0]), f"`{short(s[0], 60)}` in `{g.name}` (reached from the value check `{f.name}`) stores a value computed from {', '.join(unc)} under a key that only reads {', '.join(kp) or 'nothing of the arguments'}")
    ctx.ob(
        "dependent:value-check-memos-keyed-on-what-they-read",
        bad[0] if bad else checks[0].loc(),
        f"no per-call value check ({len(checks)} checks and what they call in their module) stores into a module-level table under a key that determines less than the stored value reads ({n_stores} stores)",
        bad is None,
        (f"{bad[1]}: two values that agree on the key but differ elsewhere get one answer - whether a value matches depends on which value was checked first" if bad else ""),
    )


# ---------------------------------------------------------------------------------------- the rebuild after a change
def rebuild_depends_on_the_built_flag_only(ctx):
    """In the update method, whether the table is rebuilt depends on nothing but "has it been built": any other
    condition is a guess at whether the change matters, and a change it misjudges is silently ignored."""
    from .common import path_atoms

    repo = ctx.repo
    try:
        upd = A.update_method(repo)
    except AnalysisError:
        ctx.note("no update method: reported by the rule on mutators / linkback")
        ctx.ob("core:update-method-present", "src/ovld/core.py:1", "the update method exists (its absence is reported by the rule on mutators / linkback)", True)
        return
    b = A.build_method(repo)
    ctx.touch(upd)
    rv = recv_name(upd)
    calls = [c for c in ast.walk(upd.node) if isinstance(c, ast.Call) and is_self_attr(c.func, b.name, selfname=rv)]
    ctx.require(calls, f"{upd.key}: no rebuild call")
    for c in calls:
        extra = []
        for atom in path_atoms(upd.node, c):
            for e in (x for x in atom[1:] if isinstance(x, ast.AST)):
                reads = {x.attr for x in ast.walk(e) if is_self_attr(x, selfname=rv)}
                has_call = any(isinstance(x, ast.Call) for x in ast.walk(e))
                if (reads - {"_compiled"}) or has_call:
                    extra.append(e)
        ctx.ob(
            f"{upd.key}:rebuild-on-flag-only",
            upd.loc(c),
            f"`{short(c, 30)}` in {upd.name}() runs whenever the function has been built (no other condition on the way)",
            not extra,
            (f"the rebuild is also conditional on `{short(extra[0], 60)}`: a change that leaves this condition unchanged (a method replaced by another of the same signature, a priority, a mixin's change) is not rebuilt into the table and the old method keeps answering" if extra else ""),
        )


# ---------------------------------------------------------------------------------------- conversions inside the package
def internal_conversions_are_fresh(ctx):
    """The decorator looks an existing function object up *by name in the frame that defines the function* unless told
    to make a fresh one.  That lookup is meant for user code; wherever the package itself converts a plain function
    (the class machinery, extend_super) it asks for a fresh object - otherwise a same-named definition earlier in the
    class body is found and extended in place, before the class dictionary merges the two a second time."""
    repo = ctx.repo
    lookups = [f for f in repo.all_funcs() if f.parent is None and f.cls is None and any(isinstance(x, ast.Attribute) and x.attr == "f_locals" for x in ast.walk(f.node))]
    ctx.require(len(lookups) == 1, "frame lookup of the decorator not found")
    lk = lookups[0]
    decos = []
    for f in repo.all_funcs():
        if f.parent is not None or f.cls is not None or f is lk:
            continue
        for c in ast.walk(f.node):
            if isinstance(c, ast.Call) and call_name(c) == lk.name:
                # the parameter whose truth avoids the lookup
                from .common import path_atoms

                flags = [a[1].id for a in path_atoms(f.node, c) if a[0] == "falsy" and isinstance(a[1], ast.Name) and a[1].id in f.params]
                if flags:
                    decos.append((f, flags[0]))
    ctx.require(len(decos) == 1, "decorator with a fresh/lookup switch not found")
    deco, flag = decos[0]
    ctx.touch(lk, deco)
    n = 0
    for f in repo.all_funcs():
        if f is deco:
            continue
        for c in ast.walk(f.node):
            if isinstance(c, ast.Call) and call_name(c) == deco.name and f.module is deco.module:
                n += 1
                ctx.touch(f)
                kw = [k for k in c.keywords if k.arg == flag]
                ok = bool(kw) and isinstance(kw[0].value, ast.Constant) and kw[0].value.value is True
                ctx.ob(
                    f"{f.key}:converts-fresh",
                    f.loc(c),
                    f"`{short(c, 40)}` in {f.name}() asks for a fresh function object ({flag}=True): the package never looks a function object up by name in a frame on its own account",
                    ok,
                    f"`{short(c, 40)}` lets the decorator search the defining frame for a same-named function object: inside a class body it finds the earlier definitions and registers into them directly, so the class dictionary then merges an object with itself (a method registered twice, or the definitions of the class lost)",
                )
    ctx.require(n >= 2, "expected the package's own conversions of plain functions")


# ---------------------------------------------------------------------------------------- the re-compiler, executed
def recompiled_function_keeps_its_cells(ctx):
    from . import recodeexec

    recodeexec.law(ctx, "free-variables", "closure-cells")


def recompiled_function_keeps_the_rest(ctx):
    from . import recodeexec

    recodeexec.law(ctx, "carried-over", "planted-globals")


# ---------------------------------------------------------------------------------------- type hooks keep no state
TYPE_HOOKS = ("__type_order__", "__is_supertype__", "__is_subtype__", "__instancecheck__", "__subclasscheck__")


def type_hooks_keep_no_state(ctx):
    """The hooks through which the package's own types answer the subtype test, the order function and isinstance
    (`__type_order__`, `__is_supertype__`, `__is_subtype__`, `__instancecheck__`, `__subclasscheck__`) write nothing to
    the type object: a type is shared by every function, call and thread that uses it."""
    repo = ctx.repo
    n = 0
    for c in repo.all_classes():
        raw = repo.raw_methods(c)
        for name in TYPE_HOOKS:
            m = c.methods.get(name)
            if m is None:
                continue
            n += 1
            ctx.touch(m)
            # the hook and the methods of its class it calls on the receiver (as written in the source)
            todo, seen, ws = [name], set(), []
            while todo:
                cur = todo.pop()
                if cur in seen or cur not in raw:
                    continue
                seen.add(cur)
                node = raw[cur]
                rv = node.args.args[0].arg if node.args.args else None
                if rv is None:
                    continue
                for w in func_writes(node, rv):
                    ws.append((cur, w.stmt))
                for x in ast.walk(node):
                    if isinstance(x, ast.Call) and isinstance(x.func, ast.Attribute) and isinstance(x.func.value, ast.Name) and x.func.value.id == rv:
                        todo.append(x.func.attr)
            ctx.ob(
                f"{m.key}:keeps-no-state",
                m.loc(),
                f"`{c.name}.{name}` (with the {len(seen) - 1} methods of its class it calls) stores nothing on the type object",
                not ws,
                (f"`{short(ws[0][1], 60)}` in `{ws[0][0]}` writes to the type object while answering a question about one class: two threads asking about different classes at once (or one question interrupted by another) read each other's half-written answer, so a method is wrongly matched, wrongly skipped or reported ambiguous" if ws else ""),
            )
    ctx.require(n >= 8, "expected the type hooks of the package's own types")


# ---------------------------------------------------------------------------------------- serial numbers
_RESET_EXAMPLE = """
_serial = count()

def reset():
    global _serial
    _serial = count()

def fresh():
    return next(_serial)
"""


def _counter_rebinds(tree):
    """(counter name, function node, statement) for every rebinding, inside a function, of a module-level name that is
    consumed with next(..) somewhere in the module."""
    consumed = {c.args[0].id for c in ast.walk(tree) if isinstance(c, ast.Call) and isinstance(c.func, ast.Name) and c.func.id == "next" and c.args and isinstance(c.args[0], ast.Name)}
    top = set()
    for st in tree.body:
        if isinstance(st, ast.Assign):
            top |= {t.id for t in st.targets if isinstance(t, ast.Name)}
    counters = consumed & top
    out = []
    for f in ast.walk(tree):
        if not isinstance(f, (ast.FunctionDef, ast.AsyncFunctionDef)):
            continue
        declared = {n for g in ast.walk(f) if isinstance(g, ast.Global) for n in g.names} & counters
        if not declared:
            continue
        for st in ast.walk(f):
            targets = st.targets if isinstance(st, ast.Assign) else [st.target] if isinstance(st, (ast.AugAssign, ast.AnnAssign)) else []
            for t in targets:
                for x in ast.walk(t):
                    if isinstance(x, ast.Name) and x.id in declared:
                        out.append((x.id, f, st))
    return counters, out


def serial_counters_are_never_reset(ctx):
    """The module-level counters that hand out serial numbers (for function objects, planted globals, generated names)
    only ever count up: no function of the package rebinds one."""
    cs, hits = _counter_rebinds(ast.parse(_RESET_EXAMPLE))
    if cs != {"_serial"} or len(hits) != 1:
        raise AnalysisError("counter rule no longer recognises its positive example")
    repo = ctx.repo
    total = 0
    for mod in repo.modules.values():
        counters, hits = _counter_rebinds(mod.tree)
        # also: `module.counter = ...` from another module of the package
        for other in repo.modules.values():
            for st in ast.walk(other.tree):
                if isinstance(st, ast.Assign):
                    for t in st.targets:
                        if isinstance(t, ast.Attribute) and t.attr in counters and isinstance(t.value, ast.Name) and t.value.id == mod.name.split(".")[-1]:
                            hits.append((t.attr, None, st))
        for c in sorted(counters):
            total += 1
            mine = [h for h in hits if h[0] == c]
            ctx.ob(
                f"{mod.name}.{c}:never-reset",
                f"{mod.rel}:{mine[0][2].lineno}" if mine else f"{mod.rel}:1",
                f"the serial-number counter `{c}` of {mod.rel} is only consumed with next(..), never rebound",
                not mine,
                (f"`{short(mine[0][2], 40)}`" + (f" in {mine[0][1].name}()" if mine[0][1] is not None else "") + f" restarts the counter `{c}`: numbers handed out before are handed out again - to another thread that is in the middle of generating code (two names of one generated function collide and one check answers for another), or to another method whose planted global is then overwritten" if mine else ""),
            )
    ctx.require(total >= 1, "expected the package's serial-number counters")


# ---------------------------------------------------------------------------------------- who may rebuild
def only_changes_rebuild(ctx):
    """The update method ("rebuild if already built, then tell the children") empties the resolution cache.  It is
    called by the methods that change the method set - those that first pass the modification guard - and by itself
    for the children; the unconditional build is called only where the function was found not built (first call,
    ensure-built) and by the update method.  Reading, inspecting or calling a function never rebuilds it."""
    from .common import path_atoms

    repo = ctx.repo
    oc = A.function_class(repo)
    try:
        upd = A.update_method(repo)
    except AnalysisError:
        ctx.note("no update method: reported by the rule on mutators / linkback")
        ctx.ob("core:update-method-present", "src/ovld/core.py:1", "the update method exists (its absence is reported by the rule on mutators / linkback)", True)
        return
    guard = A.guard_method(repo)
    b = A.build_method(repo)
    n = 0

    def own_nodes(fnode):
        todo = list(ast.iter_child_nodes(fnode))
        while todo:
            x = todo.pop()
            yield x
            if not isinstance(x, (ast.FunctionDef, ast.AsyncFunctionDef, ast.Lambda)):
                todo.extend(ast.iter_child_nodes(x))

    for f in repo.all_funcs():
        for c in own_nodes(f.node):
            if not (isinstance(c, ast.Call) and isinstance(c.func, ast.Attribute)):
                continue
            if c.func.attr == upd.name:
                n += 1
                ctx.touch(f)
                rv = recv_name(f) if f.cls is not None else None
                is_mutator = f.cls is oc and any(isinstance(x, ast.Call) and is_self_attr(x.func, guard.name, selfname=rv) for x in ast.walk(f.node))
                ok = f is upd or is_mutator
                ctx.ob(
                    f"{f.key}:calls-{upd.name}",
                    f.loc(c),
                    f"`{short(c, 40)}` in {f.name}() is a change of the method set (the method passes the modification guard) or the propagation to a child",
                    ok,
                    f"{f.name}() is not a change of the method set but calls `{short(c, 40)}`: merely reading or inspecting the function rebuilds its table and empties the resolution cache, so the next calls with argument types already seen consult the class predicates and type-order hooks again",
                )
            elif c.func.attr == b.name and not c.args and not c.keywords:
                # the unconditional build of a function object
                recv = c.func.value
                rv = recv_name(f) if f.cls is not None else None
                on_function = (f.cls is oc and isinstance(recv, ast.Name) and recv.id == rv) or (isinstance(recv, ast.Name) and recv.id in ("ov", "ovld", "fn", "self") and f.cls is None)
                if not on_function:
                    continue
                n += 1
                ctx.touch(f)
                atoms_ = path_atoms(f.node, c)
                not_built = any(a[0] == "falsy" and isinstance(a[1], ast.Attribute) and a[1].attr == "_compiled" for a in atoms_)
                is_first_entry = f.parent is not None and f.cls is None  # the first-call trampoline: replaced by the build it starts
                ok = f is upd or not_built or is_first_entry
                ctx.ob(
                    f"{f.key}:calls-{b.name}",
                    f.loc(c),
                    f"`{short(c, 30)}` in {f.name}() runs in the update method, on a function found not built, or from the first-call trampoline",
                    ok,
                    f"{f.name}() rebuilds unconditionally (`{short(c, 30)}`): a function already in use loses its resolution cache, and calls with argument types already seen run the whole resolution - user predicates and hooks included - again",
                )
    ctx.require(n >= 7, "expected the call sites of the update and build methods")


# ---------------------------------------------------------------------------------------- one type written twice
def type_written_twice_is_one_type(ctx):
    """A type made by the forwarding metaclass from a handler object - `Exactly[A]`, `HasMethod["m"]`, `A | B` of the
    package, a class_check - is made anew every time it is written.  Two such types made from the same constituents
    (the same check function, equal arguments) are equal and hash alike: interpreted on the metaclass's `__eq__` /
    `__hash__` and the handler classes' constructors."""
    from ..metainterp import HostInterp, Instance, Raised, Record

    repo = ctx.repo
    metas = [c for c in repo.all_classes() if "type" in c.base_names and "__eq__" in c.methods and "__hash__" in c.methods]
    ctx.require(len(metas) == 1, "forwarding metaclass with its own equality not found")
    M = metas[0]
    # the attribute of the type object that holds the handler: the keyword of the namespace passed to type.__new__
    hattr = None
    new = M.methods.get("__new__")
    if new is not None:
        for d in ast.walk(new.node):
            if isinstance(d, ast.Dict) and len(d.keys) == 1 and isinstance(d.keys[0], ast.Constant):
                hattr = d.keys[0].value
    ctx.require(hattr is not None, f"{M.key}: handler attribute not found")
    # handler classes: constructed inside a call of the metaclass, or handed to the function that contains such a call
    handlers = []
    makers = set()
    for f in repo.all_funcs():
        for c in ast.walk(f.node):
            if isinstance(c, ast.Call) and call_name(c) == M.name and len(c.args) == 2:
                top = f
                while top.parent is not None:
                    top = top.parent
                if top.cls is None:
                    makers.add(top.name)
                elif top.cls.parent_func is not None:
                    makers.add(top.cls.parent_func.name if hasattr(top.cls.parent_func, "name") else "")
                h = c.args[1]
                if isinstance(h, ast.Call) and isinstance(h.func, ast.Name):
                    r = repo.resolve_name(f.module, h.func.id)
                    if r and r[0] == "class" and r[1] not in handlers:
                        handlers.append(r[1])
    for c in repo.all_classes():
        for d in c.node.decorator_list:
            if dotted(d) in makers and c not in handlers:
                handlers.append(c)
    ctx.require(len(handlers) >= 2, "handler classes of the forwarding metaclass not found")
    mraw = repo.raw_methods(M)
    fn_tok = Record(__name__="check", __qualname__="check", __module__="m", __code__=Record(kind="code"), __doc__=None, kind="the check function")
    A_, B_ = type("A", (), {}), type("B", (), {})
    for H in handlers:
        raw = repo.raw_methods(H)
        init = raw.get("__init__")
        if init is None:
            continue
        ctx.touch(H.methods["__init__"], M.methods["__eq__"], M.methods["__hash__"])

        def build(args):
            o = Instance(H.name, raw)
            hi.call_function(init, [o] + list(args), {}, {})
            t = Instance(M.name, mraw)
            t.__dict__[hattr] = o
            if "__init__" in mraw:
                # whatever else the metaclass derives from the handler (the type's `__args__`)
                try:
                    hi.call_function(mraw["__init__"], [t, "T", o], {}, {})
                except (AnalysisError, Raised, TypeError, AttributeError):
                    pass
            return t

        funcs = {k: g.node for k, g in H.module.funcs.items() if g.parent is None and g.cls is None and not g.node.decorator_list}
        hi = HostInterp(mraw, Record(), {}, globals_env={}, classes={}, functions=funcs)
        same = (A_, B_) if init.args.vararg is not None else (fn_tok, (A_,))
        other = (A_, type("C", (), {})) if init.args.vararg is not None else (fn_tok, (B_,))
        try:
            # (members of a union / intersection written in another order are the same type)
            t1, t2, t3 = build(same), build(tuple(reversed(same)) if init.args.vararg is not None else same), build(other)
            eq = hi.call_function(mraw["__eq__"], [t1, t2], {}, {})
            ne = hi.call_function(mraw["__eq__"], [t1, t3], {}, {})
            h1 = hi.call_function(mraw["__hash__"], [t1], {}, {})
            h2 = hi.call_function(mraw["__hash__"], [t2], {}, {})
            rep = None
            if init.args.vararg is not None:
                # a member written twice (`Union[int, Annotated[int, ..], str]` after normalisation) adds nothing
                t4 = build((A_, A_, B_))
                rep = (hi.call_function(mraw["__eq__"], [t1, t4], {}, {}), hi.call_function(mraw["__eq__"], [t4, t1], {}, {}), hi.call_function(mraw["__hash__"], [t4], {}, {}))
        except (AnalysisError, Raised, TypeError, AttributeError) as e:
            raise AnalysisError(f"{H.key}: types made from it are not interpretable: {e}")
        what = "the same members (in another order)" if init.args.vararg is not None else "the same check function and equal arguments"
        problems = []
        if eq is NotImplemented or not eq:
            problems.append(f"two types made from {what} compare unequal")
        elif h1 != h2:
            problems.append(f"two types made from {what} are equal but hash differently")
        if ne is not NotImplemented and ne:
            problems.append("two types made from different arguments compare equal")
        if rep is not None and not problems:
            if rep[0] is NotImplemented or rep[1] is NotImplemented or not rep[0] or not rep[1]:
                problems.append("a combination that names one member twice (two spellings of one type among the members) compares unequal to the one that names it once")
            elif rep[2] != h1:
                problems.append("a combination that names one member twice is equal to the one that names it once but hashes differently")
        ctx.ob(
            f"{H.key}:written-twice-is-one-type",
            H.loc(),
            f"two types made through `{M.name}` from `{H.name}` objects with {what} are equal and hash alike; with different arguments they differ (interpreted)",
            not problems,
            "; ".join(problems) + ": the same annotation written in two places gives two signatures - a re-registration does not replace the method it repeats, the order of the two is MORE in both directions, and a type registered once is looked up as missing",
        )


# ---------------------------------------------------------------------------------------- the signature extraction, executed
def signature_positions_are_real(ctx):
    from . import sigexec

    sigexec.law(ctx, "positions", "is-method")


def signature_describes_the_method(ctx):
    from . import sigexec

    sigexec.law(ctx, "positions", "counts", "types", "is-method", "rejects-varargs")


# ---------------------------------------------------------------------------------------- the call without arguments
def call_without_arguments(ctx):
    """Registration and the lookup of the empty key, interpreted: a method whose parameters all have defaults accepts
    the call without arguments (see missexec.check_empty_call)."""
    from . import missexec

    reg, out = missexec.check_empty_call(ctx)
    ctx.touch(reg)
    for name, problem in out.items():
        ctx.ob(
            f"{reg.key}:empty-call:{name}",
            reg.loc(),
            f"[{name}] a call without arguments reaches the method exactly when none of its parameters is required (registration and lookup of the empty key interpreted)",
            problem is None,
            (problem or "") + ": `f()` is rejected with 'No method ... for argument types []' where calling the method directly would use its defaults",
        )


# ---------------------------------------------------------------------------------------- combination against combination
class _Written(OwnObject):
    """a member type as written at one place: compares and hashes by what it denotes, is its own object"""


def combination_against_combination(ctx):
    """A union compared with another union (and an intersection with another intersection): the order hooks are
    interpreted on combinations of pairwise unrelated classes, with the order function dispatching as the package's
    does (equal -> SAME; the first operand's hook; else the second's, mirrored).  The two directions give mirror-image
    answers, and they follow inclusion: a union whose members are all members of the other is LESS (an intersection:
    MORE); neither included in the other -> NONE."""
    import itertools

    repo = ctx.repo
    en = A.order_enum(repo)
    atoms = ("int", "str", "float", "bool")  # bool is a subclass of int; the others are unrelated
    below = lambda a, b: a == b or (a, b) == ("bool", "int")  # noqa: E731
    n = 0
    for c in repo.all_classes():
        if c.name not in ("Union", "Intersection") or "__type_order__" not in c.methods:
            continue
        hook = c.methods["__type_order__"]
        ctx.touch(hook)
        raw = repo.raw_methods(c)

        class Comb:
            """a type made by the forwarding metaclass from a handler object"""

            def __init__(self, members):
                # every combination holds its *own* member objects: a member such as list[int] or type[int] is a
                # new object each time it is written - equal to, but not identical with, the one in the other
                # combination (a hook that recognises a shared member by identity only is wrong for those)
                self.members = tuple(_Written(m) for m in members)
                h = Instance(c.name, raw)
                h.__dict__.update(types=self.members, __args__=self.members)
                self._handler = h
                self.__args__ = self.members

            def __repr__(self):
                return f"{c.name}[{', '.join(self.members)}]"

            def __eq__(self, other):
                return isinstance(other, Comb) and set(self.members) == set(other.members)

            __hash__ = object.__hash__

        made = {}

        class Factory:
            def __getitem__(self, item):
                item = tuple(item) if isinstance(item, (tuple, list)) else (item,)
                return made.setdefault(frozenset(item), Comb(item))

        combos = [Factory()[m] for k in (2, 3) for m in itertools.combinations(atoms, k)]
        combos = [x for x in combos if not (set(x.members) >= {"float"} and len(x.members) == 3 and "bool" in x.members)]  # keep the run small
        depth = []

        def TO(a, b):
            if len(depth) > 12:
                raise AnalysisError(f"{hook.key}: the order hooks call each other without end")
            if a == b:
                return _ORD["SAME"]
            depth.append(1)
            try:
                if isinstance(a, Comb):
                    r = hi.call_function(raw["__type_order__"], [a._handler, b], {}, {})
                    if r is not NotImplemented:
                        return r
                if isinstance(b, Comb):
                    r = hi.call_function(raw["__type_order__"], [b._handler, a], {}, {})
                    if r is not NotImplemented:
                        return r.opposite()
                if below(a, b):
                    return _ORD["LESS"]
                if below(b, a):
                    return _ORD["MORE"]
                return _ORD["NONE"]  # unrelated classes
            finally:
                depth.pop()

        order_ns = Record(merge=HostFn(lambda orders: _ref_merge(list(orders))), **_ORD)
        funcs = {nm: g.node for nm, g in hook.module.funcs.items() if g.parent is None and g.cls is None and not g.node.decorator_list}
        genv = {en.name: order_ns, "NotImplemented": NotImplemented, "typeorder": HostFn(TO), c.name: Factory(), "subclasscheck": HostFn(lambda x, y: x == y or (isinstance(y, Comb) and any(below(x, m) for m in y.members)) or (not isinstance(y, Comb) and not isinstance(x, Comb) and below(x, y)))}
        hi = HostInterp(raw, Record(), {}, globals_env=genv, classes={}, functions=funcs)
        hi.host_types = hi.host_types + (_Ord, Comb, Factory)
        bad_mirror = bad_incl = None
        cases = 0
        for u, v in itertools.permutations(combos, 2):
            try:
                a, b = TO(u, v), TO(v, u)
            except Raised as r:
                raise AnalysisError(f"{hook.key}: raises {r.what} on two combinations")
            except (TypeError, AttributeError) as e:
                raise AnalysisError(f"{hook.key}: not interpretable on two combinations: {e}")
            cases += 1
            if getattr(a, "name", None) not in _ORD or getattr(b, "name", None) not in _ORD:
                raise AnalysisError(f"{hook.key}: answers {a!r} / {b!r}")
            if a.opposite() is not b and bad_mirror is None:
                bad_mirror = (u, v, a, b)
            if c.name == "Union":
                le = all(any(below(x, y) for y in v.members) for x in u.members)  # every alternative of u fits in v
                ge = all(any(below(y, x) for x in u.members) for y in v.members)
            else:
                le = all(any(below(x, y) for x in u.members) for y in v.members)  # u demands at least what v demands
                ge = all(any(below(y, x) for y in v.members) for x in u.members)
            incl = "SAME" if le and ge else "LESS" if le else "MORE" if ge else "NONE"
            if a.name != incl and bad_incl is None:
                bad_incl = (u, v, a, incl)
        n += 1
        ctx.ob(
            f"{hook.key}:against-its-own-kind:mirror",
            hook.loc(),
            f"two {c.name.lower()}s compare to mirror-image answers in the two directions ({cases} ordered pairs interpreted)",
            bad_mirror is None,
            (f"typeorder({bad_mirror[0]}, {bad_mirror[1]}) is {bad_mirror[2]} and typeorder({bad_mirror[1]}, {bad_mirror[0]}) is {bad_mirror[3]}: the answer depends on which of the two is asked, i.e. on the iteration order of a set of types - the hash seed decides which of two methods runs" if bad_mirror else ""),
        )
        ctx.ob(
            f"{hook.key}:against-its-own-kind:inclusion",
            hook.loc(),
            f"two {c.name.lower()}s are ordered by what they cover: {'every alternative of the one fits an alternative of the other -> LESS' if c.name == 'Union' else 'the one demands at least what the other demands -> LESS'}, both ways -> SAME, neither -> NONE ({cases} ordered pairs over int, bool < int, str, float interpreted)",
            bad_incl is None,
            (f"typeorder({bad_incl[0]}, {bad_incl[1]}) is {bad_incl[2]}, inclusion says {bad_incl[3]}: a method on the wider {c.name.lower()} is preferred over (or silently tied with) the method on the narrower one" if bad_incl else ""),
        )
    ctx.require(n >= 2, "expected the order hooks of the union and the intersection")


# ---------------------------------------------------------------------------------------- typing.Any counts as object
def any_counts_as_object(ctx):
    """The subtype test and the order function, interpreted on real classes, generic aliases and `typing.Any`:
    wherever `Any` stands - as the type itself, inside `type[...]`, as an argument of a generic - the answer is the one
    given for `object` in its place."""
    import typing

    repo = ctx.repo
    sc, to, en = A.subclasscheck_fn(repo), A.typeorder_fn(repo), A.order_enum(repo)
    ctx.touch(sc, to)
    order_ns = Record(merge=HostFn(lambda orders: _ref_merge(list(orders))), **_ORD)
    funcs = {n: g.node for n, g in sc.module.funcs.items() if g.parent is None and g.cls is None}
    genv = {en.name: order_ns, "NotImplemented": NotImplemented, "get_origin": typing.get_origin, "get_args": typing.get_args, "UnionTypes": (), "typing": typing, "Any": typing.Any, "TypeError": TypeError}
    hi = HostInterp({}, Record(), {}, globals_env=genv, classes={}, functions=funcs)
    hi.host_types = hi.host_types + (_Ord,)

    def run(f, a, b):
        try:
            r = hi.call_function(f.node, [a, b], {}, {})
        except Raised as e:
            return f"raises {e.what}"
        except TypeError as e:
            return f"raises TypeError ({e})"
        return getattr(r, "name", r)

    A_ = typing.Any
    pairs = [
        ("the type itself", int, A_, object),
        ("inside type[...]", type[int], type[A_], type[object]),
        ("an argument of a generic", list[int], list[A_], list[object]),
        ("a nested argument", type[dict[str, int]], type[dict[str, A_]], type[dict[str, object]]),
        ("Any on both sides", A_, A_, object),
        ("Any on both sides, nested", type[dict[A_, bool]], type[dict[A_, int]], type[dict[object, int]]),
        ("Any on the left", A_, int, int),
    ]
    problems = []
    for what, t, with_any, with_object in pairs:
        for f, label in ((sc, "subtype test"), (to, "order")):
            try:
                got, ref = run(f, t, with_any), run(f, t, with_object)
            except AnalysisError as e:
                raise AnalysisError(f"{f.key}: not interpretable on {t!r} / {with_any!r}: {e}")
            if got != ref:
                problems.append(f"{label} of {t!r} against {with_any!r} ({what}) answers {got}, against {with_object!r} it answers {ref}")
    # a class whose metaclass refuses issubclass() (protocols with data members, TypedDicts) is simply not matched
    RefusingMeta = type("RefusingMeta", (type,), {"__subclasscheck__": lambda cls, sub: (_ for _ in ()).throw(TypeError("this class does not support issubclass()"))})
    Refusing = RefusingMeta("Refusing", (), {})
    got = run(sc, int, Refusing)
    ctx.ob(
        f"{sc.key}:refusing-class-is-no-match",
        sc.loc(),
        "a plain class tested against a class that refuses issubclass() (a protocol with data members, a TypedDict) is answered False, not with the TypeError (subtype test interpreted on a class whose metaclass raises)",
        got is False,
        f"subclasscheck(int, <class refusing issubclass>) {got if isinstance(got, str) else 'answers ' + repr(got)}: once one method of a function is declared on such a protocol, every call of the function raises instead of reaching the methods declared on plain classes",
    )
    ctx.ob(
        f"{sc.key}:any-is-object",
        sc.loc(),
        "typing.Any is treated as object wherever it stands: alone, inside type[...], as a (nested) argument of a generic (subtype test and order function interpreted on 4 x 2 pairs)",
        not problems,
        "; ".join(problems[:2]) + ": a method annotated type[Any] / type[list[Any]] is never applicable, although typing.Any counts as object",
    )


# ---------------------------------------------------------------------------------------- mirror image across kinds
def order_is_mirrored_across_kinds(ctx):
    """The order function itself, the subtype test and the hooks of the union, the intersection and the value-dependent
    type, all interpreted together on small worlds of real classes (bool < int, str): for every pair made of a union /
    an intersection / a dependent type / a class, typeorder(a, b) and typeorder(b, a) are mirror images."""
    import itertools
    import typing

    repo = ctx.repo
    to, sc, en = A.typeorder_fn(repo), A.subclasscheck_fn(repo), A.order_enum(repo)
    dm = A.dependent_meta(repo)
    raws = {c.name: repo.raw_methods(c) for c in repo.all_classes() if c.name in ("Union", "Intersection")}
    if set(raws) != {"Union", "Intersection"}:
        raise AnalysisError("union / intersection classes not found")
    draw = repo.raw_methods(dm)
    ctx.touch(to, sc, dm.methods["__type_order__"])

    class Made:
        """a type made by the forwarding metaclass: it forwards the protocol to its handler object"""

        def __init__(self, kind, members):
            self.kind, self.members = kind, tuple(members)
            h = Instance(kind, raws[kind])
            h.__dict__.update(types=self.members, __args__=self.members)
            self._handler = h
            for hook in ("__type_order__", "__is_supertype__", "__is_subtype__", "__subclasscheck__"):
                if hook in raws[kind]:
                    setattr(self, hook, HostFn(lambda other, hook=hook, h=h: hi.call_function(raws[kind][hook], [h, other], {}, {})))

        def __repr__(self):
            return f"{self.kind}[{', '.join(getattr(m, '__name__', repr(m)) for m in self.members)}]"

        def __eq__(self, other):
            return isinstance(other, Made) and self.kind == other.kind and set(self.members) == set(other.members)

        __hash__ = object.__hash__

    def dep(bound):
        d = Instance(dm.name, draw)
        d.__dict__.update(bound=bound, label=f"Dependent[{bound.__name__}, c]")
        return d

    DEP = Record(kind="the dependent metaclass")
    factories = {k: Record(kind=f"the {k} factory") for k in raws}

    def isinst(o, cls):
        if cls is DEP:
            return isinstance(o, Instance) and o._cls_name == dm.name
        if isinstance(cls, tuple) and len(cls) == 2 and cls[0] == "class":
            return isinstance(o, Instance) and o._cls_name == cls[1]
        if isinstance(cls, tuple):
            return any(isinst(o, c) for c in cls)
        if isinstance(o, (Instance, Made, Record)):
            return cls is object
        return isinstance(o, cls)

    def issub(a, b):
        if isinstance(b, Made):
            return bool(b.__subclasscheck__(a))
        if isinstance(b, Instance):
            raise TypeError("issubclass() arg 2 must be a class")
        if isinstance(a, (Made, Instance)):
            return b is object
        return issubclass(a, b)

    order_ns = Record(merge=HostFn(lambda orders: _ref_merge(list(orders))), **_ORD)
    funcs = {n: g.node for n, g in to.module.funcs.items() if g.parent is None and g.cls is None}
    genv = {
        en.name: order_ns, "NotImplemented": NotImplemented, "UnionTypes": (), "typing": typing, "Any": typing.Any, "TypeError": TypeError,
        "get_origin": lambda t: None, "get_args": lambda t: (), "issubclass": issub, "isinstance": isinst,
        dm.name: DEP, "Union": factories["Union"], "Intersection": factories["Intersection"],
    }
    hi = HostInterp({}, Record(), {}, globals_env=genv, classes={}, functions=funcs)
    hi.host_types = hi.host_types + (_Ord, Made)
    world = [bool, int, str]
    types_ = {
        "a class": [bool, int, str],
        "a union": [Made("Union", m) for m in ((bool, str), (int, str))],
        "an intersection": [Made("Intersection", m) for m in ((int, str), (bool, str))],
        "a value-dependent type": [dep(int), dep(bool)],
    }
    findings = {}
    n = 0
    for (ka, la), (kb, lb) in itertools.combinations_with_replacement(list(types_.items()), 2):
        if ka == kb == "a class":
            continue
        bad = None
        for a, b in itertools.product(la, lb):
            if a is b:
                continue
            try:
                x = hi.call_function(to.node, [a, b], {}, {})
                y = hi.call_function(to.node, [b, a], {}, {})
            except Raised as e:
                raise AnalysisError(f"{to.key}: raises {e.what} on {a!r} / {b!r}")
            except (TypeError, AttributeError) as e:
                raise AnalysisError(f"{to.key}: not interpretable on {a!r} / {b!r}: {e}")
            n += 1
            if getattr(x, "name", None) not in _ORD or getattr(y, "name", None) not in _ORD:
                raise AnalysisError(f"{to.key}: answers {x!r} / {y!r}")
            if x.opposite() is not y and bad is None:
                show = lambda t: getattr(t, "label", None) or getattr(t, "__name__", None) or repr(t)  # noqa: E731
                bad = f"typeorder({show(a)}, {show(b)}) is {x} but typeorder({show(b)}, {show(a)}) is {y}"
        findings[(ka, kb)] = bad
    for (ka, kb), bad in findings.items():
        slug = f"{ka.split()[-1]}-vs-{kb.split()[-1]}"
        ctx.ob(
            f"{to.key}:mirror:{slug}",
            to.loc(),
            f"{ka} against {kb}: the two directions give mirror-image answers (order function, subtype test and the hooks interpreted together on the classes bool < int, str)",
            bad is None,
            (bad or "") + ": the layer sorter asks each pair one way only, in set order, so which of two methods is preferred (or whether the call is ambiguous) depends on the hash seed",
        )
    ctx.require(n >= 20, "expected the cross-kind pairs")


# ---------------------------------------------------------------------------------------- tables are per object
_SHARED_TABLE_EXAMPLE = """
class Table(dict):
    errors = {}

    def __init__(self):
        self.maps = {}

    def file(self, key, err):
        self.errors[key] = err
"""


def _shared_class_tables(cls_node):
    """(attribute, statement) for every mutable container assigned in the class body that a method changes in place
    through the receiver without the constructor giving each object its own."""
    MUT_CALLS = ("dict", "list", "set", "defaultdict", "OrderedDict", "Counter", "deque")
    MUT_METHODS = ("append", "add", "update", "clear", "setdefault", "pop", "popitem", "extend", "insert", "remove", "discard", "__setitem__")
    level = {}
    for st in cls_node.body:
        if isinstance(st, ast.Assign) and len(st.targets) == 1 and isinstance(st.targets[0], ast.Name):
            v = st.value
            if isinstance(v, (ast.Dict, ast.List, ast.Set)) or (isinstance(v, ast.Call) and isinstance(v.func, ast.Name) and v.func.id in MUT_CALLS):
                level[st.targets[0].id] = st
    if not level:
        return []
    own = set()
    for f in cls_node.body:
        if isinstance(f, ast.FunctionDef) and f.name == "__init__" and f.args.args:
            rv = f.args.args[0].arg
            for x in ast.walk(f):
                if isinstance(x, (ast.Assign, ast.AnnAssign)):
                    for t in x.targets if isinstance(x, ast.Assign) else [x.target]:
                        for y in ast.walk(t):
                            if isinstance(y, ast.Attribute) and isinstance(y.value, ast.Name) and y.value.id == rv and isinstance(y.ctx, ast.Store):
                                own.add(y.attr)
    out = []
    for f in cls_node.body:
        if not (isinstance(f, ast.FunctionDef) and f.args.args):
            continue
        rv = f.args.args[0].arg
        for x in ast.walk(f):
            hit = None
            if isinstance(x, ast.Subscript) and isinstance(x.ctx, (ast.Store, ast.Del)) and isinstance(x.value, ast.Attribute) and isinstance(x.value.value, ast.Name) and x.value.value.id in (rv, cls_node.name):
                hit = x.value.attr
            elif isinstance(x, ast.Call) and isinstance(x.func, ast.Attribute) and x.func.attr in MUT_METHODS and isinstance(x.func.value, ast.Attribute) and isinstance(x.func.value.value, ast.Name) and x.func.value.value.id in (rv, cls_node.name):
                hit = x.func.value.attr
            if hit in level and hit not in own:
                out.append((hit, x, f.name))
    return out


def tables_are_per_object(ctx):
    """No class of the package keeps a table it changes in place as a class attribute (one object shared by every
    instance): the per-function caches, remembered errors and per-argument maps are created by the constructor."""
    ex = ast.parse(_SHARED_TABLE_EXAMPLE).body[0]
    if [h[0] for h in _shared_class_tables(ex)] != ["errors"]:
        raise AnalysisError("shared-table rule no longer recognises its positive example")
    repo = ctx.repo
    n = 0
    for c in repo.all_classes():
        if not c.methods:
            continue
        n += 1
        hits = _shared_class_tables(c.node)
        if c.name in ("MultiTypeMap", "TypeMap", "Ovld") or hits:
            for m in c.methods.values():
                ctx.touch(m)
                break
            ctx.ob(
                f"{c.key}:tables-per-object",
                c.loc(),
                f"`{c.name}` keeps no table it changes in place as a class attribute",
                not hits,
                (f"`{hits[0][0]}` is assigned once in the class body and changed in place by {hits[0][2]}() (`{short(hits[0][1], 40)}`): every {c.name} shares the one object, so what one function remembered (an ambiguity error, a cached resolution) answers a call of another function" if hits else ""),
            )
    ctx.require(n >= 10, "expected the classes of the package")


# ---------------------------------------------------------------------------------------- nothing of a build is memoised
def build_functions_are_not_memoised(ctx):
    """What a build does to a method - adapting it, rewriting its recurse / call_next sites, compiling it - depends on
    the function object's state at that build (the argument analysis decides key functions and keyword folding): the
    adapter, the re-compiler and the generators, and what they call, carry no process-wide memo."""
    from .c14 import get_callgraph_for

    repo = ctx.repo
    roots = [A.adapter(repo), A.recompiler(repo), A.entry_generator(repo), A.dependent_generator(repo)]
    cg = get_callgraph_for(ctx)
    clo = cg.closure(roots)
    bad = _memo_in_closure(ctx, clo)
    ctx.ob(
        "recode:build-functions-not-memoised",
        bad[0] if bad else roots[1].loc(),
        f"none of the {len(clo)} functions behind the adapter, the re-compiler and the two generators is memoised process-wide",
        bad is None,
        (f"{bad[1]}: the result computed for a method at one build is served at every later build, although a registration in between changed the argument analysis - the method keeps rewritten call sites (key functions, keyword folding, self) of the old method set" if bad else ""),
    )


# ---------------------------------------------------------------------------------------- the & operator
def and_operator_is_the_intersection(ctx):
    """`T & U` on the package's types (the metaclass's `__and__` / `__rand__`), interpreted: whatever the operands are -
    a plain check type, a union, an intersection - the result accepts exactly the values both operands accept."""
    import itertools

    repo = ctx.repo
    metas = [c for c in repo.all_classes() if "type" in c.base_names and "__and__" in c.methods and "__eq__" in c.methods]
    ctx.require(len(metas) == 1, "forwarding metaclass with the & operator not found")
    M = metas[0]
    mraw = repo.raw_methods(M)
    hattr = None
    new = M.methods.get("__new__")
    if new is not None:
        for d in ast.walk(new.node):
            if isinstance(d, ast.Dict) and len(d.keys) == 1 and isinstance(d.keys[0], ast.Constant):
                hattr = d.keys[0].value
    ctx.require(hattr is not None, f"{M.key}: handler attribute not found")
    kinds = {c.name: repo.raw_methods(c) for c in repo.all_classes() if c.name in ("Union", "Intersection")}
    ctx.require(set(kinds) == {"Union", "Intersection"}, "union / intersection classes not found")

    def made(kind, members):
        h = Instance(kind, kinds[kind])
        h.__dict__.update(types=tuple(members), __args__=tuple(members))
        t = Instance(M.name, mraw)
        t.__dict__[hattr] = h
        t.__dict__["__args__"] = tuple(members)
        return t

    def plain(label):
        h = Instance("SingleFunctionHandler", {})
        h.__dict__.update(label=label)
        t = Instance(M.name, mraw)
        t.__dict__[hattr] = h
        t.__dict__["label"] = label
        return t

    atoms = {n: plain(n) for n in ("A", "B", "H")}

    def accepts(t, v):
        h = t.__dict__.get(hattr) if isinstance(t, Instance) else None
        if isinstance(h, Instance) and h._cls_name in kinds:
            q = any if h._cls_name == "Union" else all
            return q(accepts(m, v) for m in h.types)
        return v[t.__dict__["label"]]

    class Factory:
        def __getitem__(self, item):
            item = tuple(item) if isinstance(item, (tuple, list)) else (item,)
            return made("Intersection", item)

    funcs = {n: g.node for n, g in M.module.funcs.items() if g.parent is None and g.cls is None and not g.node.decorator_list}
    hi = HostInterp(mraw, Record(), {}, globals_env={"Intersection": Factory()}, classes={}, functions=funcs)
    hi.host_types = hi.host_types + (Factory,)
    operands = {
        "a check type": atoms["A"],
        "a union": made("Union", (atoms["A"], atoms["B"])),
        "an intersection": made("Intersection", (atoms["A"], atoms["B"])),
    }
    values = [dict(zip("ABH", bits)) for bits in itertools.product((True, False), repeat=3)]
    for op in ("__and__", "__rand__"):
        m = M.methods.get(op)
        if m is None:
            continue
        ctx.touch(m)
        bad = None
        for what, left in operands.items():
            try:
                res = hi.call_function(mraw[op], [left, atoms["H"]], {}, {})
            except (AnalysisError, Raised, TypeError, AttributeError) as e:
                raise AnalysisError(f"{m.key}: not interpretable on {what}: {e}")
            for v in values:
                want = accepts(left, v) and v["H"]
                try:
                    got = accepts(res, v)
                except (KeyError, AttributeError, TypeError):
                    raise AnalysisError(f"{m.key}: the result of & is not a type made from the operands")
                if got != want and bad is None:
                    holds = ", ".join(k for k, x in v.items() if x) or "nothing"
                    bad = f"({what} of A and B) & H {'accepts' if got else 'rejects'} a value for which {holds} hold{'s' if len(holds) == 1 else ''}, but the operands {'both accept' if want else 'do not both accept'} it"
        ctx.ob(
            f"{m.key}:is-the-intersection",
            m.loc(),
            f"`{'T & U' if op == '__and__' else 'U & T (reflected)'}` accepts exactly the values both operands accept, for a check type, a union and an intersection on the left (interpreted on 3 x 8 value kinds)",
            bad is None,
            (bad or "") + ": a method declared on `(A | B) & H` is no longer applicable to an A (or B) that satisfies H",
        )


# ---------------------------------------------------------------------------------------- what makes two signatures equal
def signature_identity_ignores_parameter_names(ctx):
    """Two methods with the same parameter types are the same signature - that is what makes a re-registration or an
    override replace the earlier method - whatever their parameters are called: the per-argument records (which carry
    the names) are excluded from the equality and hash the signature record's dataclass generates."""
    from . import sigexec

    repo = ctx.repo
    S = A.signature_class(repo)
    ex, (kind, what), made = sigexec.run(ctx, "function")
    if kind != "built":
        raise AnalysisError(f"{S.key}: extraction does not build a signature on the reference function")
    carriers = [k for k, v in made.items() if isinstance(v, (list, tuple)) and v and all(getattr(x, "kind", None) == "arginfo" for x in v)]
    ctx.require(len(carriers) == 1, f"{S.key}: the field holding the per-argument records was not found")
    fld = carriers[0]
    decl = [st for st in S.node.body if isinstance(st, ast.AnnAssign) and isinstance(st.target, ast.Name) and st.target.id == fld]
    ctx.require(len(decl) == 1, f"{S.key}: field `{fld}` is not declared in the class body")
    v = decl[0].value
    excluded = isinstance(v, ast.Call) and call_name(v) in ("field", "dataclasses.field") and any(k.arg == "compare" and isinstance(k.value, ast.Constant) and k.value.value is False for k in v.keywords)
    # an explicit __eq__ would take over from the generated one
    own_eq = S.methods.get("__eq__")
    if own_eq is not None:
        excluded = fld not in _attrs_read(own_eq)
    for m in S.methods.values():
        ctx.touch(m)
        break
    ctx.ob(
        f"{S.key}:{fld}-not-compared",
        f"{S.module.rel}:{decl[0].lineno}",
        f"the per-argument records (`{fld}`, with the parameters' names) take no part in signature equality",
        excluded,
        f"`{fld}` is compared: a method that re-defines an existing signature under another parameter name (`conv(self, x: int)` / `conv(self, number: int)`) no longer replaces the earlier one - both stay registered at the same rank and the call is ambiguous",
    )


# ---------------------------------------------------------------------------------------- every build analyses afresh
def analysis_is_made_anew(ctx):
    """The method that analyses the signatures creates a new analyser and feeds it every definition on every path:
    the build calls it each time, and an analysis kept from an earlier method set gives the entry point the old
    parameter list and the old choice of key functions."""
    repo = ctx.repo
    oc = A.function_class(repo)
    an = A.argument_analyzer(repo)
    makers = []
    for m in oc.methods.values():
        if m.name == "__init__":
            continue
        rv = recv_name(m)
        for st in all_stmts(m.node):
            if isinstance(st, ast.Assign) and isinstance(st.value, ast.Call) and call_name(st.value) == an.name and any(is_self_attr(t, selfname=rv) for t in st.targets):
                makers.append((m, st))
    ctx.require(len(makers) == 1, "the method that creates the signature analyser was not found")
    m, st = makers[0]
    ctx.touch(m)
    cfg = cfg_of(ctx, m)
    node = cfg.node_of(st)
    always = cfg.must_reach(cfg.entry, [node])
    early = None
    if not always:
        for r in all_stmts(m.node):
            if isinstance(r, ast.Return) and cfg.node_of(r) in cfg.reachable(cfg.entry, avoiding=[node]):
                early = r
                break
    ctx.ob(
        f"{m.key}:analyses-afresh",
        m.loc(early) if early is not None else m.loc(st),
        f"every call of {m.name}() creates a new analyser (`{short(st, 50)}`) before it returns",
        always,
        f"`{short(early, 50) if early is not None else 'a path'}` returns without analysing: a rebuild after a registration keeps the analysis of the old method set - the regenerated entry point has the old parameter list (a call the new method accepts is rejected) and the old key functions (a class passed for a new type[...] parameter is keyed as plain type)",
    )
    # ... and the build calls it
    b = A.build_method(repo)
    brv = recv_name(b)
    calls = [s for s in all_stmts(b.node) if any(is_self_attr(c.func, m.name, selfname=brv) for c in stmt_calls(s))]
    bcfg = cfg_of(ctx, b)
    ok = bool(calls) and bcfg.must_reach(bcfg.entry, [bcfg.node_of(s) for s in calls])
    ctx.touch(b)
    ctx.ob(f"{b.key}:analyses-on-every-build", b.loc(calls[0]) if calls else b.loc(), f"every build runs {m.name}()", ok, "a build path skips the signature analysis: the entry point is generated from an analysis of another method set")


def rewriter_enters_the_method(ctx):
    from .rewriter import law_own_definition_is_entered

    law_own_definition_is_entered(ctx)


def recompiled_method_keeps_private_names(ctx):
    from . import recodeexec

    recodeexec.law(ctx, "private-names")


def class_argument_matches_its_metaclass(ctx):
    """A class passed as an argument is keyed type[X] as soon as some method of the function annotates that position
    with type[...]: a method annotated with X's metaclass must still match it, or the mere presence of an
    inapplicable type[...] method changes the outcome."""
    import abc
    import typing

    repo = ctx.repo
    sc, en = A.subclasscheck_fn(repo), A.order_enum(repo)
    ctx.touch(sc)
    order_ns = Record(merge=HostFn(lambda orders: _ref_merge(list(orders))), **_ORD)
    funcs = {n: g.node for n, g in sc.module.funcs.items() if g.parent is None and g.cls is None}
    genv = {en.name: order_ns, "NotImplemented": NotImplemented, "get_origin": typing.get_origin, "get_args": typing.get_args, "UnionTypes": (), "typing": typing, "Any": typing.Any, "TypeError": TypeError}
    hi = HostInterp({}, Record(), {}, globals_env=genv, classes={}, functions=funcs)
    hi.host_types = hi.host_types + (_Ord,)
    Abs = abc.ABCMeta("Abs", (), {})
    try:
        got_meta = hi.call_function(sc.node, [type[Abs], abc.ABCMeta], {}, {})
    except Raised as e:
        got_meta = f"raises {e.what}"
    except TypeError as e:
        got_meta = f"raises TypeError ({e})"
    ctx.ob(
        f"{sc.key}:class-against-its-metaclass",
        sc.loc(),
        "type[X] is a subtype of the metaclass of X: a class argument keeps matching a method annotated with its metaclass when another method's type[...] annotation switches the position to type-valued keys (subtype test interpreted on a real ABC)",
        got_meta is True,
        f"subclasscheck(type[Abs], ABCMeta) {got_meta if isinstance(got_meta, str) else 'answers ' + repr(got_meta)} although Abs is an instance of ABCMeta: registering a type[...] method that is not applicable to the call changes which method a class argument reaches",
    )


# ---------------------------------------------------------------------------------------- re-registration, by interpretation
def reregistration_keeps_every_method_once(ctx):
    """The registering method of the function class, interpreted on own tables that already hold the signature (not
    at all, once, three times, three times with a hole left by an unregistration, next to other signatures): afterwards
    the new method is the highest-ranked entry of the signature, every earlier method of it is in the table exactly
    once and in the same order below, and entries of other signatures are untouched - which is what a function built
    anew from the remaining methods holds."""
    import dataclasses

    from ..metainterp import HostFn, HostInterp, Instance, Raised, Record
    from .common import method_table_writers

    repo = ctx.repo
    oc = A.function_class(repo)
    sc = A.signature_class(repo)
    writers = {m.name for m, w, st in method_table_writers(ctx) if w.attr == "_defns"}
    # ... also through a local alias of the table (`defns = self._defns` ... `defns[sig] = fn`)
    for m in oc.methods.values():
        r = recv_name(m)
        aliases = {t.id for st in ast.walk(m.node) if isinstance(st, ast.Assign) and is_self_attr(st.value, "_defns", selfname=r) for t in st.targets if isinstance(t, ast.Name)}
        if aliases and any(isinstance(x, ast.Subscript) and isinstance(x.ctx, (ast.Store, ast.Del)) and isinstance(x.value, ast.Name) and x.value.id in aliases for x in ast.walk(m.node)):
            writers.add(m.name)

    def reaches_writer(m, seen=None):
        """methods of the class that m calls on its receiver, transitively, which write the own table"""
        seen = seen if seen is not None else set()
        out = set()
        r = recv_name(m)
        for c in ast.walk(m.node):
            if isinstance(c, ast.Call) and is_self_attr(c.func, selfname=r) and c.func.attr in oc.methods and c.func.attr not in seen:
                seen.add(c.func.attr)
                callee = oc.methods[c.func.attr]
                sub = reaches_writer(callee, seen)
                if callee.name in writers or sub:
                    out |= {callee.name} | sub
        return out

    cands = []
    helpers = {}
    for m in oc.methods.values():
        if m.name == "__init__" or not any(isinstance(n, ast.Name) and n.id == sc.name for n in ast.walk(m.node)):
            continue
        hs = reaches_writer(m)
        if m.name in writers or hs:
            cands.append(m)
            helpers[m.name] = hs
    ctx.require(cands, f"{oc.key}: no method extracts a signature and writes the own table")
    raw = repo.raw_methods(oc)

    @dataclasses.dataclass(frozen=True)
    class Sig:
        types: tuple
        priority: int = 0
        tiebreak: int = 0
        req_pos: int = 1
        max_pos: int = 1
        req_names: frozenset = frozenset()
        vararg: bool = False

    S = lambda tb=0, types=("int",), prio=0: Sig(types=types, priority=prio, tiebreak=tb)  # noqa: E731
    other = {S(0, ("str",)): "other-type", S(0, ("int",), 5): "other-priority", S(-1, ("str",)): "other-type-below"}
    scenarios = {
        "first registration": {},
        "one earlier method": {S(0): "a"},
        "three earlier methods": {S(0): "c", S(-1): "b", S(-2): "a"},
        "three earlier methods, the middle one unregistered": {S(0): "c", S(-2): "a"},
        "the top one unregistered": {S(-1): "b", S(-2): "a"},
    }
    for m in cands:
        ctx.touch(m)
        params = [a.arg for a in m.node.args.args][1:]
        problems = []
        for label, own in scenarios.items():
            before = {**other, **own}
            log = []
            # the registering method and the helpers through which it writes the table are interpreted; every other
            # method of the class is a stub that records its call
            me = Instance(oc.name, {k: v for k, v in raw.items() if k == m.name or k in helpers[m.name]})
            me.__dict__.update(_defns=dict(before), mixins=[], children=[], linkback=False, allow_replacement=True, _locked=False, _compiled=True, name="f")
            for o in oc.methods.values():
                if o is not m and o.name not in helpers[m.name]:
                    me.__dict__[o.name] = HostFn(lambda *a, _n=o.name, **k: log.append(_n))
            new_fn = Record(name="new", sig=S(0))
            genv = {
                sc.name: Record(extract=HostFn(lambda fn: fn.sig)),
                "replace": HostFn(dataclasses.replace),
                "dataclasses": Record(replace=HostFn(dataclasses.replace)),
            }
            hi = HostInterp(me._methods, me, {}, globals_env=genv, classes={}, functions={})
            args = [me, new_fn] + [0 for p in params[1:]]
            try:
                hi.call_function(raw[m.name], args, {}, {})
            except Raised as e:
                problems.append(f"[{label}] the registration raises {getattr(e, 'value', e)!r}")
                continue
            except (TypeError, AttributeError, KeyError) as e:
                raise AnalysisError(f"{m.key}: the registering method could not be interpreted on a stand-in table ({type(e).__name__}: {e})")
            after = me._defns
            if not isinstance(after, dict) or not all(isinstance(k, Sig) for k in after):
                raise AnalysisError(f"{m.key}: the own table is not a dict keyed by signatures after registration")
            same = sorted([k for k in after if dataclasses.replace(k, tiebreak=0) == S(0)], key=lambda k: -k.tiebreak)
            got = [after[k] for k in same]
            want = [new_fn] + [own[k] for k in sorted(own, key=lambda k: -k.tiebreak)]
            show = lambda xs: [getattr(x, "name", x) for x in xs]  # noqa: E731
            if got != want:
                problems.append(f"[{label}] the methods of the signature, best first, are {show(got)}; a function built from the remaining methods has {show(want)}")
            rest = {k: v for k, v in after.items() if k not in same}
            if rest != other:
                problems.append(f"[{label}] entries of other signatures changed: {sorted(map(str, rest.values()))}")
        ctx.ob(
            f"{m.key}:reregistration-by-interpretation",
            m.loc(),
            f"{m.name}() interpreted on {len(scenarios)} own tables (signature absent, present once, three times, with a hole): the new method ranks first, every earlier method of the signature stays exactly once below it in order, other signatures are untouched",
            not problems,
            "; ".join(problems[:3]) + ": the method table after this history is not the one a freshly built function has (a stale duplicate answers call_next, or a method is lost)",
        )


# ---------------------------------------------------------------------------------------- which positions are type-valued
def only_type_annotations_make_a_position_type_valued(ctx):
    """The per-argument record's test that makes the analyser pick the finer key function for a position, interpreted
    on annotations of every normal form: it holds for a `type[...]` alias and for nothing else - not for a plain class,
    not for a combination of the package, not for a value-dependent type (which carries `__origin__` / `__args__` too).
    A position marked without need keys every class passed there by itself: calls that are one combination of argument
    types are resolved again and again."""
    import types as _types
    import typing as _typing

    from ..metainterp import HostInterp, Instance, Raised

    repo = ctx.repo
    an = A.argument_analyzer(repo)
    read = set()
    for m in an.methods.values():
        rv = recv_name(m)
        for n in ast.walk(m.node):
            if isinstance(n, ast.Attribute) and isinstance(n.value, ast.Name) and n.value.id != rv:
                read.add(n.attr)
    cands = []
    for c in repo.all_classes():
        fields = {st.target.id for st in c.node.body if isinstance(st, ast.AnnAssign) and isinstance(st.target, ast.Name)}
        props = {m.name: m for m in c.methods.values() if any(dotted(d) in ("property", "cached_property", "functools.cached_property") for d in m.node.decorator_list)}
        if len((fields | set(props)) & read) >= 3:
            for name, m in props.items():
                rv = recv_name(m)
                attrs = {x.attr for x in ast.walk(m.node) if is_self_attr(x, selfname=rv)}
                tests = [x for x in ast.walk(m.node) if isinstance(x, ast.Call) and call_name(x) in ("isinstance", "hasattr", "get_origin", "typing.get_origin")]
                if name in read and len(attrs) == 1 and tests and attrs <= fields:
                    cands.append((c, m, next(iter(attrs))))
    ctx.require(len(cands) == 1, f"the per-argument record's type-valued test was not found ({[m.key for _, m, _ in cands]})")
    cls, prop, fld = cands[0]
    ctx.touch(prop)
    raw = repo.raw_methods(cls)
    # names of the property's module, as that module binds them
    genv = {}
    for n in ast.walk(prop.node):
        if isinstance(n, ast.Name) and isinstance(n.ctx, ast.Load):
            imp = cls.module.imports.get(n.id)
            if imp and imp[0] == "ext" and imp[1] in ("types", "typing") and len(imp) > 2 and imp[2] and hasattr(__import__(imp[1]), imp[2]):
                genv[n.id] = getattr(__import__(imp[1]), imp[2])
            elif imp and imp[0] == "extmod" and imp[1] in ("types", "typing"):
                genv[n.id] = __import__(imp[1])
    dep = Instance("a value-dependent type", {})
    dep.__dict__.update(__origin__=None, __args__=(1, 2), parameters=(1, 2), bound=int)
    comb = Instance("a combination of the package", {})
    comb.__dict__.update(__args__=(int, str), types=(int, str))
    cases = [
        ("type[int]", type[int], True),
        ("type[object]", type[object], True),
        ("type[list[int]]", type[list[int]], True),
        ("int", int, False),
        ("object", object, False),
        ("a value-dependent type (Literal[1, 2])", dep, False),
        ("a union of the package", comb, False),
    ]
    problems = []
    for label, ann, want in cases:
        o = Instance(cls.name, raw)
        o.__dict__[fld] = ann
        hi = HostInterp(raw, o, {}, globals_env=dict(genv), classes={}, functions={})
        hi.host_types = hi.host_types + (_types.GenericAlias,)
        try:
            got = hi.call_function(raw[prop.name], [o], {}, {})
        except Raised as r:
            got = f"raises {r.what}"
        except (TypeError, AttributeError, KeyError) as ex:
            raise AnalysisError(f"{prop.key}: not interpretable on {label}: {type(ex).__name__}: {ex}")
        if bool(got) is not want or isinstance(got, str):
            problems.append(f"for {label} it answers {got!r}")
    ctx.ob(
        f"{prop.key}:type-annotations-only",
        prop.loc(),
        f"`{cls.name}.{prop.name}` holds for type[...] annotations and for no other normal form (interpreted on {len(cases)} annotations; names resolved as {cls.module.rel} binds them)",
        not problems,
        "; ".join(problems) + ": a position is keyed with the finer key function without a type[...] method asking for it (every class passed there becomes a key of its own and is resolved separately, recurse keys stop matching the entry point's), or a type[...] position is keyed by class and its methods stop matching",
    )


# ---------------------------------------------------------------------------------------- the table as its callers see it
def repeated_lookup_is_the_first_lookup(ctx):
    from . import lookupexec

    lookupexec.law(ctx, "repeat-is-first")


def lookups_follow_the_ranking(ctx):
    from . import lookupexec

    lookupexec.law(ctx, "reference", "repeat-is-first")


# ---------------------------------------------------------------------------------------- combinations, type level, by value
def combinations_apply_member_wise(ctx):
    """The type-level test of the package's union and intersection (`__is_supertype__`: is a method declared on the
    combination applicable to a class), interpreted on nested combinations - a union inside an intersection, an
    intersection inside a union, either inside its own kind - for every way a class can satisfy the three atoms: the
    answer is some-member for a union and every-member for an intersection, each nested member answering through its
    own test."""
    import itertools

    from ..metainterp import HostFn, HostInterp, Instance, Raised, Record

    repo = ctx.repo
    metas = [c for c in repo.all_classes() if "type" in c.base_names and "__and__" in c.methods and "__eq__" in c.methods]
    ctx.require(len(metas) == 1, "forwarding metaclass not found")
    M = metas[0]
    mraw = repo.raw_methods(M)
    hattr = None
    new = M.methods.get("__new__")
    if new is not None:
        for d in ast.walk(new.node):
            if isinstance(d, ast.Dict) and len(d.keys) == 1 and isinstance(d.keys[0], ast.Constant):
                hattr = d.keys[0].value
    ctx.require(hattr is not None, f"{M.key}: handler attribute not found")
    kinds = {c.name: c for c in repo.all_classes() if c.name in ("Union", "Intersection")}
    ctx.require(set(kinds) == {"Union", "Intersection"}, "union / intersection classes not found")
    raws = {k: repo.raw_methods(c) for k, c in kinds.items()}
    hook = "__is_supertype__"
    ctx.require(all(hook in r for r in raws.values()), f"union / intersection without {hook}")

    def made(kind, members):
        h = Instance(kind, raws[kind])
        h.__dict__.update(types=tuple(members), __args__=tuple(members))
        t = Instance(M.name, mraw)
        t.__dict__[hattr] = h
        t.__dict__["__args__"] = tuple(members)
        return t

    def plain(label):
        h = Instance("SingleFunctionHandler", {})
        h.__dict__.update(label=label)
        t = Instance(M.name, mraw)
        t.__dict__[hattr] = h
        t.__dict__["label"] = label
        return t

    atoms = {n: plain(n) for n in ("A", "B", "H")}

    def accepts(t, v):
        h = t.__dict__.get(hattr)
        if isinstance(h, Instance) and h._cls_name in kinds:
            q = any if h._cls_name == "Union" else all
            return q(accepts(m, v) for m in h.types)
        return v[t.__dict__["label"]]

    funcs = {n: g.node for n, g in M.module.funcs.items() if g.parent is None and g.cls is None and not g.node.decorator_list}
    holder = {}

    def subclasscheck(cls_, t):
        """the subtype test as the hooks see it: a combination answers through its own hook, an atom by the class"""
        h = t.__dict__.get(hattr) if isinstance(t, Instance) else None
        if isinstance(h, Instance) and h._cls_name in kinds:
            return holder["hi"].call_function(raws[h._cls_name][hook], [h, cls_], {}, {})
        return cls_.v[t.__dict__["label"]]

    hi = HostInterp(mraw, Record(), {}, globals_env={"subclasscheck": HostFn(subclasscheck)}, classes={}, functions=funcs)
    holder["hi"] = hi
    A_, B_, H_ = atoms["A"], atoms["B"], atoms["H"]
    shapes = {
        "H & (A | B)": made("Intersection", (H_, made("Union", (A_, B_)))),
        "(A | B) & H": made("Intersection", (made("Union", (A_, B_)), H_)),
        "H | (A & B)": made("Union", (H_, made("Intersection", (A_, B_)))),
        "(A & B) & H": made("Intersection", (made("Intersection", (A_, B_)), H_)),
        "(A | B) | H": made("Union", (made("Union", (A_, B_)), H_)),
        "A & B": made("Intersection", (A_, B_)),
        "A | B": made("Union", (A_, B_)),
    }
    values = [dict(zip("ABH", bits)) for bits in itertools.product((True, False), repeat=3)]
    for kind, c in kinds.items():
        ctx.touch(c.methods[hook])
    bad = {}
    for label, t in shapes.items():
        top = t.__dict__[hattr]
        for v in values:
            cls_ = Record(v=v, kind="a class")
            try:
                got = hi.call_function(raws[top._cls_name][hook], [top, cls_], {}, {})
            except (AnalysisError, Raised, TypeError, AttributeError, KeyError) as e:
                raise AnalysisError(f"{kinds[top._cls_name].key}.{hook}: not interpretable on {label}: {e}")
            want = accepts(t, v)
            if bool(got) != want and top._cls_name not in bad:
                holds = ", ".join(k for k, x in v.items() if x) or "none of A, B, H"
                bad[top._cls_name] = f"`{label}` is {'applicable' if got else 'not applicable'} to a class that satisfies {holds}, which {'does not meet' if not want else 'meets'} the combination"
    for kind, c in kinds.items():
        ctx.ob(
            f"{c.key}.{hook}:member-wise",
            c.methods[hook].loc(),
            f"a method declared on {'a union' if kind == 'Union' else 'an intersection'} is applicable to a class exactly when {'some member' if kind == 'Union' else 'every member'} is, nested combinations answering through their own test (interpreted on {len(shapes)} shapes x 8 kinds of class)",
            kind not in bad,
            bad.get(kind, "") + ": a nested combination is not asked as a whole (its members are tested as if they were members of the outer one)",
        )


# ---------------------------------------------------------------------------------------- every placement of the call
def every_placement_of_the_call_compiles(ctx):
    from . import placements

    placements.law(ctx)


# ---------------------------------------------------------------------------------------- applicability of a dependent type
def dependent_applicability_is_the_subtype_test_of_the_bound(ctx):
    """A value-dependent type is applicable to a class exactly when the class passes the *subtype test* against the
    bound (the generated wrapper then tests the value only): `DependentType.__is_supertype__` interpreted with the
    subtype test and the order function as independent stubs - the answer follows the subtype test, whatever the
    order function says (for an intersection bound the order says LESS for a subclass of one member only)."""
    from ..metainterp import HostFn, HostInterp, Instance, Raised, Record

    repo = ctx.repo
    cands = [c for c in repo.all_classes() if c.name == "DependentType" or ("__is_supertype__" in c.methods and "check" in c.methods and "type" in c.base_names)]
    ctx.require(len(cands) >= 1, "the value-dependent base class was not found")
    D = [c for c in cands if "__is_supertype__" in c.methods]
    ctx.require(len(D) == 1, "the value-dependent base class has no applicability hook")
    D = D[0]
    m = D.methods["__is_supertype__"]
    ctx.touch(m)
    raw = repo.raw_methods(D)
    en = A.order_enum(repo)
    bad = None
    n = 0
    for sub_answer in (True, False):
        for order_answer in ("LESS", "SAME", "MORE", "NONE"):
            me = Instance(D.name, raw)
            me.__dict__.update(bound="BOUND", parameters=(), __args__=())
            order = Record(**{k: f"<{k}>" for k in ("LESS", "SAME", "MORE", "NONE")})
            genv = {
                "subclasscheck": HostFn(lambda a, b, _s=sub_answer: _s if (a, b) == ("CLS", "BOUND") else False),
                "typeorder": HostFn(lambda a, b, _o=order_answer, _ord=order: getattr(_ord, _o) if (a, b) == ("CLS", "BOUND") else _ord.NONE),
                en.name: order,
                "issubclass": HostFn(lambda a, b, _s=sub_answer: _s),
            }
            hi = HostInterp(raw, me, {}, globals_env=genv, classes={D.name: raw}, functions={})
            try:
                got = hi.call_function(raw["__is_supertype__"], [me, "CLS"], {}, {})
            except (AnalysisError, Raised, TypeError, AttributeError) as e:
                raise AnalysisError(f"{m.key}: not interpretable: {e}")
            n += 1
            if bool(got) != sub_answer and got is not NotImplemented and bad is None:
                bad = f"for a class that {'passes' if sub_answer else 'fails'} the subtype test against the bound while the order function says {order_answer}, the type is {'applicable' if got else 'not applicable'}"
    ctx.ob(
        f"{m.key}:follows-the-subtype-test",
        m.loc(),
        f"a value-dependent type is applicable to a class exactly when the class passes the subtype test against the bound ({n} combinations of subtype-test and order answers interpreted)",
        bad is None,
        (bad or "") + ": the wrapper tests the value only, so the method is entered with an argument outside its bound (e.g. a subclass of one member of an intersection bound)",
    )
