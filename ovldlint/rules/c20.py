"""C20 - each argument-type combination is resolved at most once between changes."""

import ast

from .. import anchors as A
from ..callgraph import get_callgraph
from ..cfg import all_stmts
from ..effects import DICT, MUTATORS, stmt_calls, stmt_writes
from ..model import AnalysisError, call_name, dotted, is_self_attr, short, src
from ..skeleton import from_format
from .c05 import lookup_path
from .c18 import cache_stores, key_shapes
from .common import cfg_of, recv_name

RESOLUTION_METHODS = ("__missing__", "resolve", "mro", "get", "setdefault")


def call_template(ctx):
    gen = A.entry_generator(ctx.repo)
    cands = [(k, v) for k, v in gen.module.str_constants.items() if "OVLD.map[" in v or "OVLD.map." in v]
    ctx.require(len(cands) == 1, f"expected one call template mentioning OVLD.map in {gen.module.rel}, found {[k for k, _ in cands]}")
    name, text = cands[0]
    node = gen.module.assigns[name]
    return name, from_format(text, node), node


def cache_attr_names(ctx):
    """Attribute names that hold cache-class instances (directly or as container elements)."""
    cg = get_callgraph(ctx)
    caches = set(A.cache_classes(ctx.repo))
    direct = {a for a, c in cg.kinds.items() if c in caches and not a.endswith("[]")}
    elems = {a[:-2] for a, c in cg.kinds.items() if c in caches and a.endswith("[]")}
    return direct, elems


def r1_hot_paths_subscript(ctx):
    repo = ctx.repo
    gen = A.entry_generator(repo)
    oc = A.function_class(repo)
    rw = A.rewriter(repo)
    ctx.touch(gen)
    # (a) the generated entry point (abstractly executed; the call template is read as a fallback)
    def _tpl(ctx_):
        name, sk, node = call_template(ctx)
        subs = [n for n in ast.walk(sk.tree) if isinstance(n, ast.Subscript) and dotted(n.value) == "OVLD.map"]
        bad = [n for n in ast.walk(sk.tree) if isinstance(n, ast.Call) and isinstance(n.func, ast.Attribute) and n.func.attr in RESOLUTION_METHODS]
        ctx.ob(
            f"{gen.module.name}.{name}:subscript",
            f"{gen.module.rel}:{node.lineno}",
            "the generated entry point obtains the method by subscripting OVLD.map (a dict hit never reaches resolution code)",
            bool(subs) and not bad,
            f"the generated entry point calls `{short(bad[0], 60)}`: every call re-enters resolution even for a combination already resolved" if bad else "no OVLD.map[...] subscript in the call template",
        )

    from .c03 import _with_fallback

    _with_fallback(ctx, ("hand-over",), _tpl)
    # (b) the node the rewriter emits for recurse / call_next (abstract execution)
    from .rewriter import law_table_subscript

    law_table_subscript(ctx)
    # (c) readers in the function class
    n_readers = 0
    for m in oc.methods.values():
        rv = recv_name(m)
        for n in ast.walk(m.node):
            if isinstance(n, ast.Call) and isinstance(n.func, ast.Attribute) and n.func.attr in RESOLUTION_METHODS and is_self_attr(n.func.value, "map", selfname=rv):
                n_readers += 1
                ctx.touch(m)
                ctx.ob(
                    f"{m.key}:map.{n.func.attr}",
                    m.loc(n),
                    "methods of the function class read the table by subscript",
                    False,
                    f"`{short(n, 60)}` bypasses the dict hit and re-enters resolution on every call",
                )
            elif isinstance(n, ast.Subscript) and is_self_attr(n.value, "map", selfname=rv) and isinstance(n.ctx, ast.Load):
                n_readers += 1
                ctx.touch(m)
                ctx.ob(f"{m.key}:map[]", m.loc(n), f"`{short(n, 50)}` reads the table by subscript", True)
    ctx.require(n_readers >= 1, "no method of the function class reads the table")


def r2_success_is_reread(ctx):
    multi = A.multimap(ctx.repo)
    miss = multi.methods["__missing__"]
    ctx.touch(miss)
    rv = recv_name(miss)
    params = [p for p in miss.params if p != rv][:1]
    cg = get_callgraph(ctx)
    res_names = {m.name for m in lookup_path(ctx, multi) if m is not miss}
    rets = [n for n in ast.walk(miss.node) if isinstance(n, ast.Return)]
    ctx.require(rets, "__missing__ has no return")
    cfg = cfg_of(ctx, miss)
    for r in rets:
        v = r.value
        ok = False
        why = ""
        if isinstance(v, ast.Name):
            # a local holding what was read from the table earlier on this path
            defs = [s.value for s in ast.walk(miss.node) if isinstance(s, ast.Assign) and any(isinstance(t, ast.Name) and t.id == v.id for t in s.targets)]
            if len(defs) == 1 and isinstance(defs[0], ast.Subscript):
                v = defs[0]
        if isinstance(v, ast.Subscript) and isinstance(v.value, ast.Name) and v.value.id == rv:
            shapes = key_shapes(miss.node, v.slice, params)
            ok = shapes <= {"param", "tail"}
            why = f"returns self[...] under key shape {sorted(shapes)}"
        elif isinstance(v, ast.Subscript) and is_self_attr(v.value, selfname=rv) or is_self_attr(v, selfname=rv):
            # registration state: allowed only on a path without a resolution call
            dom_calls = [
                st
                for st in all_stmts(miss.node)
                if not isinstance(st, (ast.FunctionDef, ast.ClassDef))
                and any(is_self_attr(c.func, selfname=rv) and c.func.attr in res_names for c in stmt_calls(st))
                and cfg.node_of(r) in cfg.reachable(cfg.node_of(st))
            ]
            ok = not dom_calls
            why = "returns registration state on a path without resolution"
        ctx.ob(
            f"{miss.key}:return:{short(v, 40) if v is not None else 'None'}",
            miss.loc(r),
            "a successful miss answers by re-reading the table under the looked-up key (so success implies the entry was stored)",
            ok,
            f"`{short(r, 60)}` hands out a value that was not read back from the table: a miss that stored nothing still succeeds, and the next call with the same types resolves again",
        )
    # resolve stores the bare key or records an error for it in the first rank
    stores = cache_stores(ctx, multi, tables=(DICT, "errors"))
    res = [m for m in lookup_path(ctx, multi) if any(mm is m for mm, _, w, _ in stores if w.attr == DICT)]
    ctx.require(res, "no method stores the bare key")
    for m in res:
        ctx.touch(m)
        mrv = recv_name(m)
        mparams = [p for p in m.params if p != mrv][:1]
        mcfg = cfg_of(ctx, m)
        store_nodes = []
        outer = None
        for mm, st, w, key in stores:
            if mm is not m:
                continue
            if w.attr == "errors" or "param" in key_shapes(m.node, key, mparams):
                store_nodes.append(mcfg.node_of(st))
                # a `for k in keys: self[k] = v` loop is taken to run at least once (keys is built non-empty)
                chain = [lp for lp in ast.walk(m.node) if isinstance(lp, ast.For) and any(x is st for x in ast.walk(lp))]
                for lp in chain:
                    if st in lp.body:
                        store_nodes.append(mcfg.node_of(lp))
                if chain and w.attr == DICT:
                    outer = chain[0]
        ctx.require(outer is not None, f"{m.key}: the bare-key store is not inside the per-rank loop any more")
        store_nodes = [x for x in store_nodes if x != mcfg.node_of(outer)]
        inside = {mcfg.node_of(x) for b in outer.body for x in ast.walk(b) if isinstance(x, ast.stmt) and mcfg.node_of(x) is not None}
        first = mcfg.node_of(outer.body[0])
        reach = mcfg.reachable(first, avoiding=store_nodes, strict=False)
        escaped = [x for x in reach if x not in inside and x != mcfg.exc_exit]
        ok = bool(store_nodes) and not escaped
        ctx.ob(
            f"{m.key}:stores-or-records",
            m.loc(outer),
            "every path through one rank of the resolution loop stores the cache entry or records an error before moving on",
            ok,
            "a rank can be passed having stored neither an entry nor an error for its key: the miss handler then fails or recurses, and nothing is cached",
        )


def r3_no_hit_interception(ctx):
    for cls in A.cache_classes(ctx.repo):
        bad = [n for n in ("__getitem__", "get", "__contains__", "__getattribute__") if any(n in c.methods for c in ctx.repo.class_mro(cls))]
        ctx.ob(
            f"{cls.key}:hits-untouched",
            cls.loc(),
            "the cache class inherits dict's __getitem__/get/__contains__ (hits are served by the dict itself)",
            not bad,
            f"{cls.name} defines {bad}: a hit now runs library code and may consult resolution again",
        )


def r4_only_cache_classes_write_cache(ctx):
    """Ownership: entries of a cache object are written only by the cache classes themselves."""
    repo = ctx.repo
    caches = A.cache_classes(repo)
    direct, elems = cache_attr_names(ctx)
    ctx.require("map" in direct, "attribute kinds lost: no attribute holds the multi-position table")
    n = 0
    for f in repo.all_funcs():
        if f.cls in caches:
            continue
        for node in ast.walk(f.node):
            target = None
            if isinstance(node, ast.Call) and isinstance(node.func, ast.Attribute) and node.func.attr in MUTATORS:
                b = node.func.value
                if isinstance(b, ast.Attribute) and b.attr in direct:
                    target = (b.attr, f"{node.func.attr}()")
            elif isinstance(node, (ast.Assign, ast.AugAssign, ast.Delete)):
                tg = node.targets if isinstance(node, (ast.Assign, ast.Delete)) else [node.target]
                for t in tg:
                    if isinstance(t, ast.Subscript) and isinstance(t.value, ast.Attribute) and t.value.attr in direct:
                        target = (t.value.attr, "item store" if not isinstance(node, ast.Delete) else "del")
            elif isinstance(node, ast.Call) and call_name(node) in ("dict.__setitem__", "dict.pop", "dict.clear", "dict.__delitem__", "dict.update"):
                target = ("<dict>", call_name(node))
            if target:
                n += 1
                ctx.touch(f)
                ctx.ob(
                    f"{f.key}:{target[0]}.{target[1]}",
                    f.loc(node),
                    "cache entries are written only inside the cache classes",
                    False,
                    f"`{short(node, 60)}` evicts or overwrites cache entries from outside the cache class: a combination already resolved is resolved again (or answered differently)",
                )
    # positive inventory: where the legitimate writers are
    for cls in caches:
        for m in cls.methods.values():
            rv = recv_name(m)
            ws = [w for st in all_stmts(m.node) if not isinstance(st, (ast.FunctionDef, ast.ClassDef)) for w in stmt_writes(st, rv) if w.attr == DICT]
            for w in ws:
                n += 1
                ctx.ob(f"{m.key}:owner:{w.kind}{':' + w.method if w.method else ''}", m.loc(w.stmt), f"cache write `{short(w.stmt, 40)}` is inside the cache class", True)
    ctx.require(n, "no cache write found anywhere")


def r5_no_rebuild_without_change(ctx):
    """The build throws every resolved combination away.  Outside the update method (which runs on a change) it may
    only be invoked under `not <built flag>`; the first-call trampoline, which the build replaces, is exempt."""
    repo = ctx.repo
    oc = A.function_class(repo)
    build = A.build_method(repo)
    try:
        upd = A.update_method(repo)
    except AnalysisError:
        upd = None  # its absence is reported by C05.R2 / C16.R5
    from .common import holds_at

    n = 0
    for m in oc.methods.values():
        if m is build:
            continue
        rv = recv_name(m)
        for c in ast.walk(m.node):
            if isinstance(c, ast.Call) and is_self_attr(c.func, build.name, selfname=rv):
                n += 1
                ctx.touch(m)
                if m is upd:
                    ok = holds_at(ctx, m, c, lambda a: a[0] == "truthy" and is_self_attr(a[1], "_compiled", selfname=rv))
                    ctx.ob(f"{m.key}:rebuild-on-change", m.loc(c), f"{m.name}() rebuilds a function that is already in use (and only such a function)", ok, "the update method rebuilds unconditionally or never")
                    continue
                ok = holds_at(ctx, m, c, lambda a: a[0] == "falsy" and is_self_attr(a[1], "_compiled", selfname=rv))
                ctx.ob(
                    f"{m.key}:build-only-if-unbuilt",
                    m.loc(c),
                    f"{m.name}() builds only when the function has not been built yet (`not {rv}._compiled`)",
                    ok,
                    f"{m.name}() calls {build.name}() unconditionally: every use replaces the dispatch table by an empty one, so every argument-type combination is resolved again (user predicates and order hooks are consulted again) although no method changed",
                )
    ctx.require(n >= 3, "expected the lazy-build sites and the update method")


def r6_emitted_checks_skip_class_level_tests(ctx):
    dm = A.dependent_meta(ctx.repo)
    cg = dm.methods["codegen"]
    ctx.touch(cg)
    from ..model import str_value

    tpls = [str_value(c.args[0]) for c in ast.walk(cg.node) if isinstance(c, ast.Call) and call_name(c) == "CodeGen" and c.args]
    ctx.require(tpls, f"{cg.key}: no check template")
    for t in tpls:
        direct = ".check(" in (t or "") and "isinstance" not in (t or "")
        ctx.ob(
            f"{cg.key}:template",
            cg.loc(),
            f"the per-call check emitted for a dependent type evaluates its condition directly (`{t}`); the bound was established when the combination was resolved",
            direct,
            f"the emitted per-call check `{t}` goes through isinstance(), which re-tests the bound: with a class-predicate bound the user's predicate is consulted on every call of an already resolved combination",
        )


def r9_dependent_dispatcher_tests_values_only(ctx):
    from . import depgen as DG

    DG.law(ctx, "only-dependent-checks")


RULES = [
    ("C20.R5", "P1", r5_no_rebuild_without_change, "no rebuild without a change"),
    ("C20.R6", "P1", r6_emitted_checks_skip_class_level_tests, "emitted value checks do not repeat class-level tests"),
    ("C20.R1", "P1", r1_hot_paths_subscript, "hot paths subscript the table"),
    ("C20.R2", "P1", r2_success_is_reread, "success is a re-read"),
    ("C20.R4", "P1", r4_only_cache_classes_write_cache, "only the cache classes write cache entries"),
    ("C20.R3", "P1", r3_no_hit_interception, "cache classes do not intercept hits"),
]
