"""C19 - concurrent calls behave like sequential calls (structural clauses only)."""

import ast

from .. import anchors as A
from ..cfg import all_stmts
from ..effects import DICT, func_writes, stmt_writes
from ..model import AnalysisError, call_name, dotted, is_self_attr, short
from .c05 import lookup_path
from .c18 import _publications, commit_last, publish_last
from .common import cfg_of, recv_name


def r1(ctx):
    publish_last(ctx)


def r2(ctx):
    commit_last(ctx)


def _with_ancestors(fnode, node):
    """With statements of fnode enclosing `node`."""
    out = []

    def rec(stmts, stack):
        for st in stmts:
            if st is node or any(n is node for n in ast.walk(st)):
                if isinstance(st, (ast.With, ast.AsyncWith)):
                    stack = stack + [st]
                if st is node:
                    out.extend(stack)
                    return True
                for fld in ("body", "orelse", "finalbody"):
                    if rec(getattr(st, fld, []) or [], stack):
                        return True
                for h in getattr(st, "handlers", []) or []:
                    if rec(h.body, stack):
                        return True
                out.extend(stack)
                return True
        return False

    rec(fnode.body, [])
    return out


def r3_builders_excluded_or_private(ctx):
    repo = ctx.repo
    oc = A.function_class(repo)
    build = A.build_method(repo)
    ctx.touch(build)
    # check-then-act sites: calls of the build method (self.compile() / ov.compile()) outside the build itself
    sites = []
    for f in repo.all_funcs():
        if f is build:
            continue
        for n in ast.walk(f.node):
            if isinstance(n, ast.Call) and isinstance(n.func, ast.Attribute) and n.func.attr == build.name:
                owner = f
                recv = dotted(n.func.value)
                if recv is None:
                    continue
                # only receivers that are the function object: self inside the class, or a closure variable of the trampoline
                if (f.cls is oc and recv == recv_name(f)) or (f.parent is not None and f.parent.module is oc.module and recv in f.parent.params):
                    sites.append((f, n))
    ctx.require(sites, "no call site of the lazy build found")
    locked_sites = 0
    for f, call in sites:
        ctx.touch(f)
        st = next((s for s in all_stmts(f.node) if not hasattr(s, "body") and any(x is call for x in ast.walk(s))), None)
        if st is not None and _with_ancestors(f.node, st):
            locked_sites += 1
    build_locked = any(isinstance(st, (ast.With, ast.AsyncWith)) for st in build.node.body) and all(
        isinstance(st, (ast.With, ast.AsyncWith, ast.Expr)) for st in build.node.body
    )
    # private build: no shared attribute written before the final publication
    pubs = _publications(build)
    cfg = cfg_of(ctx, build)
    rv = recv_name(build)
    flag_nodes = [cfg.node_of(s) for s in pubs["flag"]]
    early = []
    for st in all_stmts(build.node):
        if isinstance(st, (ast.FunctionDef, ast.ClassDef)):
            continue
        ws = [w for w in stmt_writes(st, rv) if w.attr in ("map", "dispatch")]
        dis = [t for t in (st.targets if isinstance(st, ast.Assign) else []) if isinstance(t, ast.Attribute) and is_self_attr(t.value, "dispatch", selfname=rv)]
        if (ws or dis) and st not in pubs["flag"]:
            r = cfg.reachable(cfg.node_of(st))
            # anything other than publications/flag still to run?
            later = [s for s in all_stmts(build.node) if cfg.node_of(s) in r and s not in pubs["flag"] and not (isinstance(s, ast.Assign) and s in pubs["table"] + pubs["entrypoint"]) and any(isinstance(x, ast.Call) for x in ast.walk(s))]
            if later:
                early.append(st)
    excluded = build_locked or locked_sites == len(sites)
    private = not early
    ctx.ob(
        f"{build.key}:{'synchronised-build' if excluded or private else 'unsynchronised-build'}",
        build.loc(),
        f"the lazy build is either mutually excluded at all {len(sites)} check-then-act sites or writes no shared attribute before its final publication",
        excluded or private,
        f"none of the {len(sites)} sites that test the built flag and then build holds a lock, and the build writes shared state early (`{short(early[0], 50)}`): two first callers both build, the second replaces the table the first is filling, and the survivor holds methods registered twice" if early else "",
    )


def r4_whole_value_stores(ctx):
    for cls in A.cache_classes(ctx.repo):
        lp = lookup_path(ctx, cls)
        derived = set()
        for m in lp:
            for w in func_writes(m.node, recv_name(m)):
                derived.add(w.attr)
        for m in lp:
            ctx.touch(m)
            rv = recv_name(m)
            for st in all_stmts(m.node):
                if isinstance(st, (ast.FunctionDef, ast.ClassDef)):
                    continue
                for w in stmt_writes(st, rv):
                    if w.attr not in derived:
                        continue
                    whole = w.kind == "elem" and isinstance(w.node, ast.Assign) and isinstance(w.node.targets[0], ast.Subscript) and not isinstance(w.node.targets[0].value, ast.Subscript)
                    tname = "the dict" if w.attr == DICT else w.attr
                    ctx.ob(
                        f"{m.key}:{tname}:{w.kind}{':' + w.method if w.method else ''}",
                        m.loc(st),
                        f"cache fill `{short(st, 50)}` stores a whole value under one key (no read-modify-write of a shared entry)",
                        whole,
                        f"`{short(st, 60)}` updates a shared cache entry in place: two threads resolving at the same time interleave their partial updates",
                    )


def _skeleton_r5_per_call_state_is_local(ctx):
    """Every name the generated entry point mutates during a call is created by the entry point itself in that call."""
    from ..skeleton import emissions

    gen = A.entry_generator(ctx.repo)
    ctx.touch(gen)
    ems = emissions(gen.node)
    mutated = {}
    created = {}
    for e in ems:
        sk = e.skeleton
        text = sk.text.strip()
        try:
            tree = ast.parse(text if not text.endswith(":") else text + " pass")
        except SyntaxError:
            continue
        for n in ast.walk(tree):
            if isinstance(n, ast.Assign):
                t = n.targets[0]
                if isinstance(t, ast.Subscript) and isinstance(t.value, ast.Name) and t.value.id.isupper():
                    mutated.setdefault(t.value.id, e)
                elif isinstance(t, ast.Name) and t.id.isupper() and isinstance(n.value, (ast.Dict, ast.List, ast.Set)) and not (getattr(n.value, "keys", None) or getattr(n.value, "elts", None)):
                    created.setdefault(t.id, e)
            elif isinstance(n, ast.Call) and isinstance(n.func, ast.Attribute) and n.func.attr in ("append", "add", "update", "clear", "extend", "pop") and isinstance(n.func.value, ast.Name) and n.func.value.id.isupper():
                mutated.setdefault(n.func.value.id, e)
    ctx.require(mutated, f"{gen.key}: the generated entry point no longer collects optional keywords in per-call containers (restructured)")
    for name, e in sorted(mutated.items()):
        ctx.ob(
            f"{gen.key}:per-call:{name}",
            gen.loc(e.node),
            f"the container `{name}` that the generated entry point fills during a call is created afresh by the entry point in every call (`{name} = <empty literal>` is emitted)",
            name in created,
            f"the generated entry point mutates `{name}` but never creates it: the container lives outside the call and is shared by concurrent (and re-entrant) calls, so one call is dispatched with another call's keyword arguments",
        )


def r6(ctx):
    from .c05 import r1_derived_tables_flushed

    r1_derived_tables_flushed(ctx)


def r5_per_call_state_is_local(ctx):
    from .c03 import _with_fallback

    _with_fallback(ctx, ("per-call-state",), _skeleton_r5_per_call_state_is_local)


def _more(name):
    def run(ctx):
        from . import more

        getattr(more, name)(ctx)

    run.__name__ = name
    return run


def r11_resolution_completes_whatever_is_cached(ctx):
    from . import resolveexec

    resolveexec.law_prefilled(ctx)


def r13_lookup_never_iterates_its_caches(ctx):
    """A table the lookup path fills (the dictionary itself, the filed errors, the applicable-code sets) is never
    iterated on the lookup path: another thread's cache miss inserts into it at any moment, and iterating a dictionary
    that changes size raises RuntimeError."""
    from .c18 import cache_stores

    repo = ctx.repo
    n = 0
    for cls in (A.typemap(repo), A.multimap(repo)):
        filled = {w.attr for (_, _, w, _) in cache_stores(ctx, cls)}
        if not filled:
            continue  # a table whose lookups store nothing has nothing another thread could grow
        for m in lookup_path(ctx, cls):
            rv = recv_name(m)
            ctx.touch(m)

            def is_table(e):
                if isinstance(e, ast.Name) and e.id == rv and DICT in filled:
                    return "the table itself"
                if is_self_attr(e, selfname=rv) and e.attr in filled:
                    return f"self.{e.attr}"
                return None

            bad = None
            for x in ast.walk(m.node):
                its = []
                if isinstance(x, (ast.For, ast.comprehension)):
                    its.append(x.iter)
                elif isinstance(x, ast.Call):
                    if isinstance(x.func, ast.Attribute) and x.func.attr in ("values", "items", "keys") and not x.args:
                        its.append(x.func.value)
                    elif call_name(x) in ("list", "tuple", "set", "sorted", "dict", "iter", "any", "all", "sum", "max", "min", "next", "frozenset", "enumerate", "zip", "map", "filter") and x.args:
                        its.extend(x.args)
                elif isinstance(x, ast.Starred):
                    its.append(x.value)
                for it in its:
                    if isinstance(it, ast.Call) and isinstance(it.func, ast.Attribute) and it.func.attr in ("values", "items", "keys"):
                        it = it.func.value
                    t = is_table(it)
                    if t and bad is None:
                        bad = (x, t)
            n += 1
            ctx.ob(
                f"{m.key}:never-iterates-its-caches",
                m.loc(bad[0]) if bad else m.loc(),
                f"{m.name}() never iterates over a table the lookup path fills ({', '.join(sorted('the table itself' if f == DICT else 'self.' + f for f in filled))})",
                bad is None,
                (f"`{short(bad[0], 50)}` iterates over {bad[1]} on the lookup path: while one thread walks it, another thread's first call for a new argument type inserts an entry and the walk dies with 'dictionary changed size during iteration' - an internal error surfacing from a perfectly valid call" if bad else ""),
            )
    if n < 3:
        raise AnalysisError("expected the lookup path of the multi-position table")



def _writes_function_globals(node):
    """statements under node that store into some function's `__globals__` (subscript store, update, setdefault)"""
    out = []
    for n in ast.walk(node):
        if isinstance(n, ast.Subscript) and isinstance(n.ctx, ast.Store) and isinstance(n.value, ast.Attribute) and n.value.attr == "__globals__":
            out.append(n)
        elif isinstance(n, ast.Call) and isinstance(n.func, ast.Attribute) and n.func.attr in ("update", "setdefault", "__setitem__") and isinstance(n.func.value, ast.Attribute) and n.func.value.attr == "__globals__":
            out.append(n)
    return out


def r18_nothing_is_planted_after_the_methods_went_live(ctx):
    """The entry point and the table are live while the build files the methods (known finding F06), so a method is
    callable from the moment it is filed: the globals its re-compiled code reads are planted before that - by the
    re-compiler, on the way to the table - and nothing the build runs after its filing loop writes into any
    function's globals."""
    from ..callgraph import get_callgraph
    from ..effects import stmt_calls

    repo = ctx.repo
    build = A.build_method(repo)
    multi = A.multimap(repo)
    cg = get_callgraph(ctx)
    ctx.touch(build)
    reg = [m for m in multi.methods.values() if m.name == "register"]
    body = build.node.body
    # the filing loop: the last top-level statement of the build from which the table's register() is reached
    fill_idx = None
    for i, st in enumerate(body):
        for sub in ast.walk(st):
            if isinstance(sub, ast.Call):
                clo = cg.closure(cg.resolve_call(build, sub))
                if any(r in clo for r in reg):
                    fill_idx = i
    ctx.require(fill_idx is not None, f"{build.key}: the statement that files the methods in the table was not found")
    # locals of the build that hold (collections of) function globals
    tainted = set()

    def is_tainted(e):
        return any((isinstance(x, ast.Attribute) and x.attr == "__globals__") or (isinstance(x, ast.Name) and x.id in tainted) for x in ast.walk(e))

    grew = True
    while grew:
        grew = False
        for n in ast.walk(build.node):
            new_names = set()
            if isinstance(n, ast.Assign) and is_tainted(n.value):
                for t in n.targets:
                    if isinstance(t, ast.Name):
                        new_names.add(t.id)
                    elif isinstance(t, ast.Subscript) and isinstance(t.value, ast.Name):
                        new_names.add(t.value.id)
            elif isinstance(n, ast.Call) and isinstance(n.func, ast.Attribute) and n.func.attr in ("append", "add", "setdefault", "update") and isinstance(n.func.value, ast.Name) and any(is_tainted(a) for a in n.args):
                new_names.add(n.func.value.id)
            elif isinstance(n, (ast.For, ast.comprehension)) and is_tainted(n.iter):
                new_names |= {x.id for x in ast.walk(n.target) if isinstance(x, ast.Name)}
            if new_names - tainted:
                tainted |= new_names
                grew = True

    def param_stores(f, pname):
        out = []
        for n in ast.walk(f.node):
            if isinstance(n, ast.Subscript) and isinstance(n.ctx, ast.Store) and isinstance(n.value, ast.Name) and n.value.id == pname:
                out.append(n)
            elif isinstance(n, ast.Call) and isinstance(n.func, ast.Attribute) and n.func.attr in ("update", "setdefault", "__setitem__") and isinstance(n.func.value, ast.Name) and n.func.value.id == pname:
                out.append(n)
        return out

    late = []
    for st in body[fill_idx + 1 :]:
        for w in _writes_function_globals(st):
            late.append((st, f"`{short(w, 50)}`"))
        for sub in ast.walk(st):
            if isinstance(sub, ast.Subscript) and isinstance(sub.ctx, ast.Store) and isinstance(sub.value, ast.Name) and sub.value.id in tainted and not any(sub in list(ast.walk(b_)) for b_ in body[: fill_idx + 1]):
                late.append((st, f"`{short(sub, 50)}` (a function's globals)"))
            if isinstance(sub, ast.Call):
                targets = cg.resolve_call(build, sub)
                for f in cg.closure(targets):
                    ws = _writes_function_globals(f.node)
                    if ws:
                        late.append((st, f"`{short(sub, 40)}` reaches `{short(ws[0], 50)}` in {f.name}()"))
                # a function's globals handed over as an argument and written through the parameter
                for f in targets:
                    fparams = [a.arg for a in f.node.args.posonlyargs + f.node.args.args]
                    if f.cls is not None and fparams:
                        fparams = fparams[1:] if not isinstance(sub.func, ast.Name) else fparams
                    for i, a in enumerate(sub.args):
                        if i < len(fparams) and is_tainted(a):
                            ws = param_stores(f, fparams[i])
                            if ws:
                                late.append((st, f"`{short(sub, 40)}` hands a function's globals to {f.name}(), which stores `{short(ws[0], 40)}`"))
                    for k in sub.keywords:
                        if k.arg and is_tainted(k.value):
                            ws = param_stores(f, k.arg)
                            if ws:
                                late.append((st, f"`{short(sub, 40)}` hands a function's globals to {f.name}(), which stores `{short(ws[0], 40)}`"))
    ctx.ob(
        f"{build.key}:globals-planted-before-filing",
        build.loc(late[0][0]) if late else build.loc(body[fill_idx]),
        "nothing the build runs after filing the methods writes into a function's globals (what a re-compiled method reads is in place before the method can be reached)",
        not late,
        (f"{late[0][1]} runs after the methods were filed in the live table: a concurrent call that reaches a re-compiled method before that finds its per-function globals missing (NameError), although each call alone succeeds" if late else ""),
    )


RULES = [
    ("C19.R19", "P1", lambda ctx: r18_nothing_is_planted_after_the_methods_went_live(ctx), "globals of re-compiled methods are planted before the methods are filed in the live table"),
    ("C19.R17", "P1", lambda ctx: r17_lookup_path_rebinds_nothing(ctx), "the lookup path assigns no attribute of the table (intermediate results stay local)"),
    ("C19.R16", "P1", lambda ctx: r16_generator_gets_no_table_state(ctx), "the dependent generator is handed no long-lived mutable object of the table"),
    ("C19.R13", "P1", r13_lookup_never_iterates_its_caches, "the lookup path never iterates over a table it fills"),
    ("C19.R6", "P1", r6, "bookkeeping read by concurrent lookups is written before the entry that makes them possible"),
    ("C19.R5", "P1", r5_per_call_state_is_local, "the generated entry point keeps its per-call state in locals"),
    ("C19.R1", "P1", r1, "publish last (interleaving reading)"),
    ("C19.R2", "P1", r2, "commit last (interleaving reading)"),
    ("C19.R3", "P1", r3_builders_excluded_or_private, "builders are excluded or private"),
    ("C19.R4", "P1", r4_whole_value_stores, "cache fills are whole-value stores"),
    ("C19.R7", "P1", _more("value_checks_are_pure"), "per-call value checks write nothing to shared type objects"),
    ("C19.R8", "P1", _more("call_paths_keep_no_state"), "per-call methods of the function object keep no state"),
]


def r16_generator_gets_no_table_state(ctx):
    """Every generated value-dependent dispatcher is built from values of this one resolution: the wrapper hands the
    generator nothing that lives on the table across resolutions (a name database, a namespace dictionary, a list) -
    two threads resolving different type tuples at once would write into it together."""
    from .c10 import _wrap_site

    repo = ctx.repo
    res, call, w = _wrap_site(ctx)
    gen = A.dependent_generator(repo)
    ctx.touch(w, gen)
    rv = recv_name(w)
    multi = A.multimap(repo)
    init = multi.methods.get("__init__")
    made_in_init = {}
    if init is not None:
        irv = recv_name(init)
        for st in ast.walk(init.node):
            if isinstance(st, ast.Assign):
                for t in st.targets:
                    if is_self_attr(t, selfname=irv):
                        made_in_init[t.attr] = st.value
    wcalls = [c for c in ast.walk(w.node) if isinstance(c, ast.Call) and call_name(c) == gen.name]
    if len(wcalls) != 1:
        raise AnalysisError(f"{w.key}: expected one call of the dependent generator")
    bad = None
    n = 0
    for a in list(wcalls[0].args) + [k.value for k in wcalls[0].keywords]:
        n += 1
        e = a
        if isinstance(e, ast.Name):
            defs = [s.value for s in ast.walk(w.node) if isinstance(s, ast.Assign) and any(isinstance(t, ast.Name) and t.id == e.id for t in s.targets)]
            if len(defs) == 1:
                e = defs[0]
        if is_self_attr(e, selfname=rv):
            v = made_in_init.get(e.attr)
            mutable = isinstance(v, (ast.Dict, ast.List, ast.Set)) or (isinstance(v, ast.Call) and call_name(v) not in ("count", "itertools.count", "str", "int", "tuple", "frozenset"))
            if mutable and bad is None:
                bad = (a, e.attr, v)
    ctx.ob(
        f"{w.key}:generator-gets-no-table-state",
        w.loc(bad[0]) if bad else w.loc(),
        f"the wrapper hands the dependent generator only values of this resolution ({n} arguments), no long-lived mutable object of the table",
        bad is None,
        (f"`self.{bad[1]}` (created once per table as `{short(bad[2], 40)}`) is handed to the generator, which fills it while generating: two threads resolving different argument types at once write their handlers and checks into the same namespace, and a dispatcher is built with another call's handlers" if bad else ""),
    )


def r17_lookup_path_rebinds_nothing(ctx):
    """A resolution keeps what it is working on in local variables: no method on the lookup path of the tables assigns
    an attribute of the table (element stores into the caches are the only writes) - an attribute is shared by every
    resolution running at the same time."""
    repo = ctx.repo
    n = 0
    for cls in (A.typemap(repo), A.multimap(repo)):
        for m in lookup_path(ctx, cls):
            rv = recv_name(m)
            ctx.touch(m)
            n += 1
            rebinds = [w for w in func_writes(m.node, rv) if w.kind == "rebind"]
            ctx.ob(
                f"{m.key}:rebinds-nothing",
                m.loc(rebinds[0].stmt) if rebinds else m.loc(),
                f"{m.name}() (on the lookup path) assigns no attribute of the table",
                not rebinds,
                (f"`{short(rebinds[0].stmt, 50)}` parks an intermediate result of this resolution on the table: a second thread resolving other argument types overwrites it before it is read back, and the first thread files the other call's methods (and call_next links) under its own key - for good" if rebinds else ""),
            )
    if n < 4:
        raise AnalysisError("expected the lookup paths of both tables")
