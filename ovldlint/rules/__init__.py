"""Rule registry: property id -> list of (rule id, 'P1'|'P2', function, title)."""

import importlib

PROPS = [f"C{i:02d}" for i in range(1, 21)]


# Rules shared into further properties they are a necessary condition of (found by the seeded changes of round 3):
# property -> [(new rule id, module, function, title)]
SHARED = {
    "C16": [("C16.R10", "more", "rebuild_depends_on_the_built_flag_only", "the rebuild after a change depends on the built flag only"), ("C16.R7", "more", "recompiler_globals_are_unique", "globals planted for one function object carry its serial number")],
    "C03": [("C03.R9", "c10", "r3_strategy_laws", "the dependent dispatcher checks only what the call supplies and decides as prescribed")],
    "C01": [("C01.R11", "c04", "r1_store_key_is_lookup_key", "dispatchers / entries are filed under the key looked up"), ("C01.R10", "c10", "r3_strategy_laws", "a value-dependent method runs only when its own conditions hold"), ("C01.R8", "c03", "r3_early_exits", "early exits key and forward exactly what was supplied"), ("C01.R9", "c11", "r4_connective_is_quantifier", "emitted union checks are bracketed, connectives are quantifiers")],
    "C04": [("C04.R13", "more", "type_hooks_keep_no_state", "the type hooks of the package's own types store nothing on the type object"), ("C04.R12", "more", "value_check_memos_are_keyed_on_what_they_read", "memos in per-call value checks are keyed on everything they read"), ("C04.R11", "more", "resolution_functions_are_not_memoised", "resolution functions and key functions are not memoised process-wide"), ("C04.R9", "more", "tables_hold_rereadable_values", "tables never hold one-shot iterators"), ("C04.R10", "more", "per_position_lookup_ignores_cache", "a per-position lookup does not depend on cached entries of other classes"), ("C04.R8", "c19", "r4_whole_value_stores", "cache reads do not consume; fills store whole values")],
    "C06": [("C06.R9", "c01", "r2_arity_keyword_filter", "the applicability filter depends on arity and required keywords only"), ("C06.R6", "c07", "r3", "the continuation branch consults what resolving the bare key stored"), ("C06.R7", "c14", "r2", "one key function on every path"), ("C06.R8", "c05", "r2", "every change propagates to every dependent")],
    "C07": [("C07.R12", "more", "tables_hold_rereadable_values", "the applicable-code set can be read by every later call_next"), ("C07.R11", "c08", "r1_self_references_found", "recurse / call_next symbols are found in globals and closure cells")],
    "C09": [("C09.R12", "more", "recompiled_function_keeps_its_cells", "a re-compiled method keeps its free variables and cells, __class__ included (re-compiler executed abstractly)"), ("C09.R13", "more", "recompiled_function_keeps_the_rest", "a re-compiled method keeps globals, defaults, annotations and name; the names given to the rewriter are bound (re-compiler executed abstractly)"), ],
    "C08": [("C08.R10", "more", "recompiled_function_keeps_its_cells", "a re-compiled method keeps its free variables and cells, __class__ included (re-compiler executed abstractly)"), ("C08.R11", "more", "recompiled_function_keeps_the_rest", "a re-compiled method keeps globals, defaults, annotations and name; the names given to the rewriter are bound (re-compiler executed abstractly)"), ("C08.R7", "c08", "r7_recurse_call_shapes", "every recurse call shape is handled or left alone"), ("C08.R8", "c09", "r7_own_code_object", "the recompiled code object is the method's own")],
    "C10": [("C10.R12", "more", "inlined_constants_are_literals", "constants written into generated code are literals for the value (interpreted)"), ("C10.R10", "c11", "r4_connective_is_quantifier", "emitted union checks are bracketed, connectives are quantifiers"), ("C10.R11", "c12", "r7_every_pair_compared", "every pair of applicable types is compared"), ("C10.R8", "c05", "r1_derived_tables_flushed", "no dispatcher outlives the registration that made it"), ("C10.R9", "c04", "r1_store_key_is_lookup_key", "stores are filed under the key looked up")],
    "C11": [("C11.R12", "more", "serial_counters_are_never_reset", "serial-number counters are never reset"), ("C11.R13", "more", "value_check_memos_are_keyed_on_what_they_read", "memos in per-call value checks are keyed on everything they read"), ("C11.R11", "more", "inlined_constants_are_literals", "constants written into generated code are literals for the value (interpreted)"), ("C11.R10", "more", "literal_bound_covers_every_value", "a Literal's bound covers the types of all its values (interpreted)"), ("C11.R8", "c10", "r2", "a rank with any dependent member is wrapped; keyword entries count"), ("C11.R9", "more", "hash_reads_what_eq_compares", "equality of value types covers bound and values")],
    "C12": [("C12.R11", "more", "order_function_protocol", "the order function's hook protocol and generic-argument merge (interpreted)"), ("C12.R12", "more", "combinators_keep_their_members", "Union / Intersection keep their members as given"), ("C12.R10", "c15", "r4_commutative_combinators", "commutative combinators compare without order")],
    "C13": [("C13.R15", "more", "equality_tells_lookalikes_apart", "type equality tells look-alike constituents apart (interpreted)"), ("C13.R14", "more", "resolution_functions_are_not_memoised", "the subtype test is not memoised process-wide"), ("C13.R13", "more", "combinators_keep_their_members", "Union / Intersection keep their members as given"), ("C13.R11", "c14", "r1_subtler_chain", "the type-valued key function's branches"), ("C13.R12", "c14", "r7", "every parameter can be type-valued"), ("C13.R8", "c14", "r2", "one key function on every path"), ("C13.R9", "c14", "r4_positions", "key function chosen for the parameter's real position"), ("C13.R10", "c15", "r2_normaliser_front", "string annotations are evaluated first and then normalised")],
    "C14": [("C14.R11", "more", "resolution_functions_are_not_memoised", "resolution functions and key functions are not memoised process-wide"), ("C14.R10", "more", "build_state_read_after_ensuring_the_build", "build state is read after the build was ensured"), ("C14.R9", "c15", "r2_normaliser_front", "string annotations are evaluated first and then normalised")],
    "C15": [("C15.R11", "more", "equality_tells_lookalikes_apart", "type equality tells look-alike constituents apart (interpreted)"), ("C15.R9", "more", "literal_bound_covers_every_value", "a Literal's bound covers the types of all its values (interpreted)"), ("C15.R7", "more", "annotations_pass_the_normaliser", "every annotation read passes the normaliser"), ("C15.R8", "c12", "r4_tables", "decision tables of the Order-valued code (union order is member-order free)")],
    "C18": [("C18.R9", "c19", "r4_whole_value_stores", "cache fills are whole-value stores (no half-written entry survives a failure)"), ("C18.R10", "c05", "r3_rebuild_from_nothing", "every build starts from a new table"), ("C18.R8", "more", "rebuild_is_the_mutators_last_effect", "a mutator has made all its changes before it starts the rebuild"), ("C18.R7", "more", "removal_is_exhaustive", "unregistering removes every signature of the function")],
    "C17": [("C17.R13", "more", "serial_counters_are_never_reset", "serial-number counters are never reset"), ("C17.R12", "more", "recompiled_function_keeps_its_cells", "a re-compiled method keeps its free variables and cells, __class__ included (re-compiler executed abstractly)"), ("C17.R10", "more", "internal_conversions_are_fresh", "the package converts plain functions to fresh function objects"), ("C17.R9", "more", "recompiler_globals_are_unique", "globals planted for one function object carry its serial number"), ("C17.R8", "more", "entry_point_replaced_only_on_unnamed_or_fresh", "the entry point is replaced only on unnamed or fresh function objects")],
    "C19": [("C19.R14", "more", "serial_counters_are_never_reset", "serial-number counters are never reset"), ("C19.R12", "more", "type_hooks_keep_no_state", "the type hooks of the package's own types store nothing on the type object"), ("C19.R10", "more", "no_shared_mutable_defaults_written", "mutable default arguments are never written"), ("C19.R11", "c19", "r11_resolution_completes_whatever_is_cached", "a resolution installs its whole chain whatever is already cached"), ("C19.R9", "c07", "r3", "the continuation branch resolves the bare key first and consults what it stored")],
    "C05": [("C05.R6", "more", "rebuild_depends_on_the_built_flag_only", "the rebuild after a change depends on the built flag only"), ("C05.R5", "c18", "r4_flag_never_unset", "the built flag is not lowered while the generated entry point stays live")],
    "C20": [("C20.R12", "more", "only_changes_rebuild", "only changes of the method set rebuild the table"), ("C20.R11", "c05", "r2", "every change reaches every dependent (and only changes do)"), ("C20.R10", "c19", "r4_whole_value_stores", "the lookup path never discards or rewrites cached entries"), ("C20.R9", "c20", "r9_dependent_dispatcher_tests_values_only", "the dependent dispatcher does not re-test plain classes"), ("C20.R7", "c07", "r3", "the continuation branch reads the cached bare key"), ("C20.R8", "c07", "r5_next_keys_like_call_next", "next() keys like the entry point")],
}


def _shared(mod, fn):
    def run(ctx):
        m = importlib.import_module(f"ovldlint.rules.{mod}")
        getattr(m, fn)(ctx)

    run.__name__ = fn
    return run


def rules_for(prop):
    try:
        mod = importlib.import_module(f"ovldlint.rules.{prop.lower()}")
    except ModuleNotFoundError:
        return None
    rules = list(mod.RULES)
    have = {r[0] for r in rules}
    for rid, m, fn, title in SHARED.get(prop, []):
        if rid not in have:
            rules.append((rid, "P1", _shared(m, fn), title))
    return rules
