"""Rule registry: property id -> list of (rule id, 'P1'|'P2', function, title)."""

import importlib

PROPS = [f"C{i:02d}" for i in range(1, 21)]


def rules_for(prop):
    try:
        mod = importlib.import_module(f"ovldlint.rules.{prop.lower()}")
    except ModuleNotFoundError:
        return None
    return mod.RULES
