"""The table as its callers see it: lookups of a key - the bare type tuple, or a code object in front of it (what
call_next asks) - answered by the interpreted miss handler and the interpreted resolution together, over symbolic
ranked candidates.  Only the ranking, the dependent wrapper and the error factory are stubs.

The table is a dictionary whose `__missing__` runs the package's handler; a key that is present is returned without
any code of the package running - exactly Python's rule, and the reason why the *second* lookup of a key is a
different path from the first.

Laws (independent of how the table files things):
  * repeat = first: looking a key up again, whatever was looked up in between, gives what the first lookup gave -
    the same function, or an error of the same kind about the same methods;
  * reference: the bare key gives the function of the first rank (or its ambiguity error, or 'no method'); a code
    object of a method of rank i in front gives the function of rank i+1 (or its error, or 'no method' below the
    last); a code object that is no candidate gives what the bare key gives.
"""

import ast

from ..metainterp import HostFn, HostInterp, Raised, Record
from ..model import AnalysisError
from .common import recv_name
from .resolveexec import SCENARIOS, Code, Handler, Table


class ErrorStandIn(Exception):
    """what the error factory makes: a real exception object (so that `isinstance(x, Exception)` and `raise x` in the
    interpreted code mean what they mean), carrying the key and the group it is about"""

    kind = "error"

    def __init__(self, key, group, what=None):
        Exception.__init__(self, "stand-in")
        self.key, self.group, self.what = key, group, what


class LTable(Table):
    def __missing__(self, key):
        return self._on_miss(key)


def session(ctx, scenario):
    """-> (lookup(key) -> ('value', v) | ('raised', e), names) for a fresh table over the scenario's ranks"""
    from .. import anchors as A
    from .c10 import _wrap_site, resolution_entry

    repo = ctx.repo
    multi = A.multimap(repo)
    miss = multi.methods.get("__missing__")
    if miss is None:
        raise AnalysisError(f"{multi.key}: no __missing__")
    res = resolution_entry(ctx)
    tup = ("T1", "T2")
    handlers, ranks = {}, []
    for rank in scenario:
        group = []
        for name, dep, code in rank:
            h = Handler(name=name, dep=dep)
            if code:
                h.__code__ = Code(name=name)
            handlers[name] = h
            group.append(Record(handler=h, name=name))
        ranks.append(group)
    _, _, w = _wrap_site(ctx)
    cls = multi
    rankers = [m for m in cls.methods.values() if m is not res and any(isinstance(c, ast.Call) and ((isinstance(c.func, ast.Attribute) and c.func.attr == "sort") or (isinstance(c.func, ast.Name) and c.func.id == "sorted")) for c in ast.walk(m.node))]
    called = set()
    todo_, seen_ = [res], set()
    while todo_:
        cur_ = todo_.pop()
        if cur_.key in seen_:
            continue
        seen_.add(cur_.key)
        r_ = recv_name(cur_)
        for c in ast.walk(cur_.node):
            if isinstance(c, ast.Call) and isinstance(c.func, ast.Attribute) and isinstance(c.func.value, ast.Name) and c.func.value.id == r_:
                called.add(c.func.attr)
                if c.func.attr in cls.methods:
                    todo_.append(cls.methods[c.func.attr])
    rankers = [m for m in rankers if m.name in called]
    if len(rankers) != 1:
        raise AnalysisError(f"{cls.key}: candidate ranking method not found")
    ranker = rankers[0]
    # the attribute under which the ranking records the candidates' code objects per key
    rrv = recv_name(ranker)
    rparam = [p for p in ranker.params if p != rrv][0]
    keyed = {}
    for st in ast.walk(ranker.node):
        if isinstance(st, ast.Assign) and len(st.targets) == 1 and isinstance(st.targets[0], ast.Subscript):
            t = st.targets[0]
            if isinstance(t.value, ast.Attribute) and isinstance(t.value.value, ast.Name) and t.value.value.id == rrv and isinstance(t.slice, ast.Name) and t.slice.id == rparam:
                # the value mentions `__code__` itself, or is a local that some statement fills from `__code__`
                v = st.value
                direct = "__code__" in ast.dump(v)
                via = isinstance(v, ast.Name) and any("__code__" in ast.dump(s2) and any(isinstance(x, ast.Name) and x.id == v.id for x in ast.walk(s2)) for s2 in ast.walk(ranker.node) if isinstance(s2, ast.stmt) and not isinstance(s2, (ast.FunctionDef, ast.For, ast.While, ast.If, ast.With, ast.Try)))
                keyed[t.value.attr] = keyed.get(t.value.attr, False) or direct or via
    code_attrs = [a for a, c in keyed.items() if c] or (list(keyed) if len(keyed) == 1 else [])
    if len(code_attrs) != 1:
        raise AnalysisError(f"{ranker.key}: the record of the candidates' code objects was not found")
    n_rankings = []

    def rank_stub(key):
        n_rankings.append(key)
        getattr(me, code_attrs[0])[key] = {h.__code__ for h in handlers.values() if hasattr(h, "__code__")}
        return [list(g) for g in ranks]

    def wrap(*a, **k):
        wv = Record(kind="wrapper", args=a, kwargs=k)
        wv.__name__ = "wrapper"
        return wv

    def key_error(key, group=None, *rest):
        return ErrorStandIn(key, group)

    me = LTable(name="tbl")
    factories = set()
    for m in cls.methods.values():
        r = recv_name(m)
        for c in ast.walk(m.node):
            if isinstance(c, ast.Call) and isinstance(c.func, ast.Attribute) and isinstance(c.func.value, ast.Name) and c.func.value.id == r and len(c.args) == 2 and c.func.attr not in cls.methods:
                factories.add(c.func.attr)
    if not factories:
        raise AnalysisError(f"{cls.key}: error factory attribute not found")
    raw = repo.raw_methods(cls)
    methods = {n: m for n, m in raw.items() if n not in (ranker.name, w.name)}
    funcs = {n: f.node for n, f in miss.module.funcs.items() if f.parent is None and f.cls is None}
    genv = {"CodeType": Code, "MISSING": "<MISSING>"}
    # record-like classes of the module (NamedTuple / dataclass carriers a refactoring may introduce)
    import collections

    for c in miss.module.classes.values():
        fields = [st.target.id for st in c.node.body if isinstance(st, ast.AnnAssign) and isinstance(st.target, ast.Name)]
        is_record = any(b in ("NamedTuple", "typing.NamedTuple") for b in c.base_names) or any("dataclass" in (ast.unparse(d)) for d in c.node.decorator_list)
        if fields and is_record and not c.methods.get("__init__"):
            genv[c.name] = collections.namedtuple(c.name, fields)
    # the constructor's attributes (whatever tables this version keeps), then the stubs
    init = raw.get("__init__")
    if init is not None:
        ginit = dict(genv, count=lambda *a: Record(kind="counter"), KeyError=Record(kind="KeyError"))
        iparams = [a.arg for a in init.args.args][1:]
        try:
            HostInterp(methods, me, {}, globals_env=ginit, classes={}, functions=funcs).call_function(init, [me] + ["<arg>"] * len(iparams), {}, {})
        except (AnalysisError, Raised) as e:
            raise AnalysisError(f"{cls.key}: the constructor is not interpretable ({e})")
    me.dependent = {h: h.dep for h in handlers.values()}
    me.maps = {0: "<per-argument table>", 1: "<per-argument table>"}
    setattr(me, ranker.name, HostFn(rank_stub))
    setattr(me, w.name, HostFn(wrap))
    for f in factories:
        setattr(me, f, HostFn(key_error))
    hi = HostInterp(methods, me, {}, globals_env=genv, classes={}, functions=funcs)
    hi.host_types = hi.host_types + (LTable, Code, ErrorStandIn)
    depth = []

    def on_miss(key):
        if len(depth) > 8:
            raise AnalysisError(f"{miss.key}: the miss handler re-enters itself without end")
        depth.append(key)
        try:
            return hi.call_function(methods["__missing__"], [me, key], {}, {})
        finally:
            depth.pop()

    me._on_miss = on_miss

    def lookup(key):
        try:
            return ("value", me[key])
        except Raised as r:
            return ("raised", getattr(r, "value", None) or r.what)
        except (KeyError, IndexError, TypeError, AttributeError) as ex:
            return ("raised", ErrorStandIn(None, "internal", what=f"an internal {type(ex).__name__} ({ex})"))

    return lookup, tup, handlers, n_rankings


def _sym(v):
    if isinstance(v, Handler):
        return v.name
    if isinstance(v, Record) and getattr(v, "kind", "") == "wrapper":
        hs = [a for a in v.args if isinstance(a, list) and a and all(isinstance(x, Handler) for x in a)]
        return ("wrap", tuple(h.name for h in hs[0])) if hs else ("wrap", "?")
    if isinstance(v, ErrorStandIn):
        g = v.group
        if g == "internal":
            return ("internal-error", v.what)
        return ("err", tuple(c.name for c in g)) if isinstance(g, list) else ("err", "no-method" if g == () else "?")
    return ("?", repr(v)[:60])


def _outcome(o):
    return (o[0], _sym(o[1]))


def _say(o):
    kind, v = o
    if kind == "value":
        return f"returns {v!r}" + (" (an error object handed out as if it were the method)" if isinstance(v, tuple) and v and v[0] in ("err", "internal-error") else "")
    return f"raises {v!r}"


def reference(scenario, which):
    """which: 'bare' | handler name | '<stranger>' -> expected outcome"""

    def fn_of(rank):
        names = tuple(n for n, _, _ in rank)
        if any(d for _, d, _ in rank):
            return ("value", ("wrap", names))
        if len(rank) == 1:
            return ("value", names[0])
        return ("raised", ("err", names))

    if not scenario:
        return ("raised", ("err", "no-method"))
    if which in ("bare", "<stranger>") or fn_of(scenario[0])[0] == "raised":
        # (a continuation lookup resolves the bare key first: when that is ambiguous, so is every lookup)
        return fn_of(scenario[0])
    # the chain of ranks that is reachable: it ends at a tie and below a rank without code objects
    for i, rank in enumerate(scenario):
        reachable_next = fn_of(rank)[0] == "value" and any(c for _, _, c in rank)
        if which in [n for n, _, c in rank if c]:
            if not reachable_next or i + 1 >= len(scenario):
                return ("raised", ("err", "no-method"))
            return fn_of(scenario[i + 1])
        if not reachable_next:
            break
    return ("raised", ("err", "no-method"))


def check(ctx):
    """-> dict law -> problems, number of lookups interpreted"""
    problems = {"repeat-is-first": [], "reference": []}
    n = 0
    for name, scenario in SCENARIOS.items():
        names = [h for rank in scenario for h, _, c in rank if c]
        orders = [["bare"] + names + ["<stranger>"], names[::-1] + ["<stranger>", "bare"]]
        for order in orders:
            lookup, tup, handlers, rankings = session(ctx, scenario)
            stranger = Code(name="<a code object that is no candidate>")

            def key_of(which):
                if which == "bare":
                    return tup
                if which == "<stranger>":
                    return (stranger, *tup)
                return (handlers[which].__code__, *tup)

            first = {}
            for which in order:
                first[which] = _outcome(lookup(key_of(which)))
                n += 1
            for which in order:
                again = _outcome(lookup(key_of(which)))
                n += 1
                if again != first[which] and len(problems["repeat-is-first"]) < 4:
                    problems["repeat-is-first"].append(f"[{name}] the lookup of {'the bare key' if which == 'bare' else 'the key with the code of ' + which + ' in front'} {_say(first[which])} the first time and {_say(again)} when repeated")
            for which in order:
                want = reference(scenario, which)
                # below a tie or a rank without code nothing is reachable: any 'no method' outcome is right
                if first[which] != want and len(problems["reference"]) < 4:
                    problems["reference"].append(f"[{name}] the first lookup of {'the bare key' if which == 'bare' else 'the key with the code of ' + which + ' in front'} {_say(first[which])}; the ranks {[[h for h, _, _ in r] for r in scenario]} require that it {_say(want)}")
    return problems, n


LAW_TEXT = {
    "repeat-is-first": ("looking a key up again gives what its first lookup gave - the same function, or the same error - whatever order the keys were first asked in", "a repeated call does not behave like the first one: the table hands out on a hit something else than what the miss handler answered"),
    "reference": ("the bare key gives the first rank's function (or its ambiguity error); the code object of a method in front gives the function of the rank below it (or that rank's error, or 'no method' below the last); a code object that is no candidate gives what the bare key gives", "a lookup does not select what the ranking prescribes"),
}


def law(ctx, *names):
    from .. import anchors as A

    multi = A.multimap(ctx.repo)
    miss = multi.methods["__missing__"]
    ctx.touch(miss)
    if "lookup_laws" not in ctx.cache:
        ctx.cache["lookup_laws"] = check(ctx)
    problems, n = ctx.cache["lookup_laws"]
    for name in names:
        text, why = LAW_TEXT[name]
        ps = problems[name]
        ctx.ob(
            f"{miss.key}:lookup:{name}",
            miss.loc(),
            f"{text} (miss handler and resolution interpreted together on {len(SCENARIOS)} rankings, {n} lookups)",
            not ps,
            "; ".join(ps[:2]) + ": " + why,
        )
