"""C18 - a failed build never leaves a half-built function in service (also the constructs of C19.R1/R2)."""

import ast

from .. import anchors as A
from ..callgraph import get_callgraph
from ..cfg import all_stmts
from ..effects import DICT, stmt_calls, stmt_writes
from ..model import AnalysisError, call_name, dotted, func_body_nodes, is_self_attr, parent_map, short
from .c05 import lookup_path
from .common import cfg_of, recv_name

ENTRY_ATTRS = ("__code__", "__defaults__", "__kwdefaults__")


def _publications(build):
    rv = recv_name(build)
    pubs = {"table": [], "entrypoint": [], "flag": []}
    for st in all_stmts(build.node):
        if not isinstance(st, (ast.Assign, ast.AugAssign, ast.AnnAssign)):
            continue
        tgts = st.targets if isinstance(st, ast.Assign) else [st.target]
        # parallel assignment `old, self._compiled = self._compiled, True` raises the flag as well
        if isinstance(st, ast.Assign) and len(tgts) == 1 and isinstance(tgts[0], ast.Tuple) and isinstance(st.value, ast.Tuple) and len(tgts[0].elts) == len(st.value.elts):
            for t, v in zip(tgts[0].elts, st.value.elts):
                if is_self_attr(t, "_compiled", selfname=rv) and isinstance(v, ast.Constant) and v.value is True:
                    pubs["flag"].append(st)
        for t in tgts:
            if is_self_attr(t, "map", selfname=rv):
                pubs["table"].append(st)
            elif is_self_attr(t, "_compiled", selfname=rv) and isinstance(st.value, ast.Constant) and st.value.value is True:
                pubs["flag"].append(st)
            elif (
                isinstance(t, ast.Attribute)
                and t.attr in ENTRY_ATTRS
                and is_self_attr(t.value, "dispatch", selfname=rv)
            ):
                pubs["entrypoint"].append(st)
    return pubs


def _phase_of(ctx, build, st):
    """Phases of the build a statement belongs to, if it can fail: analysis / generation / fill / other."""
    cg = get_callgraph(ctx)
    repo = ctx.repo
    gen = A.entry_generator(repo)
    multi = A.multimap(repo)
    an = A.argument_analyzer(repo)
    reg = [m for m in multi.methods.values() if m.name == "register"]
    phases = set()
    for c in stmt_calls(st):
        reasons = cg.fallible_reasons(c, build)
        if not reasons:
            continue
        targets = cg.resolve_call(build, c)
        clo = cg.closure(targets)
        if gen in clo:
            phases.add("generation")
        elif any(r in clo for r in reg):
            phases.add("fill")
        elif any(m.cls is an for m in clo):
            phases.add("analysis")
        else:
            phases.add("other")
    return phases


def publish_last(ctx):
    build = A.build_method(ctx.repo)
    ctx.touch(build)
    cfg = cfg_of(ctx, build)
    pubs = _publications(build)
    ctx.require(pubs["table"], "the build never assigns the table attribute")
    ctx.require(pubs["entrypoint"], "the build never swaps the entry point's code/defaults")
    ctx.require(pubs["flag"], "the build never sets the built flag")
    fallible = {}
    for st in all_stmts(build.node):
        if isinstance(st, (ast.FunctionDef, ast.ClassDef)):
            continue
        ph = _phase_of(ctx, build, st)
        if ph:
            fallible[st] = ph
    ctx.require(fallible, "no fallible step found in the build (the fallibility analysis lost its footing)")
    ctx.touch(*[f for f in get_callgraph(ctx).closure([build])][:40])
    what = {
        "table": "the table the live entry point and rewritten methods dereference",
        "entrypoint": "the live entry point's code/defaults",
        "flag": "the built flag",
    }
    for cat, stmts in pubs.items():
        ahead = set()
        ahead_st = []
        for p in stmts:
            r = cfg.reachable(cfg.node_of(p))
            for st, ph in fallible.items():
                if cfg.node_of(st) in r and st is not p:
                    ahead |= ph
                    if st not in ahead_st:
                        ahead_st.append(st)
        order = [x for x in ("analysis", "generation", "fill", "other") if x in ahead]
        # the key names the phases still ahead: moving a publication across a phase is another construct
        suffix = "last" if not ahead else "before-" + "+".join(order)
        ctx.ob(
            f"{build.key}:{cat}-{suffix}",
            build.loc(stmts[0]),
            f"no fallible build step is reachable after publishing {what[cat]} (`{short(stmts[0], 50)}`)",
            not ahead,
            f"`{short(stmts[0], 50)}` makes the new build visible while {', '.join('`' + short(s, 45) + '` (' + build.loc(s).split(':')[-1] + ')' for s in ahead_st[:3])} can still fail (phases still ahead: {', '.join(order)}): a failure there leaves a partially filled table in service",
        )


def key_shapes(fnode, expr, params, depth=0):
    """Shapes a cache key expression may take: 'param' (the bare looked-up key), 'prefixed' ((x, *param)),
    'tail' (param[1:]) or 'other'."""
    if depth > 6:
        return {"other"}
    if isinstance(expr, ast.Name):
        if expr.id in params:
            return {"param"}
        out = set()
        for n in ast.walk(fnode):
            if isinstance(n, ast.Assign) and any(isinstance(t, ast.Name) and t.id == expr.id for t in n.targets):
                out |= key_shapes(fnode, n.value, params, depth + 1)
            elif isinstance(n, (ast.For, ast.comprehension)) and isinstance(n.target, ast.Name) and n.target.id == expr.id:
                out |= elem_shapes(fnode, n.iter, params, depth + 1)
        return out or {"other"}
    if isinstance(expr, ast.Tuple):
        if len(expr.elts) == 2 and isinstance(expr.elts[1], ast.Starred) and key_shapes(fnode, expr.elts[1].value, params, depth + 1) == {"param"} and not isinstance(expr.elts[0], ast.Starred):
            return {"prefixed"}
        return {"other"}
    if isinstance(expr, ast.Subscript) and isinstance(expr.slice, ast.Slice):
        s = expr.slice
        if key_shapes(fnode, expr.value, params, depth + 1) == {"param"} and s.upper is None and s.step is None and isinstance(s.lower, ast.Constant) and s.lower.value == 1:
            return {"tail"}
        return {"other"}
    if isinstance(expr, ast.IfExp):
        return key_shapes(fnode, expr.body, params, depth + 1) | key_shapes(fnode, expr.orelse, params, depth + 1)
    return {"other"}


def elem_shapes(fnode, it, params, depth):
    if isinstance(it, (ast.List, ast.Tuple, ast.Set)):
        out = set()
        for e in it.elts:
            out |= key_shapes(fnode, e, params, depth + 1)
        return out or {"other"}
    if isinstance(it, (ast.ListComp, ast.GeneratorExp, ast.SetComp)):
        return key_shapes(fnode, it.elt, params, depth + 1)
    if isinstance(it, ast.IfExp):
        return elem_shapes(fnode, it.body, params, depth + 1) | elem_shapes(fnode, it.orelse, params, depth + 1)
    if isinstance(it, ast.Name):
        out = set()
        for n in ast.walk(fnode):
            if isinstance(n, ast.Assign) and any(isinstance(t, ast.Name) and t.id == it.id for t in n.targets):
                out |= elem_shapes(fnode, n.value, params, depth + 1)
        return out or {"other"}
    return {"other"}


def cache_stores(ctx, cls, tables=None):
    """(method, stmt, Write, key expr) for element stores into the dict / derived attribute tables on the lookup path."""
    out = []
    for m in lookup_path(ctx, cls):
        rv = recv_name(m)
        for st in all_stmts(m.node):
            if isinstance(st, (ast.FunctionDef, ast.ClassDef)):
                continue
            for w in stmt_writes(st, rv):
                if w.kind != "elem" or not isinstance(w.node, ast.Assign):
                    continue
                if tables is not None and w.attr not in tables:
                    continue
                for t in w.node.targets:
                    base = t
                    while isinstance(base, ast.Subscript) and isinstance(base.value, ast.Subscript):
                        base = base.value
                    if isinstance(t, ast.Subscript) and ((w.attr == DICT and isinstance(t.value, ast.Name)) or (isinstance(t.value, ast.Attribute) and t.value.attr == w.attr)):
                        out.append((m, st, w, t.slice))
                        break
    return out


def commit_last(ctx):
    multi = A.multimap(ctx.repo)
    stores = cache_stores(ctx, multi, tables=(DICT, "errors"))
    ctx.require(stores, "no cache store on the lookup path of the multi-position table")
    bare = []
    for m, st, w, key in stores:
        rv = recv_name(m)
        params = [p for p in m.params if p != rv][:1]
        if w.attr == DICT and "param" in key_shapes(m.node, key, params):
            bare.append((m, st, w))
    ctx.require(bare, "no store of the bare looked-up key found")
    for m, st, w in bare:
        ctx.touch(m)
        cfg = cfg_of(ctx, m)
        r = cfg.reachable(cfg.node_of(st))
        later = [s for (mm, s, ww, k) in stores if mm is m and cfg.node_of(s) in r]
        ctx.ob(
            f"{m.key}:bare-key-{'last' if not later else 'first'}",
            m.loc(st),
            f"the store of the bare key (`{short(st, 40)}`), which makes the resolution visible as done, is the last cache write of the resolution",
            not later,
            f"after the bare key is stored, `{short(later[0], 50)}` ({m.loc(later[0]).split(':')[-1]}) still has to run: an interrupt in between leaves a resolution whose continuations are missing, and call_next answers 'No method' from then on" if later else "",
        )


def stores_after_generation(ctx):
    """No cache entry of a resolution is written while the wrappers of its ranks are still to be generated: generating
    them runs user code (a dependent type's code generation, key and repr hooks) that may throw."""
    from .c10 import _wrap_site

    res, call, w = _wrap_site(ctx)
    multi = A.multimap(ctx.repo)
    ctx.touch(res)
    stores = [(m, st, ww, k) for (m, st, ww, k) in cache_stores(ctx, multi, tables=(DICT, "errors")) if m is res]
    ctx.require(stores, f"{res.key}: no cache store")
    cfg = cfg_of(ctx, res)
    rv = recv_name(res)
    gen = [st for st in all_stmts(res.node) if any(is_self_attr(c.func, w.name, selfname=rv) for c in stmt_calls(st))]
    ctx.require(gen, f"{res.key}: wrapper generation not found")
    early = None
    for m, st, ww, k in stores:
        r = cfg.reachable(cfg.node_of(st))
        ahead = [g for g in gen if cfg.node_of(g) in r]
        if ahead and early is None:
            early = (st, ahead[0])
    ctx.ob(
        f"{res.key}:stores-after-generation",
        res.loc(early[0]) if early else res.loc(),
        f"every cache write of the resolution ({len(stores)}) comes after the last wrapper was generated",
        early is None,
        (f"`{short(early[0], 50)}` is written while `{short(early[1], 40)}` is still to run: if a user-defined type's code generation throws there, the entry stays cached without its continuations - later calls run the method and its call_next answers 'No method' although a next method exists, also after the hook is repaired" if early else ""),
    )


def mutators_convert_before_they_change(ctx):
    """In a method that changes the method set, everything that can reject the argument (converting a plain function,
    extracting a signature) has run before the first change: nothing fallible of the package lies between a write to
    the method table / mixin list and the rebuild that follows it."""
    from .common import method_table_writers

    oc = A.function_class(ctx.repo)
    try:
        upd = A.update_method(ctx.repo)
    except AnalysisError:
        ctx.note("no update method: reported by the rule on mutators / linkback")
        ctx.ob("core:update-method-present", "src/ovld/core.py:1", "the update method exists (its absence is reported by the rule on linkback)", True)
        return
    cg = get_callgraph(ctx)
    seen = set()
    n = 0
    for m, w, st in method_table_writers(ctx):
        if m.key in seen or m is upd:
            continue
        seen.add(m.key)
        rv = recv_name(m)
        writes = [s for (mm, ww, s) in method_table_writers(ctx) if mm is m]
        cfg = cfg_of(ctx, m)
        try:
            wnodes = [cfg.node_of(s) for s in writes]
        except KeyError:
            continue  # the writes sit in a nested helper: nothing of the method follows them but the rebuild
        n += 1
        ctx.touch(m)
        after = set()
        for wn in wnodes:
            after |= set(cfg.reachable(wn))
        bad = None
        for s in all_stmts(m.node):
            if isinstance(s, (ast.FunctionDef, ast.ClassDef)):
                continue
            try:
                sn = cfg.node_of(s)
            except KeyError:
                continue
            if sn not in after:
                continue
            for c in stmt_calls(s):
                if is_self_attr(c.func, upd.name, selfname=rv):
                    continue
                why = cg.fallible_reasons(c, m)
                if why and bad is None:
                    bad = (s, c, why[0])
        ctx.ob(
            f"{m.key}:converts-before-it-changes",
            m.loc(bad[0]) if bad else m.loc(),
            f"in {m.name}() nothing of the package that can reject the argument runs after the first change of the method table / mixin list",
            bad is None,
            (f"`{short(bad[1], 40)}` ({bad[2]}) can still fail after `{short(writes[0], 40)}` changed the method set: the failure skips the rebuild, so a function already in use keeps its old table while its method set says otherwise - the stray change silently comes into service at the next unrelated registration" if bad else ""),
        )
    ctx.require(n >= 2, "expected the mutators of the function class")


def r3_rewriter_globals_last(ctx):
    rc = A.recompiler(ctx.repo)
    ctx.touch(rc)
    cg = get_callgraph(ctx)
    cfg = cfg_of(ctx, rc)
    stores = [
        st
        for st in all_stmts(rc.node)
        if isinstance(st, ast.Assign)
        and isinstance(st.targets[0], ast.Subscript)
        and isinstance(st.targets[0].value, ast.Attribute)
        and st.targets[0].value.attr == "__globals__"
    ]
    ctx.require(stores, "the re-compiler stores nothing into the method's globals")
    fallible = [
        st
        for st in all_stmts(rc.node)
        if not isinstance(st, (ast.FunctionDef, ast.ClassDef)) and any(cg.fallible_reasons(c, rc) for c in stmt_calls(st))
    ]
    ctx.require(fallible, "no fallible step in the re-compiler")
    for st in stores:
        r = cfg.reachable(cfg.node_of(st))
        ahead = [f for f in fallible if cfg.node_of(f) in r]
        ctx.ob(
            f"{rc.key}:globals-{short(st.targets[0].slice, 30)}",
            rc.loc(st),
            f"`{short(st, 60)}` touches the method's shared globals only after the last fallible step",
            not ahead,
            f"`{short(ahead[0], 50)}` can still fail after the shared globals were rebound" if ahead else "",
        )


def r4_flag_never_unset(ctx):
    """The built flag says 'the generated entry point is live'.  Nothing can take the entry point back, so outside
    the constructor the flag may only be lowered together with re-installing the first-call trampoline."""
    oc = A.function_class(ctx.repo)
    n = 0
    for m in oc.methods.values():
        rv = recv_name(m)
        for st in all_stmts(m.node):
            if isinstance(st, ast.Assign) and any(is_self_attr(t, "_compiled", selfname=rv) for t in st.targets):
                n += 1
                ctx.touch(m)
                v = st.value
                lowered = not (isinstance(v, ast.Constant) and v.value is True)
                if m.name == "__init__" or not lowered:
                    ctx.ob(f"{m.key}:flag={short(v, 12)}", m.loc(st), f"`{short(st, 40)}`: the built flag is lowered only in the constructor", True)
                    continue
                cfg = cfg_of(ctx, m)
                reinstalls = [cfg.node_of(s) for s in all_stmts(m.node) if isinstance(s, ast.Assign) and any(is_self_attr(t, "dispatch", selfname=rv) for t in s.targets)]
                # ... on every path that follows the lowering (a conditional re-installation does not count)
                resets = bool(reinstalls) and cfg.must_reach(cfg.node_of(st), reinstalls)
                ctx.ob(
                    f"{m.key}:flag-lowered",
                    m.loc(st),
                    "the built flag is lowered only together with re-installing the first-call trampoline",
                    resets,
                    f"`{short(st, 40)}` in {m.name}() marks the function as not built while the generated entry point stays live: if the following build fails, later register/unregister calls skip the rebuild (`if self._compiled`) and every call is answered from the half-built table for good",
                )
    ctx.require(n >= 2, "the built flag is no longer assigned in the constructor and the build")


BROAD = ("Exception", "BaseException")


def r5_no_swallowed_exceptions(ctx):
    """Resolution code may catch the specific exceptions it expects; a broad handler that does not re-raise turns a
    failing user hook into a cached wrong answer."""
    repo = ctx.repo
    funcs = []
    for cls in A.cache_classes(repo):
        funcs += lookup_path(ctx, cls)
    funcs += [f for f in repo.mod("mro").funcs.values()]
    funcs += [f for f in repo.mod("types").funcs.values() if f.name.startswith("__") or f.name in ("Exactly", "StrictSubclass", "HasMethod")]
    funcs += [f for f in repo.mod("dependent").funcs.values() if f.name in ("__type_order__", "__is_supertype__", "__instancecheck__", "check", "is_dependent")]
    n = 0
    for f in funcs:
        for h in [x for x in func_body_nodes(f.node) if isinstance(x, ast.ExceptHandler)]:
            n += 1
            ctx.touch(f)
            names = []
            if h.type is None:
                names = ["<bare>"]
            else:
                for t in (h.type.elts if isinstance(h.type, ast.Tuple) else [h.type]):
                    names.append(dotted(t) or "?")
            broad = any(x in BROAD or x == "<bare>" for x in names)
            reraises = any(isinstance(x, ast.Raise) for b in h.body for x in ast.walk(b))
            ctx.ob(
                f"{f.key}:except:{'+'.join(names)}",
                f.loc(h),
                f"`except {', '.join(names)}` in resolution code catches only the specific exception it expects (or re-raises)",
                not broad or reraises,
                f"`except {', '.join(names)}` swallows whatever a user type hook or condition raises during resolution: the failure is turned into 'not applicable', and that answer is cached and served to every later call",
            )
    ctx.require(n >= 3, "expected the KeyError / TypeError handlers of the resolution code")


def r1(ctx):
    publish_last(ctx)


def r2(ctx):
    commit_last(ctx)
    stores_after_generation(ctx)


def _more(name):
    def run(ctx):
        from . import more

        getattr(more, name)(ctx)

    run.__name__ = name
    return run



def r11_build_leaves_the_guard_flag_as_found(ctx):
    """The build does not leave the function refusing modification when it fails: a store to the flag the
    modification guard tests, made by the build on its own receiver, is undone in a `finally` (or is itself in one).
    Otherwise a build that fails between the store and its undoing leaves the flag raised, and the offending method
    can never be unregistered."""
    repo = ctx.repo
    build = A.build_method(repo)
    guard = A.guard_method(repo)
    flags = {n.attr for n in ast.walk(guard.node) if is_self_attr(n, selfname=recv_name(guard))}
    ctx.require(flags, f"{guard.key}: the guard tests no attribute")
    ctx.touch(build, guard)
    rv = recv_name(build)
    pm = parent_map(build.node)
    stores = []
    for st in all_stmts(build.node):
        if isinstance(st, (ast.Assign, ast.AugAssign, ast.AnnAssign)):
            targets = st.targets if isinstance(st, ast.Assign) else [st.target]
            for t in targets:
                for x in ast.walk(t):
                    if is_self_attr(x, selfname=rv) and x.attr in flags and isinstance(x.ctx, ast.Store):
                        stores.append((st, x.attr))

    def in_finally(st):
        cur = st
        while cur in pm:
            p = pm[cur]
            if isinstance(p, ast.Try) and any(cur is s_ for s_ in p.finalbody):
                return True
            cur = p
        return False

    def undone_after(st, attr):
        """a later statement of the same block is a try whose finally stores the flag again"""
        p = pm.get(st)
        for fld in ("body", "orelse", "finalbody"):
            blk = getattr(p, fld, None)
            if isinstance(blk, list) and any(st is s_ for s_ in blk):
                after = blk[[i for i, s_ in enumerate(blk) if s_ is st][0] + 1 :]
                if not after:
                    return True  # nothing runs between the store and the end of the block
                nxt = after[0]
                return isinstance(nxt, ast.Try) and any(is_self_attr(x, attr, selfname=rv) and isinstance(x.ctx, ast.Store) for f_ in nxt.finalbody for x in ast.walk(f_))
        return False

    bad = [(st, a) for st, a in stores if not in_finally(st) and not undone_after(st, a)]
    ctx.ob(
        f"{build.key}:guard-flag-as-found",
        build.loc(bad[0][0]) if bad else build.loc(),
        f"the build leaves the flag the modification guard tests ({', '.join(sorted(flags))}) as it found it on every exit: it does not store it on its own receiver, or undoes the store in a `finally`",
        not bad,
        (f"`{short(bad[0][0], 60)}` raises the flag for the duration of the build with nothing to lower it when the build fails: after a failed build {guard.name}() refuses every change, so the offending method can never be removed and the function never works again" if bad else ""),
    )


RULES = [
    ("C18.R17", "P1", r11_build_leaves_the_guard_flag_as_found, "a failed build does not leave the function refusing modification"),
    ("C18.R1", "P1", r1, "publish last"),
    ("C18.R2", "P1", r2, "commit last"),
    ("C18.R4", "P1", r4_flag_never_unset, "the built flag is never lowered while the entry point is live"),
    ("C18.R5", "P1", r5_no_swallowed_exceptions, "resolution code swallows no unexpected exception"),
    ("C18.R13", "P1", mutators_convert_before_they_change, "mutators reject the argument before they change anything"),
    ("C18.R3", "P1", r3_rewriter_globals_last, "rewriter touches shared globals last"),
    ("C18.R6", "P1", _more("own_rebuild_before_dependents"), "own rebuild before dependents"),
]
