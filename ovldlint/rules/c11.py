"""C11 - Literal and the built-in value types match exactly their documented values."""

import ast
import re

from .. import anchors as A
from ..cfg import all_stmts
from ..model import AnalysisError, call_name, dotted, is_self_attr, short, src, str_value
from ..norm import atoms
from .common import recv_name

VALUE_METHODS = ("check", "codegen", "get_keys", "default_bound")


def param_types(ctx):
    """Classes deriving the parametrised dependent base (the class defining `parameters` / `parameter`)."""
    repo = ctx.repo
    dm = A.dependent_meta(repo)
    bases = [c for c in repo.subclasses_of(dm) if "parameter" in c.methods and "__init__" in c.methods]
    ctx.require(len(bases) == 1, f"expected one parametrised dependent base class, found {[b.key for b in bases]}")
    base = bases[0]
    return base, [c for c in repo.subclasses_of(base)]


def _footprint(m, in_default_bound=False, ctx=None):
    """('all'|'first'|None, guarded) over the value parameters used by method m."""
    rv = recv_name(m)
    uses_all = uses_first = False
    first_nodes = []
    star = m.node.args.vararg.arg if m.node.args.vararg else None
    for n in ast.walk(m.node):
        if is_self_attr(n, "parameter", selfname=rv):
            uses_first = True
            first_nodes.append(n)
        elif isinstance(n, ast.Subscript) and (is_self_attr(n.value, "parameters", selfname=rv) or (star and dotted(n.value) == star)) and isinstance(n.slice, ast.Constant) and n.slice.value == 0:
            uses_first = True
            first_nodes.append(n)
    for n in ast.walk(m.node):
        if is_self_attr(n, "parameters", selfname=rv) or (star and isinstance(n, ast.Name) and n.id == star and isinstance(n.ctx, ast.Load)):
            # not the base of a [0] subscript and not the argument of len()
            uses_all = True
    # discount parameters occurrences that are only `parameters[0]` or `len(parameters)`
    alls = 0
    for n in ast.walk(m.node):
        if is_self_attr(n, "parameters", selfname=rv) or (star and isinstance(n, ast.Name) and n.id == star and isinstance(n.ctx, ast.Load)):
            alls += 1
    discounted = 0
    for n in ast.walk(m.node):
        if isinstance(n, ast.Subscript) and isinstance(n.slice, ast.Constant) and n.slice.value == 0 and (is_self_attr(n.value, "parameters", selfname=rv) or (star and dotted(n.value) == star)):
            discounted += 1
        if isinstance(n, ast.Call) and call_name(n) == "len" and n.args and (is_self_attr(n.args[0], "parameters", selfname=rv) or (star and dotted(n.args[0]) == star)):
            discounted += 1
    uses_all = alls - discounted > 0
    # guarded: every first-only access happens only where `len(parameters) == 1` holds
    guarded = True
    if first_nodes:
        from ..norm import atoms as _atoms

        def len1(a):
            return a[0] == "cmp" and a[1] == "Eq" and "len(" in src(a[2]) + src(a[3]) and "1" in (src(a[2]), src(a[3]))

        for fnode in first_nodes:
            g = False
            if ctx is not None:
                from .common import holds_at

                g = holds_at(ctx, m, fnode, len1)
            else:
                for st in ast.walk(m.node):
                    if isinstance(st, ast.If) and any(x is fnode for b in st.body for x in ast.walk(b)):
                        g = g or any(len1(a) for a in _atoms(st.test))
            guarded = guarded and g
    return uses_all, uses_first, guarded


def r1_sibling_footprints(ctx):
    base, subs = param_types(ctx)
    n = 0
    for c in subs:
        ms = {name: c.methods[name] for name in VALUE_METHODS if name in c.methods}
        if len(ms) < 2:
            continue
        fps = {name: _footprint(m, ctx=ctx) for name, m in ms.items()}
        any_all = any(a for a, f, g in fps.values())
        for name, (a, f, g) in fps.items():
            m = ms[name]
            if not a and not f:
                continue
            ctx.touch(m)
            n += 1
            ok = not (any_all and f and not g)
            kind = "all" if a and not f else "first-only" if f and not a else "all+first(guarded)" if g else "mixed"
            ctx.ob(
                f"{m.key}:{'first-only' if not ok else 'footprint'}",
                m.loc(),
                f"{c.name}.{name} consults the same value parameters as its siblings ({', '.join(sorted(ms))}) [{kind}]",
                ok,
                f"{c.name}.{name} looks at the first parameter only while a sibling ({', '.join(k for k, v in fps.items() if v[0])}) uses all of them: for a multi-valued {c.name} the two disagree about the value set",
            )
    ctx.require(n >= 3, "expected the value-set methods of the literal type and the product type")


def _subst_template(tpl, subs, argname):
    """Template string -> expression AST with {arg} -> argname, {hole} -> substitution expression source."""
    def rep(m):
        k = m.group(1)
        if k == "arg":
            return argname
        if k in subs:
            return "(" + subs[k] + ")"
        raise AnalysisError(f"template hole {{{k}}} has no substitution")

    text = re.sub(r"\{(\w+)\}", rep, tpl)
    try:
        return ast.parse(text, mode="eval").body
    except SyntaxError:
        raise AnalysisError(f"check template does not parse: {text!r}")


def _norm_eq(e, recv):
    """x == self.parameter  ->  x in self.parameters   (valid under len(parameters) == 1);  strip bool() and parens"""
    class T(ast.NodeTransformer):
        def visit_Compare(self, n):
            self.generic_visit(n)
            if len(n.ops) == 1 and isinstance(n.ops[0], ast.Eq):
                for a, b in ((n.left, n.comparators[0]), (n.comparators[0], n.left)):
                    if is_self_attr(b, "parameter", selfname=recv):
                        return ast.Compare(left=a, ops=[ast.In()], comparators=[ast.Attribute(value=ast.Name(id=recv, ctx=ast.Load()), attr="parameters", ctx=ast.Load())])
            return n

    e = T().visit(e)
    return ast.dump(e, annotate_fields=False, include_attributes=False)


def r2_template_equals_check(ctx):
    base, subs = param_types(ctx)
    n = 0
    # classes turned into parametrised dependent types by the `dependent_check` decorator count as well
    deco = [c for c in ctx.repo.all_classes() if any((dotted(d) or call_name(d) or "").endswith("dependent_check") for d in c.node.decorator_list)]
    for c in list(subs) + [d for d in deco if d not in subs]:
        if "codegen" not in c.methods or "check" not in c.methods:
            continue
        cg = c.methods["codegen"]
        ck = c.methods["check"]
        rv = recv_name(ck)
        arg = [p for p in ck.params if p != rv][0]
        rets = [r for r in ast.walk(ck.node) if isinstance(r, ast.Return) and r.value is not None]
        if len(rets) != 1:
            continue
        # product-like codegens (loops / comprehensions over the parameters) are R3's business
        if _product_like(c):
            continue
        want = _norm_eq(rets[0].value, rv)
        ctors = [x for x in ast.walk(cg.node) if isinstance(x, ast.Call) and call_name(x) == "CodeGen"]
        for ctor in ctors:
            tpl = str_value(ctor.args[0]) if ctor.args else None
            if tpl is None:
                raise AnalysisError(f"{cg.loc(ctor)}: non-literal check template")
            s = {}
            pairs = [(k.arg, k.value) for k in ctor.keywords]
            if len(ctor.args) >= 2:
                d = ctor.args[1]
                if isinstance(d, ast.Dict) and all(isinstance(k, ast.Constant) for k in d.keys):
                    pairs += [(k.value, v) for k, v in zip(d.keys, d.values)]
                elif isinstance(d, ast.Call) and call_name(d) == "dict" and not d.args:
                    pairs += [(k.arg, k.value) for k in d.keywords]
                else:
                    raise AnalysisError(f"{cg.loc(ctor)}: substitutions of the check template are not a literal mapping")
            for name, value in pairs:
                s[name] = src(value).replace(recv_name(cg) + ".", rv + ".")
            got = _norm_eq(_subst_template(tpl, s, arg), rv)
            ctx.touch(cg, ck)
            n += 1
            ctx.ob(
                f"{cg.key}:template:{tpl[:30]}",
                cg.loc(ctor),
                f"the emitted check `{tpl}` says the same as {c.name}.check (`{short(rets[0].value, 40)}`) under {{arg}} = {arg}",
                got == want,
                f"the generated check `{tpl}` is a different predicate from `{short(rets[0].value, 50)}`: which code path the generator picks changes the answer",
            )
    ctx.require(n >= 2, "expected template checks for the literal type and the regexp type")


def _product_like(c):
    cg = c.methods.get("codegen")
    return cg is not None and any(isinstance(x, (ast.For, ast.While, ast.ListComp, ast.GeneratorExp, ast.DictComp)) for x in ast.walk(cg.node))


def r3_product_types(ctx):
    """Product types (tuple[...]): the emitted check and `check` are both interpreted on every tuple of length 2..4
    over tagged values and compared with: same length, and every element an instance of its position's type - where
    the middle position's type is once a plain class and once a value-dependent type (a bound plus a value test, whose
    own emitted code tests the value only, as the real ones do).  `CodeGen`, `combine` and `generate_checking_code` are
    the package's own source, interpreted."""
    import itertools

    from ..metainterp import HostFn, HostInterp, Instance, Raised, Record

    base, subs = param_types(ctx)
    prods = [c for c in subs if _product_like(c) and "check" in c.methods]
    ctx.require(prods, "no product-like type (codegen built by a loop over the parameters)")
    repo = ctx.repo

    class V:
        """a value: its class tag and its payload"""

        def __init__(self, cls, val=None):
            self.cls, self.val = cls, val

        def __repr__(self):
            return f"{self.cls}({self.val})" if self.val is not None else self.cls

        # values of different classes can be equal (1 == 1.0 == True): equal payloads are equal values
        def __eq__(self, o):
            if isinstance(o, V):
                return (self.cls, self.val) == (o.cls, o.val)
            return self.val is not None and self.val == o

        def __hash__(self):
            return hash((self.cls, self.val))

    class Dep:
        """a value-dependent element type: instances are the `bound` values whose payload equals `p`"""

        bound, p = "int", 0
        keyable_type, exclusive_type, bound_is_name = True, False, False

        def __repr__(self):
            return "Literal[0]"

    # an element that *is* a Literal of the package (an object of its Equals class): instances are the ints equal to 0
    lits = [k for k in repo.all_classes() if k.name == "Equals"]
    LIT = Instance(lits[0].name if lits else "Equals", {})
    LIT.__dict__.update(parameters=(0,), __args__=(0,), bound="int", keyable_type=True, exclusive_type=False, bound_is_name=False)
    for c in prods:
        cg = c.methods["codegen"]
        ck = c.methods["check"]
        ctx.touch(cg, ck)
        cgcls = [k for k in repo.all_classes() if k.name == "CodeGen"]
        if len(cgcls) != 1:
            raise AnalysisError("the code-generation carrier class was not found")
        cgm = repo.raw_methods(cgcls[0])
        funcs = {n: g.node for n, g in cg.module.funcs.items() if g.parent is None and g.cls is None and not g.node.decorator_list}
        for label, params, pool in (
            ("plain classes", ("T0", "T1", "T2"), [V("T0"), V("T1"), V("T2"), V("X")]),
            ("a value-dependent type in the middle", ("T0", Dep(), "T2"), [V("T0"), V("int", 0), V("float", 0), V("int", 1), V("T2")]),
            ("a Literal in the middle", ("T0", LIT, "T2"), [V("T0"), V("int", 0), V("float", 0), V("bool", 0), V("int", 1), V("T2")]),
        ):
            def inst(v, t):
                if t is tuple or t == "tuple":
                    return isinstance(v, tuple)
                if isinstance(v, Instance):
                    # a test on an element *type* (is it a Literal of the package?), not on a value
                    ts = t if isinstance(t, tuple) and t and isinstance(t[0], tuple) else (t,)
                    return any(isinstance(x, tuple) and len(x) == 2 and x[0] == "class" and x[1] in (v._cls_name, "ParametrizedDependentType", "DependentType") for x in ts)
                if not isinstance(v, V):
                    return False
                if isinstance(t, Dep):
                    return v.cls == t.bound and v.val == t.p
                if t is LIT:
                    return v.cls == "int" and v.val in (0,)
                return v.cls is not None and isinstance(t, str) and v.cls == t

            values = [v for k in (2, 3, 4) for v in itertools.product(pool, repeat=k) if k == 3 or all(inst(a, b) for a, b in zip(v, params))]
            want = {v: len(v) == len(params) and all(inst(a, b) for a, b in zip(v, params)) for v in values}
            genv = {"isinstance": inst}
            me = Record(parameters=params, __args__=params, bound="tuple")
            hi = HostInterp({}, me, {}, globals_env=genv, classes={"CodeGen": cgm}, functions=funcs)
            hi.host_types = hi.host_types + (V, Dep)

            def dep_codegen(hi=hi):
                o = Instance("CodeGen", cgm)
                hi.call_function(cgm["__init__"], [o, "({arg}.val == {p})"], {"p": Dep.p}, {})
                return o

            def lit_codegen(hi=hi):
                o = Instance("CodeGen", cgm)
                hi.call_function(cgm["__init__"], [o, "({arg}.val in {ps})"], {"ps": (0,)}, {})
                return o

            for t in params:
                if isinstance(t, Dep):
                    t.codegen = HostFn(dep_codegen)
                if t is LIT:
                    t.__dict__["codegen"] = HostFn(lit_codegen)
            problems_cg = None
            problems_ck = None
            try:
                res = hi.call_function(cg.node, [me], {}, {})
                tpl, subs_ = getattr(res, "template", None), getattr(res, "substitutions", None)
                if not isinstance(tpl, str) or not isinstance(subs_, dict):
                    raise AnalysisError(f"{cg.key}: codegen did not build a CodeGen from a template")
                try:
                    text = tpl.format(arg="ARG", **{k: f"SUB_{k}" for k in subs_})
                    expr = ast.parse(text, mode="eval").body
                except (KeyError, IndexError, SyntaxError, ValueError) as e:
                    problems_cg = f"the emitted template `{tpl}` cannot be instantiated: {e}"
                    expr = None
                if expr is not None:
                    for v in values:
                        env = {"ARG": v, **{f"SUB_{k}": val for k, val in subs_.items()}}
                        try:
                            hv = HostInterp({}, Record(), {}, globals_env={"isinstance": inst, "tuple": tuple}, classes={}, functions={})
                            hv.host_types = hv.host_types + (V, Dep)
                            got = bool(hv.ev(expr, env))
                        except (IndexError, AnalysisError) as e:
                            got = f"error {e}"
                        if got != want[v] and problems_cg is None:
                            problems_cg = f"for the value {v} against tuple[{', '.join(map(str, params))}] the emitted check `{text}` gives {got}, isinstance must give {want[v]}"
            except (AnalysisError, Raised) as e:
                raise AnalysisError(f"{cg.key}: not interpretable: {e}")
            ctx.ob(
                f"{cg.key}:emitted-check:{label}",
                cg.loc(),
                f"[{label}] the emitted check accepts exactly the tuples of the right length whose every element is an instance of its position's type ({len(values)} tuples interpreted)",
                problems_cg is None,
                (problems_cg or "") + ": the generated tuple check has no length test, skips a position, does not conjoin the element tests, or tests an element's value without its class",
            )
            for v in values:
                try:
                    hc = HostInterp({}, me, {}, globals_env={"isinstance": inst, "tuple": tuple}, classes={}, functions=funcs)
                    hc.host_types = hc.host_types + (V, Dep)
                    got = bool(hc.call_function(ck.node, [me, v], {}, {}))
                except (AnalysisError, Raised) as e:
                    raise AnalysisError(f"{ck.key}: not interpretable: {e}")
                if got != want[v] and problems_ck is None:
                    problems_ck = f"for the value {v} against tuple[{', '.join(map(str, params))}] `check` gives {got}, must give {want[v]}"
            ctx.ob(f"{ck.key}:length-and-elements:{label}", ck.loc(), f"[{label}] isinstance on the product type tests the length and every element against its own position's type (interpreted)", problems_ck is None, (problems_ck or "") + ": the product type's check no longer tests both the length and every element position")


def r4_connective_is_quantifier(ctx):
    """Union = or / any / any, Intersection = and / all / all - decided by interpreting the three methods on
    symbolic member lists of length 1..3 with every truth assignment of the member tests."""
    import itertools

    from ..orderdom import Interp

    repo = ctx.repo
    want = {"Union": ("or", any), "Intersection": ("and", all)}
    n = 0
    for c in repo.all_classes():
        if c.name not in want or "codegen" not in c.methods:
            continue
        conn, quant = want[c.name]
        qname = quant.__name__
        # (the emitted check is decided by value in r15_combinator_checks_by_value)
        # ---- the two membership tests
        for mname, fn in (("__instancecheck__", "isinstance"), ("__is_supertype__", "subclasscheck")):
            m = c.methods.get(mname)
            ctx.require(m is not None, f"{c.key} lost {mname}")
            ctx.touch(m)
            rv = recv_name(m)
            arg = [p for p in m.params if p != rv][0]
            bad = None
            cases = 0
            for k in (1, 2, 3):
                members = tuple(f"m{i}" for i in range(k))
                for truth in itertools.product((True, False), repeat=k):
                    table = dict(zip(members, truth))

                    def test(x, t, table=table):
                        if x != "X" or t not in table:
                            raise AnalysisError(f"{m.key}: {fn} called as ({x}, {t}) - expected ({arg}, member)")
                        return table[t]

                    got = Interp("Order", stubs={fn: test}).run(m.node, {rv: "SELF", arg: "X", f"{rv}.types": members, f"{rv}.__args__": members})
                    cases += 1
                    if bool(got) != quant(truth) and bad is None:
                        bad = (table, got)
            n += 1
            ctx.ob(
                f"{m.key}:quantifier",
                m.loc(),
                f"{c.name}.{mname} is `{qname}` of {fn}({arg}, member) over all members ({cases} cases interpreted)",
                bad is None,
                f"with member tests {bad[0] if bad else ''} {c.name}.{mname} answers {bad[1] if bad else ''}: a value/class matches the {c.name.lower()} although it matches {'no arm' if qname == 'any' else 'only some arms'} (or the reverse)",
            )
    ctx.require(n >= 4, "expected union and intersection, each with __instancecheck__ / __is_supertype__")


def r5(ctx):
    from .c15 import r3_generic_handlers_use_every_argument

    r3_generic_handlers_use_every_argument(ctx)


def r6(ctx):
    from .c10 import r4_table_laws

    r4_table_laws(ctx)


def r7(ctx):
    from .c10 import r2b_dependent_at_any_depth

    r2b_dependent_at_any_depth(ctx)


RULES = [
    ("C11.R16", "P1", lambda ctx: r16_shallow_checks_by_value(ctx), "the shallow element checks of sequences, collections and mappings decide by the first element, whatever it is (interpreted)"),
    ("C11.R15", "P1", lambda ctx: r15_combinator_checks_by_value(ctx), "the union's and the intersection's emitted checks accept exactly the instances, also with value-dependent members of different bounds (interpreted)"),
    ("C11.R14", "P1", lambda ctx: r14_combination_is_compositional(ctx), "combining emitted checks keeps every member's substitutions, at any nesting depth (interpreted)"),
    ("C11.R7", "P1", r7, "value-dependence is recognised at any nesting depth"),
    ("C11.R1", "P1", r1_sibling_footprints, "siblings consult the same parameters"),
    ("C11.R2", "P1", r2_template_equals_check, "template = check"),
    ("C11.R3", "P1", r3_product_types, "product types: length and per-index tests on both sides"),
    ("C11.R4", "P1", r4_connective_is_quantifier, "connective = quantifier"),
    ("C11.R5", "P1", r5, "generic handlers pass all normalised arguments"),
    ("C11.R6", "P1", r6, "table path needs disjoint keys"),
]


def r14_combination_is_compositional(ctx):
    """The combiner of emitted checks (`combine`), interpreted together with the carrier class on members that use the
    same placeholder names, flat and nested two levels deep: the combined check, instantiated, is the master template
    filled with the instantiated members - no member's substitution is overwritten by another's."""
    from ..metainterp import HostInterp, Instance, Raised, Record

    repo = ctx.repo
    cgcls = [k for k in repo.all_classes() if k.name == "CodeGen"]
    if len(cgcls) != 1:
        raise AnalysisError("the code-generation carrier class was not found")
    K = cgcls[0]
    comb = [f for f in K.module.funcs.values() if f.parent is None and f.cls is None and len(f.params) == 2 and any(isinstance(c, ast.Call) and isinstance(c.func, ast.Attribute) and c.func.attr == "format" and any(isinstance(a, ast.Starred) for a in c.args) for c in ast.walk(f.node))]
    if len(comb) != 1:
        raise AnalysisError("the combiner of emitted checks was not found")
    comb = comb[0]
    ctx.touch(comb, *K.methods.values())
    cgm = repo.raw_methods(K)
    funcs = {n: g.node for n, g in K.module.funcs.items() if g.parent is None and g.cls is None and not g.node.decorator_list}
    hi = HostInterp({}, Record(), {}, globals_env={}, classes={K.name: cgm}, functions=funcs)

    def leaf(template, **subs):
        o = Instance(K.name, cgm)
        hi.call_function(cgm["__init__"], [o, template], subs, {})
        return o

    def inst(cg):
        tpl, subs = getattr(cg, "template", None), getattr(cg, "substitutions", None)
        if not isinstance(tpl, str) or not isinstance(subs, dict):
            raise AnalysisError(f"{comb.key}: does not return a template with substitutions")
        try:
            return tpl.format(arg="ARG", **{k: repr(v) for k, v in subs.items()})
        except (KeyError, IndexError, ValueError) as e:
            return f"<cannot be instantiated: {type(e).__name__} {e}>"

    def combine(master, members):
        return hi.call_function(comb.node, [master, list(members)], {}, {})

    problems = []
    try:
        # flat: two members with the same placeholder names
        a, b = leaf("({arg}.x == {p})", p=1), leaf("({arg}.x == {p})", p=2)
        flat = combine("({} or {})", [a, b])
        if inst(flat) != "((ARG.x == 1) or (ARG.x == 2))":
            problems.append(f"two members using the same placeholder combine to `{inst(flat)}`")
        # nested: (a & b) | (c & d), every leaf with the same placeholder names
        i1 = combine("({} and {})", [leaf("({arg}.x == {p})", p=1), leaf("({arg}.y == {p})", p=2)])
        i2 = combine("({} and {})", [leaf("({arg}.x == {p})", p=3), leaf("({arg}.y == {p})", p=4)])
        nested = combine("({} or {})", [i1, i2])
        want = "(((ARG.x == 1) and (ARG.y == 2)) or ((ARG.x == 3) and (ARG.y == 4)))"
        if inst(nested) != want:
            problems.append(f"(a & b) | (c & d) combines to `{inst(nested)}` instead of `{want}`")
        # three levels, and a combination next to a leaf
        deep = combine("({} and {})", [nested, leaf("({arg}.z == {p})", p=5)])
        if inst(deep) != f"({want} and (ARG.z == 5))":
            problems.append(f"a combination next to a plain check combines to `{inst(deep)}`")
        # one combination used in two places keeps working
        twice = combine("({} or {})", [i1, i1])
        if inst(twice) != "(((ARG.x == 1) and (ARG.y == 2)) or ((ARG.x == 1) and (ARG.y == 2)))":
            problems.append(f"one member used twice combines to `{inst(twice)}`")
    except Raised as r:
        problems.append(f"combining raises {r.what}")
    ctx.ob(
        f"{comb.key}:compositional",
        comb.loc(),
        "combining emitted checks keeps every member's own substitutions: flat, nested two and three levels deep, with members that use the same placeholder names (carrier class and combiner interpreted)",
        not problems,
        "; ".join(problems[:2]) + ": in a nested & / | combination one member's check is evaluated with another member's parameters, so dispatch accepts or rejects values isinstance() decides otherwise",
    )


def r15_combinator_checks_by_value(ctx):
    """The emitted checks of the union and the intersection, decided on values: `codegen` is interpreted together with
    the carrier class, the combiner and the per-type check generator (all the package's source); members are plain
    classes and value-dependent types (a bound plus a value test whose own emitted code tests the value only, as the
    real ones do).  The emitted check is evaluated on every value whose class the combinator admits (the only values
    it is ever evaluated on) and must accept exactly the instances: of some member / of all members."""
    import itertools

    from ..metainterp import HostFn, HostInterp, Instance, Raised, Record

    repo = ctx.repo
    cgcls = [k for k in repo.all_classes() if k.name == "CodeGen"]
    if len(cgcls) != 1:
        raise AnalysisError("the code-generation carrier class was not found")
    K = cgcls[0]
    cgm = repo.raw_methods(K)

    class V:
        def __init__(self, cls, val=None):
            self.cls, self.val = cls, val

        def __repr__(self):
            return f"{self.cls}({self.val!r})"

    class Dep:
        # the flags every value-dependent type of the package carries (a Literal-like one: keyed by its values)
        keyable_type = True
        exclusive_type = False
        bound_is_name = False

        def __init__(self, bound, p):
            self.bound, self.p = bound, p
            self.parameters = self.__args__ = (p,)

        def __repr__(self):
            return f"Dependent[{self.bound}, == {self.p!r}]"

    SUPER = {"MyInt": "int"}  # the class tags' hierarchy

    def issub(c, t):
        while c is not None:
            if c == t:
                return True
            c = SUPER.get(c)
        return False

    def class_ok(v, t):
        if isinstance(t, Instance):  # a nested combination
            return want[t._cls_name](class_ok(v, m) for m in t.types)
        return issub(v.cls, t.bound if isinstance(t, Dep) else t)

    def inst(v, t):
        if t is Dep:
            return isinstance(v, Dep)  # "is this member a value-dependent type"
        if not isinstance(v, V):
            return False
        if isinstance(t, Instance):
            return want[t._cls_name](inst(v, m) for m in t.types)
        if isinstance(t, Dep):
            return issub(v.cls, t.bound) and v.val == t.p
        return issub(v.cls, t)

    raw = {c.name: repo.raw_methods(c) for c in repo.all_classes() if c.name in ("Union", "Intersection") and "codegen" in c.methods}

    def nested(kind, *members):
        o = Instance(kind, raw[kind])
        o.__dict__.update(types=tuple(members), __args__=tuple(members))
        return o

    want = {"Union": any, "Intersection": all}
    pool = [V("int", 0), V("int", 1), V("MyInt", 0), V("MyInt", 1), V("str", 0), V("str", "a"), V("A", None), V("float", 0)]
    member_sets = {
        "Union": [
            ("int", "str"),
            (Dep("int", 0), "str"),
            (Dep("int", 0), Dep("str", "a")),
            ("A", Dep("str", "a"), Dep("int", 1)),
            # alternatives that are themselves combinations: a class and a value condition each
            (nested("Intersection", "int", Dep("int", 0)), nested("Intersection", "str", Dep("str", "a"))),
            (nested("Intersection", Dep("int", 0), Dep("int", 0)), Dep("str", "a")),
            # a plain member narrower than the dependent member's bound
            (nested("Intersection", "MyInt", Dep("int", 0)), nested("Intersection", "int", Dep("int", 1))),
        ],
        "Intersection": [
            ("int", "int"),
            ("int", Dep("int", 0)),
            (Dep("int", 0), Dep("int", 0)),
            (nested("Union", Dep("int", 0), Dep("str", "a")), nested("Union", "int", "str")),
        ],
    }
    n = 0
    for c in repo.all_classes():
        if c.name not in want or "codegen" not in c.methods:
            continue
        quant = want[c.name]
        cg = c.methods["codegen"]
        ctx.touch(cg)
        funcs = {nm: g.node for nm, g in K.module.funcs.items() if g.parent is None and g.cls is None and not g.node.decorator_list}
        problem = None
        cases = 0
        for members in member_sets[c.name]:
            me = Record(types=members, __args__=members)
            hi = HostInterp({}, me, {}, globals_env={"isinstance": inst, A.dependent_meta(repo).name: Dep}, classes={K.name: cgm}, functions=funcs)
            hi.host_types = hi.host_types + (V, Dep)

            def dep_codegen(t, hi=hi):
                o = Instance(K.name, cgm)
                hi.call_function(cgm["__init__"], [o, "({arg}.val == {p})"], {"p": t.p}, {})
                return o

            def arm(ts):
                for t in ts:
                    if isinstance(t, Dep):
                        t.codegen = HostFn(lambda t=t: dep_codegen(t))
                    elif isinstance(t, Instance):
                        arm(t.types)

            arm(members)
            try:
                res = hi.call_function(cg.node, [me], {}, {})
            except (AnalysisError, Raised) as e:
                raise AnalysisError(f"{cg.key}: not interpretable: {e}")
            tpl, subs_ = getattr(res, "template", None), getattr(res, "substitutions", None)
            if not isinstance(tpl, str) or not isinstance(subs_, dict):
                raise AnalysisError(f"{cg.key}: codegen did not build a template with substitutions")
            try:
                text = tpl.format(arg="ARG", **{k: f"SUB_{k}" for k in subs_})
                expr = ast.parse(text, mode="eval").body
            except (KeyError, IndexError, SyntaxError, ValueError) as e:
                problem = problem or f"the emitted template `{tpl}` cannot be instantiated: {e}"
                continue
            for v in pool:
                admitted = quant(class_ok(v, t) for t in members)
                if not admitted:
                    continue
                cases += 1
                hv = HostInterp({}, Record(), {}, globals_env={"isinstance": inst}, classes={}, functions={})
                hv.host_types = hv.host_types + (V, Dep)
                try:
                    got = bool(hv.ev(expr, {"ARG": v, **{f"SUB_{k}": val for k, val in subs_.items()}}))
                except (AnalysisError, Raised) as e:
                    got = f"error ({e})"
                ref = quant(inst(v, t) for t in members)
                if got != ref and problem is None:
                    problem = f"for the value {v} against {c.name}[{', '.join(map(str, members))}] the emitted check `{text}` gives {got}, isinstance gives {ref}"
                # the check is embedded in `and`-conjunctions by its users (per-argument guards, intersections)
                try:
                    emb = bool(hv.ev(ast.parse(f"OTHER and {text}", mode="eval").body, {"OTHER": False, "ARG": v, **{f"SUB_{k}": val for k, val in subs_.items()}}))
                except (AnalysisError, Raised):
                    emb = False
                if emb and problem is None:
                    problem = f"joined as `<other check> and {text}` the emitted check holds for {v} although the other check is false (the disjunction is not bracketed)"
        n += 1
        ctx.ob(
            f"{cg.key}:by-value",
            cg.loc(),
            f"{c.name}'s emitted check accepts exactly the values that are instances of {'some member' if quant is any else 'every member'}, also when members are value-dependent types with different bounds ({cases} values of admitted classes interpreted)",
            problem is None,
            (problem or "") + ": a member's value condition is evaluated on (and may accept) a value that is not an instance of that member's bound - the method runs on an argument its annotation excludes, or the user's condition raises on a foreign value",
        )
    ctx.require(n >= 2, "expected the union and the intersection")


def r16_shallow_checks_by_value(ctx):
    """The shallow element checks behind list[T] / Sequence[T] / Collection[T] / Mapping[K, V], interpreted on real
    containers: an empty container matches, otherwise the first element (first key and its value) decides - whatever
    that element is, `None` included."""
    from ..metainterp import HostInterp, Raised, Record

    repo = ctx.repo
    checks = []
    for f in repo.all_funcs():
        if f.cls is not None or f.parent is not None:
            continue
        decorated = any(((dotted(d.func) if isinstance(d, ast.Call) else dotted(d)) or "").endswith("dependent_check") for d in f.node.decorator_list)
        if decorated and f.name.endswith("FastCheck") and len(f.params) in (2, 3):
            checks.append(f)
    ctx.require(len(checks) >= 3, "expected the shallow checks of sequences, collections and mappings")
    for f in checks:
        ctx.touch(f)
        funcs = {n: g.node for n, g in f.module.funcs.items() if g.parent is None and g.cls is None and not g.node.decorator_list}
        hi = HostInterp({}, Record(), {}, globals_env={}, classes={}, functions=funcs)
        if len(f.params) == 2:
            ordered = "Sequence" in f.name
            cases = [([], True), ([1], True), (["a"], False), ([None], False), ([None, 2], False), ([1, None], True), ((1, "a"), True), ((None,), False)]
            if not ordered:
                cases += [({1}, True), ({None}, False), (frozenset({"a"}), False), (frozenset(), True)]
            run = lambda v: hi.call_function(f.node, [v, int], {}, {})  # noqa: E731
            what = "int"
        else:
            cases = [({}, True), ({1: "a"}, True), ({None: "a"}, False), ({1: None}, False), ({1: 2}, False), ({None: None}, False), ({"k": "a"}, False)]
            run = lambda v: hi.call_function(f.node, [v, int, str], {}, {})  # noqa: E731
            what = "int -> str"
        bad = None
        for v, want in cases:
            try:
                got = run(v)
            except Raised as r:
                got = f"raises {r.what}"
            except (TypeError, KeyError, IndexError, AttributeError) as ex:
                raise AnalysisError(f"{f.key}: not interpretable on {v!r}: {type(ex).__name__}: {ex}")
            if (got if isinstance(got, str) else bool(got)) != want and bad is None:
                bad = (v, got, want)
        ctx.ob(
            f"{f.key}:shallow-by-value",
            f.loc(),
            f"`{f.name}` ({what}): an empty container matches, otherwise the first element decides, whatever it is ({len(cases)} containers interpreted)",
            bad is None,
            (f"for {bad[0]!r} the check answers {bad[1]!r}, the first element says {bad[2]}: dispatch (and isinstance) accept a container the annotation excludes - e.g. one whose first element is None" if bad else ""),
        )
