"""C11 - Literal and the built-in value types match exactly their documented values."""

import ast
import re

from .. import anchors as A
from ..cfg import all_stmts
from ..model import AnalysisError, call_name, dotted, is_self_attr, short, src, str_value
from ..norm import atoms
from .common import recv_name

VALUE_METHODS = ("check", "codegen", "get_keys", "default_bound")


def param_types(ctx):
    """Classes deriving the parametrised dependent base (the class defining `parameters` / `parameter`)."""
    repo = ctx.repo
    dm = A.dependent_meta(repo)
    bases = [c for c in repo.subclasses_of(dm) if "parameter" in c.methods and "__init__" in c.methods]
    ctx.require(len(bases) == 1, f"expected one parametrised dependent base class, found {[b.key for b in bases]}")
    base = bases[0]
    return base, [c for c in repo.subclasses_of(base)]


def _footprint(m, in_default_bound=False, ctx=None):
    """('all'|'first'|None, guarded) over the value parameters used by method m."""
    rv = recv_name(m)
    uses_all = uses_first = False
    first_nodes = []
    star = m.node.args.vararg.arg if m.node.args.vararg else None
    for n in ast.walk(m.node):
        if is_self_attr(n, "parameter", selfname=rv):
            uses_first = True
            first_nodes.append(n)
        elif isinstance(n, ast.Subscript) and (is_self_attr(n.value, "parameters", selfname=rv) or (star and dotted(n.value) == star)) and isinstance(n.slice, ast.Constant) and n.slice.value == 0:
            uses_first = True
            first_nodes.append(n)
    for n in ast.walk(m.node):
        if is_self_attr(n, "parameters", selfname=rv) or (star and isinstance(n, ast.Name) and n.id == star and isinstance(n.ctx, ast.Load)):
            # not the base of a [0] subscript and not the argument of len()
            uses_all = True
    # discount parameters occurrences that are only `parameters[0]` or `len(parameters)`
    alls = 0
    for n in ast.walk(m.node):
        if is_self_attr(n, "parameters", selfname=rv) or (star and isinstance(n, ast.Name) and n.id == star and isinstance(n.ctx, ast.Load)):
            alls += 1
    discounted = 0
    for n in ast.walk(m.node):
        if isinstance(n, ast.Subscript) and isinstance(n.slice, ast.Constant) and n.slice.value == 0 and (is_self_attr(n.value, "parameters", selfname=rv) or (star and dotted(n.value) == star)):
            discounted += 1
        if isinstance(n, ast.Call) and call_name(n) == "len" and n.args and (is_self_attr(n.args[0], "parameters", selfname=rv) or (star and dotted(n.args[0]) == star)):
            discounted += 1
    uses_all = alls - discounted > 0
    # guarded: every first-only access happens only where `len(parameters) == 1` holds
    guarded = True
    if first_nodes:
        from ..norm import atoms as _atoms

        def len1(a):
            return a[0] == "cmp" and a[1] == "Eq" and "len(" in src(a[2]) + src(a[3]) and "1" in (src(a[2]), src(a[3]))

        for fnode in first_nodes:
            g = False
            if ctx is not None:
                from .common import holds_at

                g = holds_at(ctx, m, fnode, len1)
            else:
                for st in ast.walk(m.node):
                    if isinstance(st, ast.If) and any(x is fnode for b in st.body for x in ast.walk(b)):
                        g = g or any(len1(a) for a in _atoms(st.test))
            guarded = guarded and g
    return uses_all, uses_first, guarded


def r1_sibling_footprints(ctx):
    base, subs = param_types(ctx)
    n = 0
    for c in subs:
        ms = {name: c.methods[name] for name in VALUE_METHODS if name in c.methods}
        if len(ms) < 2:
            continue
        fps = {name: _footprint(m, ctx=ctx) for name, m in ms.items()}
        any_all = any(a for a, f, g in fps.values())
        for name, (a, f, g) in fps.items():
            m = ms[name]
            if not a and not f:
                continue
            ctx.touch(m)
            n += 1
            ok = not (any_all and f and not g)
            kind = "all" if a and not f else "first-only" if f and not a else "all+first(guarded)" if g else "mixed"
            ctx.ob(
                f"{m.key}:{'first-only' if not ok else 'footprint'}",
                m.loc(),
                f"{c.name}.{name} consults the same value parameters as its siblings ({', '.join(sorted(ms))}) [{kind}]",
                ok,
                f"{c.name}.{name} looks at the first parameter only while a sibling ({', '.join(k for k, v in fps.items() if v[0])}) uses all of them: for a multi-valued {c.name} the two disagree about the value set",
            )
    ctx.require(n >= 3, "expected the value-set methods of the literal type and the product type")


def _subst_template(tpl, subs, argname):
    """Template string -> expression AST with {arg} -> argname, {hole} -> substitution expression source."""
    def rep(m):
        k = m.group(1)
        if k == "arg":
            return argname
        if k in subs:
            return "(" + subs[k] + ")"
        raise AnalysisError(f"template hole {{{k}}} has no substitution")

    text = re.sub(r"\{(\w+)\}", rep, tpl)
    try:
        return ast.parse(text, mode="eval").body
    except SyntaxError:
        raise AnalysisError(f"check template does not parse: {text!r}")


def _norm_eq(e, recv):
    """x == self.parameter  ->  x in self.parameters   (valid under len(parameters) == 1);  strip bool() and parens"""
    class T(ast.NodeTransformer):
        def visit_Compare(self, n):
            self.generic_visit(n)
            if len(n.ops) == 1 and isinstance(n.ops[0], ast.Eq):
                for a, b in ((n.left, n.comparators[0]), (n.comparators[0], n.left)):
                    if is_self_attr(b, "parameter", selfname=recv):
                        return ast.Compare(left=a, ops=[ast.In()], comparators=[ast.Attribute(value=ast.Name(id=recv, ctx=ast.Load()), attr="parameters", ctx=ast.Load())])
            return n

    e = T().visit(e)
    return ast.dump(e, annotate_fields=False, include_attributes=False)


def r2_template_equals_check(ctx):
    base, subs = param_types(ctx)
    n = 0
    # classes turned into parametrised dependent types by the `dependent_check` decorator count as well
    deco = [c for c in ctx.repo.all_classes() if any((dotted(d) or call_name(d) or "").endswith("dependent_check") for d in c.node.decorator_list)]
    for c in list(subs) + [d for d in deco if d not in subs]:
        if "codegen" not in c.methods or "check" not in c.methods:
            continue
        cg = c.methods["codegen"]
        ck = c.methods["check"]
        rv = recv_name(ck)
        arg = [p for p in ck.params if p != rv][0]
        rets = [r for r in ast.walk(ck.node) if isinstance(r, ast.Return) and r.value is not None]
        if len(rets) != 1:
            continue
        # product-like codegens (loops / comprehensions over the parameters) are R3's business
        if _product_like(c):
            continue
        want = _norm_eq(rets[0].value, rv)
        ctors = [x for x in ast.walk(cg.node) if isinstance(x, ast.Call) and call_name(x) == "CodeGen"]
        for ctor in ctors:
            tpl = str_value(ctor.args[0]) if ctor.args else None
            if tpl is None:
                raise AnalysisError(f"{cg.loc(ctor)}: non-literal check template")
            s = {}
            pairs = [(k.arg, k.value) for k in ctor.keywords]
            if len(ctor.args) >= 2:
                d = ctor.args[1]
                if isinstance(d, ast.Dict) and all(isinstance(k, ast.Constant) for k in d.keys):
                    pairs += [(k.value, v) for k, v in zip(d.keys, d.values)]
                elif isinstance(d, ast.Call) and call_name(d) == "dict" and not d.args:
                    pairs += [(k.arg, k.value) for k in d.keywords]
                else:
                    raise AnalysisError(f"{cg.loc(ctor)}: substitutions of the check template are not a literal mapping")
            for name, value in pairs:
                s[name] = src(value).replace(recv_name(cg) + ".", rv + ".")
            got = _norm_eq(_subst_template(tpl, s, arg), rv)
            ctx.touch(cg, ck)
            n += 1
            ctx.ob(
                f"{cg.key}:template:{tpl[:30]}",
                cg.loc(ctor),
                f"the emitted check `{tpl}` says the same as {c.name}.check (`{short(rets[0].value, 40)}`) under {{arg}} = {arg}",
                got == want,
                f"the generated check `{tpl}` is a different predicate from `{short(rets[0].value, 50)}`: which code path the generator picks changes the answer",
            )
    ctx.require(n >= 2, "expected template checks for the literal type and the regexp type")


def _product_like(c):
    cg = c.methods.get("codegen")
    return cg is not None and any(isinstance(x, (ast.For, ast.While, ast.ListComp, ast.GeneratorExp, ast.DictComp)) for x in ast.walk(cg.node))


def r3_product_types(ctx):
    """Product types (tuple[...]): the emitted check and `check` are both interpreted on every tuple of length 2..4
    over the element tags and compared with: same length, and every element an instance of its position's type."""
    import itertools

    from ..metainterp import HostInterp, Raised, Record

    base, subs = param_types(ctx)
    prods = [c for c in subs if _product_like(c) and "check" in c.methods]
    ctx.require(prods, "no product-like type (codegen built by a loop over the parameters)")
    for c in prods:
        cg = c.methods["codegen"]
        ck = c.methods["check"]
        ctx.touch(cg, ck)
        params = ("T0", "T1", "T2")
        tags = params + ("X",)
        values = [v for k in (2, 3, 4) for v in itertools.product(tags, repeat=k) if k < 4 or v[:3] == params]
        want = {v: len(v) == len(params) and all(a == b for a, b in zip(v, params)) for v in values}

        def CodeGen(template, substitutions=None, **kw):
            return Record(template=template, substitutions={**(substitutions or {}), **kw})

        inst = lambda v, t: isinstance(v, t) if isinstance(t, type) else v == t  # noqa: E731
        genv = {"CodeGen": CodeGen, "isinstance": inst}
        me = Record(parameters=params, __args__=params, bound="tuple")
        problems_cg = None
        problems_ck = None
        try:
            hi = HostInterp({}, me, {}, globals_env=genv, classes={}, functions={})
            res = hi.call_function(cg.node, [me], {}, {})
            if not (isinstance(res, Record) and isinstance(getattr(res, "template", None), str)):
                raise AnalysisError(f"{cg.key}: codegen did not build a CodeGen from a template")
            subs_ = res.substitutions
            try:
                text = res.template.format(arg="ARG", **{k: f"SUB_{k}" for k in subs_})
                expr = ast.parse(text, mode="eval").body
            except (KeyError, IndexError, SyntaxError, ValueError) as e:
                problems_cg = f"the emitted template `{res.template}` cannot be instantiated: {e}"
                expr = None
            if expr is not None:
                for v in values:
                    env = {"ARG": v, **{f"SUB_{k}": val for k, val in subs_.items()}}
                    try:
                        got = bool(HostInterp({}, Record(), {}, globals_env={"isinstance": inst}, classes={}, functions={}).ev(expr, env))
                    except (IndexError, AnalysisError) as e:
                        got = f"error {e}"
                    if got != want[v] and problems_cg is None:
                        problems_cg = f"for the value {v} against tuple[{', '.join(params)}] the emitted check `{text}` gives {got}, isinstance must give {want[v]}"
        except (AnalysisError, Raised) as e:
            raise AnalysisError(f"{cg.key}: not interpretable: {e}")
        ctx.ob(
            f"{cg.key}:emitted-check",
            cg.loc(),
            f"the emitted check accepts exactly the tuples of the right length whose every element is an instance of its position's type ({len(values)} tuples interpreted)",
            problems_cg is None,
            (problems_cg or "") + ": the generated tuple check has no length test, skips a position or does not conjoin the element tests",
        )
        rv2 = recv_name(ck)
        for v in values:
            try:
                got = bool(HostInterp({}, me, {}, globals_env={"isinstance": inst}, classes={}, functions={}).call_function(ck.node, [me, v], {}, {}))
            except (AnalysisError, Raised) as e:
                raise AnalysisError(f"{ck.key}: not interpretable: {e}")
            if got != want[v] and problems_ck is None:
                problems_ck = f"for the value {v} against tuple[{', '.join(params)}] `check` gives {got}, must give {want[v]}"
        ctx.ob(f"{ck.key}:length-and-elements", ck.loc(), "isinstance on the product type tests the length and every element against its own position's type (interpreted)", problems_ck is None, (problems_ck or "") + ": the product type's check no longer tests both the length and every element position")


def r4_connective_is_quantifier(ctx):
    """Union = or / any / any, Intersection = and / all / all - decided by interpreting the three methods on
    symbolic member lists of length 1..3 with every truth assignment of the member tests."""
    import itertools

    from ..orderdom import Interp

    repo = ctx.repo
    want = {"Union": ("or", any), "Intersection": ("and", all)}
    n = 0
    for c in repo.all_classes():
        if c.name not in want or "codegen" not in c.methods:
            continue
        conn, quant = want[c.name]
        qname = quant.__name__
        # ---- codegen: the template and the member checks it is combined with
        cg = c.methods["codegen"]
        ctx.touch(cg)
        rv = recv_name(cg)
        bad = None
        bracketed = True
        for k in (1, 2, 3):
            members = tuple(f"m{i}" for i in range(k))
            # which members are value-dependent must not matter: every member's check is part of the answer
            for deps in itertools.product((True, False), repeat=k):
                depset = {m for m, d in zip(members, deps) if d}
                stubs = {
                    "generate_checking_code": lambda t: "cg:" + t,
                    "combine": lambda tpl, lst: ("combine", tpl, tuple(lst)),
                    "isinstance": lambda x, cl: True,
                    "is_dependent": lambda t, depset=depset: t in depset,
                }
                got = Interp("Order", stubs=stubs).run(cg.node, {rv: "SELF", f"{rv}.types": members, f"{rv}.__args__": members, "types": members})
                ok = isinstance(got, tuple) and got[:1] == ("combine",)
                if ok:
                    tpl, lst = got[1], got[2]
                    core = tpl[1:-1] if tpl.startswith("(") and tpl.endswith(")") else tpl
                    if not (tpl.startswith("(") and tpl.endswith(")")) and k > 1:
                        bracketed = False
                    ok = core == f" {conn} ".join(["{}"] * k) and lst == tuple("cg:" + m for m in members)
                if not ok and bad is None:
                    bad = (f"{k} member(s), of which {sorted(depset) or 'none'} value-dependent", got)
        n += 1
        ctx.ob(
            f"{cg.key}:connective",
            cg.loc(),
            f"{c.name}'s emitted check joins the checks of all its members, in order, with `{conn}` (interpreted for 1, 2 and 3 members)",
            bad is None,
            f"{c.name}.codegen produces {bad[1] if bad else ''} for {bad[0] if bad else ''}: the generated check is not the `{conn}` of all member checks, so it disagrees with isinstance()",
        )
        if conn == "or":
            n += 1
            ctx.ob(f"{cg.key}:bracketed", cg.loc(), f"{c.name}'s emitted disjunction is bracketed (it is embedded in `and`-conjunctions by the intersection and by the per-argument guard)", bracketed and bad is None, f"{c.name}.codegen emits `A or B` without brackets: joined with ` and ` by the caller it reads `A or (B and C)`, so a method runs although one of its other value conditions is false")
        # ---- the two membership tests
        for mname, fn in (("__instancecheck__", "isinstance"), ("__is_supertype__", "subclasscheck")):
            m = c.methods.get(mname)
            ctx.require(m is not None, f"{c.key} lost {mname}")
            ctx.touch(m)
            rv = recv_name(m)
            arg = [p for p in m.params if p != rv][0]
            bad = None
            cases = 0
            for k in (1, 2, 3):
                members = tuple(f"m{i}" for i in range(k))
                for truth in itertools.product((True, False), repeat=k):
                    table = dict(zip(members, truth))

                    def test(x, t, table=table):
                        if x != "X" or t not in table:
                            raise AnalysisError(f"{m.key}: {fn} called as ({x}, {t}) - expected ({arg}, member)")
                        return table[t]

                    got = Interp("Order", stubs={fn: test}).run(m.node, {rv: "SELF", arg: "X", f"{rv}.types": members, f"{rv}.__args__": members})
                    cases += 1
                    if bool(got) != quant(truth) and bad is None:
                        bad = (table, got)
            n += 1
            ctx.ob(
                f"{m.key}:quantifier",
                m.loc(),
                f"{c.name}.{mname} is `{qname}` of {fn}({arg}, member) over all members ({cases} cases interpreted)",
                bad is None,
                f"with member tests {bad[0] if bad else ''} {c.name}.{mname} answers {bad[1] if bad else ''}: a value/class matches the {c.name.lower()} although it matches {'no arm' if qname == 'any' else 'only some arms'} (or the reverse)",
            )
    ctx.require(n >= 6, "expected union and intersection, each with codegen / __instancecheck__ / __is_supertype__")


def r5(ctx):
    from .c15 import r3_generic_handlers_use_every_argument

    r3_generic_handlers_use_every_argument(ctx)


def r6(ctx):
    from .c10 import r4_table_laws

    r4_table_laws(ctx)


def r7(ctx):
    from .c10 import r2b_dependent_at_any_depth

    r2b_dependent_at_any_depth(ctx)


RULES = [
    ("C11.R7", "P1", r7, "value-dependence is recognised at any nesting depth"),
    ("C11.R1", "P1", r1_sibling_footprints, "siblings consult the same parameters"),
    ("C11.R2", "P1", r2_template_equals_check, "template = check"),
    ("C11.R3", "P1", r3_product_types, "product types: length and per-index tests on both sides"),
    ("C11.R4", "P1", r4_connective_is_quantifier, "connective = quantifier"),
    ("C11.R5", "P1", r5, "generic handlers pass all normalised arguments"),
    ("C11.R6", "P1", r6, "table path needs disjoint keys"),
]
