"""C11 - Literal and the built-in value types match exactly their documented values."""

import ast
import re

from .. import anchors as A
from ..cfg import all_stmts
from ..model import AnalysisError, call_name, dotted, is_self_attr, short, src, str_value
from ..norm import atoms
from .common import recv_name

VALUE_METHODS = ("check", "codegen", "get_keys", "default_bound")


def param_types(ctx):
    """Classes deriving the parametrised dependent base (the class defining `parameters` / `parameter`)."""
    repo = ctx.repo
    dm = A.dependent_meta(repo)
    bases = [c for c in repo.subclasses_of(dm) if "parameter" in c.methods and "__init__" in c.methods]
    ctx.require(len(bases) == 1, f"expected one parametrised dependent base class, found {[b.key for b in bases]}")
    base = bases[0]
    return base, [c for c in repo.subclasses_of(base)]


def _footprint(m, in_default_bound=False):
    """('all'|'first'|None, guarded) over the value parameters used by method m."""
    rv = recv_name(m)
    uses_all = uses_first = False
    first_nodes = []
    star = m.node.args.vararg.arg if m.node.args.vararg else None
    for n in ast.walk(m.node):
        if is_self_attr(n, "parameter", selfname=rv):
            uses_first = True
            first_nodes.append(n)
        elif isinstance(n, ast.Subscript) and (is_self_attr(n.value, "parameters", selfname=rv) or (star and dotted(n.value) == star)) and isinstance(n.slice, ast.Constant) and n.slice.value == 0:
            uses_first = True
            first_nodes.append(n)
    for n in ast.walk(m.node):
        if is_self_attr(n, "parameters", selfname=rv) or (star and isinstance(n, ast.Name) and n.id == star and isinstance(n.ctx, ast.Load)):
            # not the base of a [0] subscript and not the argument of len()
            uses_all = True
    # discount parameters occurrences that are only `parameters[0]` or `len(parameters)`
    alls = 0
    for n in ast.walk(m.node):
        if is_self_attr(n, "parameters", selfname=rv) or (star and isinstance(n, ast.Name) and n.id == star and isinstance(n.ctx, ast.Load)):
            alls += 1
    discounted = 0
    for n in ast.walk(m.node):
        if isinstance(n, ast.Subscript) and isinstance(n.slice, ast.Constant) and n.slice.value == 0 and (is_self_attr(n.value, "parameters", selfname=rv) or (star and dotted(n.value) == star)):
            discounted += 1
        if isinstance(n, ast.Call) and call_name(n) == "len" and n.args and (is_self_attr(n.args[0], "parameters", selfname=rv) or (star and dotted(n.args[0]) == star)):
            discounted += 1
    uses_all = alls - discounted > 0
    # guarded: every first-only access sits under `len(parameters) == 1`
    guarded = True
    if first_nodes:
        for fnode in first_nodes:
            g = False
            for st in ast.walk(m.node):
                if isinstance(st, ast.If) and any(x is fnode for b in st.body for x in ast.walk(b)):
                    for a in atoms(st.test):
                        if a[0] == "cmp" and a[1] == "Eq" and "len(" in src(a[2]) + src(a[3]) and "1" in (src(a[2]), src(a[3])):
                            g = True
            guarded = guarded and g
    return uses_all, uses_first, guarded


def r1_sibling_footprints(ctx):
    base, subs = param_types(ctx)
    n = 0
    for c in subs:
        ms = {name: c.methods[name] for name in VALUE_METHODS if name in c.methods}
        if len(ms) < 2:
            continue
        fps = {name: _footprint(m) for name, m in ms.items()}
        any_all = any(a for a, f, g in fps.values())
        for name, (a, f, g) in fps.items():
            m = ms[name]
            if not a and not f:
                continue
            ctx.touch(m)
            n += 1
            ok = not (any_all and f and not g)
            kind = "all" if a and not f else "first-only" if f and not a else "all+first(guarded)" if g else "mixed"
            ctx.ob(
                f"{m.key}:{'first-only' if not ok else 'footprint'}",
                m.loc(),
                f"{c.name}.{name} consults the same value parameters as its siblings ({', '.join(sorted(ms))}) [{kind}]",
                ok,
                f"{c.name}.{name} looks at the first parameter only while a sibling ({', '.join(k for k, v in fps.items() if v[0])}) uses all of them: for a multi-valued {c.name} the two disagree about the value set",
            )
    ctx.require(n >= 3, "expected the value-set methods of the literal type and the product type")


def _subst_template(tpl, subs, argname):
    """Template string -> expression AST with {arg} -> argname, {hole} -> substitution expression source."""
    def rep(m):
        k = m.group(1)
        if k == "arg":
            return argname
        if k in subs:
            return "(" + subs[k] + ")"
        raise AnalysisError(f"template hole {{{k}}} has no substitution")

    text = re.sub(r"\{(\w+)\}", rep, tpl)
    try:
        return ast.parse(text, mode="eval").body
    except SyntaxError:
        raise AnalysisError(f"check template does not parse: {text!r}")


def _norm_eq(e, recv):
    """x == self.parameter  ->  x in self.parameters   (valid under len(parameters) == 1);  strip bool() and parens"""
    class T(ast.NodeTransformer):
        def visit_Compare(self, n):
            self.generic_visit(n)
            if len(n.ops) == 1 and isinstance(n.ops[0], ast.Eq):
                for a, b in ((n.left, n.comparators[0]), (n.comparators[0], n.left)):
                    if is_self_attr(b, "parameter", selfname=recv):
                        return ast.Compare(left=a, ops=[ast.In()], comparators=[ast.Attribute(value=ast.Name(id=recv, ctx=ast.Load()), attr="parameters", ctx=ast.Load())])
            return n

    e = T().visit(e)
    return ast.dump(e, annotate_fields=False, include_attributes=False)


def r2_template_equals_check(ctx):
    base, subs = param_types(ctx)
    n = 0
    # classes turned into parametrised dependent types by the `dependent_check` decorator count as well
    deco = [c for c in ctx.repo.all_classes() if any((dotted(d) or call_name(d) or "").endswith("dependent_check") for d in c.node.decorator_list)]
    for c in list(subs) + [d for d in deco if d not in subs]:
        if "codegen" not in c.methods or "check" not in c.methods:
            continue
        cg = c.methods["codegen"]
        ck = c.methods["check"]
        rv = recv_name(ck)
        arg = [p for p in ck.params if p != rv][0]
        rets = [r for r in ast.walk(ck.node) if isinstance(r, ast.Return) and r.value is not None]
        if len(rets) != 1:
            continue
        # product-like codegens (loops) are R3's business
        if any(isinstance(x, (ast.For, ast.While)) for x in ast.walk(cg.node)):
            continue
        want = _norm_eq(rets[0].value, rv)
        ctors = [x for x in ast.walk(cg.node) if isinstance(x, ast.Call) and call_name(x) == "CodeGen"]
        for ctor in ctors:
            tpl = str_value(ctor.args[0]) if ctor.args else None
            if tpl is None:
                raise AnalysisError(f"{cg.loc(ctor)}: non-literal check template")
            s = {}
            for k in ctor.keywords:
                s[k.arg] = src(k.value).replace(recv_name(cg) + ".", rv + ".")
            got = _norm_eq(_subst_template(tpl, s, arg), rv)
            ctx.touch(cg, ck)
            n += 1
            ctx.ob(
                f"{cg.key}:template:{tpl[:30]}",
                cg.loc(ctor),
                f"the emitted check `{tpl}` says the same as {c.name}.check (`{short(rets[0].value, 40)}`) under {{arg}} = {arg}",
                got == want,
                f"the generated check `{tpl}` is a different predicate from `{short(rets[0].value, 50)}`: which code path the generator picks changes the answer",
            )
    ctx.require(n >= 2, "expected template checks for the literal type and the regexp type")


def r3_product_types(ctx):
    base, subs = param_types(ctx)
    prods = [c for c in subs if "codegen" in c.methods and any(isinstance(x, ast.For) for x in ast.walk(c.methods["codegen"].node))]
    ctx.require(prods, "no product-like type (codegen with a loop over the parameters)")
    for c in prods:
        cg = c.methods["codegen"]
        ck = c.methods["check"]
        ctx.touch(cg, ck)
        rv = recv_name(cg)
        # codegen: length test
        consts = [str_value(x) for x in ast.walk(cg.node) if isinstance(x, (ast.Constant, ast.JoinedStr))]
        len_tpl = [t for t in consts if t and re.search(r"len\(\{arg\}\)\s*==\s*\{(\w+)\}", t)]
        ok_len = False
        if len_tpl:
            hole = re.search(r"len\(\{arg\}\)\s*==\s*\{(\w+)\}", len_tpl[0]).group(1)
            for d in ast.walk(cg.node):
                if isinstance(d, ast.Dict):
                    for k, v in zip(d.keys, d.values):
                        if isinstance(k, ast.Constant) and k.value == hole and isinstance(v, ast.Call) and call_name(v) == "len" and is_self_attr(v.args[0], "parameters", selfname=rv):
                            ok_len = True
        ctx.ob(f"{cg.key}:length-test", cg.loc(), "the emitted check tests the tuple's length against the number of element types", ok_len, "the generated tuple check has no length test: a longer or shorter tuple matches (or indexing fails)")
        # codegen: one isinstance per index over the whole parameter list, joined with and
        loops = [x for x in ast.walk(cg.node) if isinstance(x, ast.For)]
        ok_loop = False
        for lp in loops:
            if isinstance(lp.iter, ast.Call) and call_name(lp.iter) == "enumerate" and is_self_attr(lp.iter.args[0], "parameters", selfname=rv):
                i = dotted(lp.target.elts[0])
                tpls = [str_value(x) for x in ast.walk(lp) if isinstance(x, ast.JoinedStr)]
                if any(t and re.fullmatch(r"isinstance\(\{arg\}\[§%s§\], \{p§%s§\}\)" % (i, i), t) for t in tpls):
                    ok_loop = True
        joins = [x for x in ast.walk(cg.node) if isinstance(x, ast.Call) and isinstance(x.func, ast.Attribute) and x.func.attr == "join" and str_value(x.func.value) == " and "]
        ctx.ob(f"{cg.key}:per-index-tests", cg.loc(), "the emitted check has one isinstance test per element index over the whole parameter list, joined by `and`", ok_loop and bool(joins), "the generated tuple check skips an element position or does not conjoin the element tests")
        # check(): length equality and all(isinstance over zip(value, parameters))
        rv2 = recv_name(ck)
        arg = [p for p in ck.params if p != rv2][0]
        rets = [r for r in ast.walk(ck.node) if isinstance(r, ast.Return) and r.value is not None]
        ok_ck = False
        if len(rets) == 1:
            ats = atoms(rets[0].value)
            has_len = any(a[0] == "cmp" and a[1] == "Eq" and {src(a[2]), src(a[3])} == {f"len({arg})", f"len({rv2}.parameters)"} for a in ats)
            has_all = False
            for a in ats:
                if a[0] == "truthy" and isinstance(a[1], ast.Call) and call_name(a[1]) == "all":
                    ge = a[1].args[0]
                    if isinstance(ge, (ast.GeneratorExp, ast.ListComp)):
                        it = ge.generators[0].iter
                        if isinstance(it, ast.Call) and call_name(it) == "zip" and [src(x) for x in it.args] == [arg, f"{rv2}.parameters"] and isinstance(ge.elt, ast.Call) and call_name(ge.elt) == "isinstance":
                            x, t = [dotted(e) for e in ge.generators[0].target.elts]
                            has_all = [dotted(z) for z in ge.elt.args] == [x, t]
            ok_ck = has_len and has_all
        ctx.ob(f"{ck.key}:length-and-elements", ck.loc(), "isinstance on the product type tests the length and every element against its own position's type", ok_ck, "the product type's check no longer tests both the length and every element position")


def r4_connective_is_quantifier(ctx):
    repo = ctx.repo
    want = {"Union": ("or", "any"), "Intersection": ("and", "all")}
    n = 0
    for c in repo.all_classes():
        if c.name not in want or "codegen" not in c.methods:
            continue
        conn, quant = want[c.name]
        cg = c.methods["codegen"]
        ctx.touch(cg)
        joins = [str_value(x.func.value) for x in ast.walk(cg.node) if isinstance(x, ast.Call) and isinstance(x.func, ast.Attribute) and x.func.attr == "join"]
        ok = joins == [f" {conn} "]
        whole = any(isinstance(g, ast.comprehension) and src(g.iter).endswith(".types") for g in ast.walk(cg.node))
        n += 1
        ctx.ob(f"{cg.key}:connective", cg.loc(), f"{c.name}'s emitted check joins all member checks with `{conn}`", ok and whole, f"{c.name}.codegen joins its members with {joins}: the generated check is a different connective from isinstance()")
        if conn == "or":
            # `or` binds looser than the `and` that callers join checks with: the disjunction must be bracketed
            tdef = [s for s in ast.walk(cg.node) if isinstance(s, ast.Assign) and any(isinstance(x, ast.Call) and isinstance(x.func, ast.Attribute) and x.func.attr == "join" for x in ast.walk(s.value))]
            brack = False
            for s in tdef:
                v = s.value
                consts = [x.value for x in ast.walk(v) if isinstance(x, ast.Constant) and isinstance(x.value, str)]
                lm = rm = v
                while isinstance(lm, ast.BinOp):
                    lm = lm.left
                while isinstance(rm, ast.BinOp):
                    rm = rm.right
                opens = isinstance(v, ast.BinOp) and isinstance(lm, ast.Constant) and str(lm.value).strip().startswith("(") and isinstance(rm, ast.Constant) and str(rm.value).strip().endswith(")")
                each = any(k.strip() in ("({})",) for k in consts)
                brack = brack or opens or each
            n += 1
            ctx.ob(f"{cg.key}:bracketed", cg.loc(), f"{c.name}'s emitted disjunction is bracketed (it is embedded in `and`-conjunctions by the intersection and by the per-argument guard)", brack, f"{c.name}.codegen emits `A or B` without brackets: joined with ` and ` by the caller it reads `A or (B and C)`, so a method runs although one of its other value conditions is false")
        for mname, fn in (("__instancecheck__", "isinstance"), ("__is_supertype__", "subclasscheck")):
            m = c.methods.get(mname)
            ctx.require(m is not None, f"{c.key} lost {mname}")
            ctx.touch(m)
            rv = recv_name(m)
            arg = [p for p in m.params if p != rv][0]
            rets = [r for r in ast.walk(m.node) if isinstance(r, ast.Return) and r.value is not None]
            ok = len(rets) == 1
            if ok:
                v = rets[0].value
                ok = isinstance(v, ast.Call) and call_name(v) == quant and isinstance(v.args[0], (ast.GeneratorExp, ast.ListComp))
                if ok:
                    ge = v.args[0]
                    g = ge.generators[0]
                    t = dotted(g.target)
                    ok = src(g.iter) == f"{rv}.types" and not g.ifs and isinstance(ge.elt, ast.Call) and call_name(ge.elt) == fn and [dotted(a) for a in ge.elt.args] == [arg, t]
            n += 1
            ctx.ob(f"{m.key}:quantifier", m.loc(), f"{c.name}.{mname} is `{quant}` of {fn}({arg}, member) over all members", ok, f"{c.name}.{mname} is not `{quant}` over all members in that argument order: a value/class matches the {c.name.lower()} although it matches {'no arm' if quant == 'any' else 'only some arms'}")
    ctx.require(n >= 6, "expected union and intersection, each with codegen / __instancecheck__ / __is_supertype__")


def r5(ctx):
    from .c15 import r3_generic_handlers_use_every_argument

    r3_generic_handlers_use_every_argument(ctx)


def r6(ctx):
    from .c10 import r4_table_needs_disjoint_keys

    r4_table_needs_disjoint_keys(ctx)


def r7(ctx):
    from .c10 import r2b_dependent_at_any_depth

    r2b_dependent_at_any_depth(ctx)


RULES = [
    ("C11.R7", "P1", r7, "value-dependence is recognised at any nesting depth"),
    ("C11.R1", "P1", r1_sibling_footprints, "siblings consult the same parameters"),
    ("C11.R2", "P1", r2_template_equals_check, "template = check"),
    ("C11.R3", "P1", r3_product_types, "product types: length and per-index tests on both sides"),
    ("C11.R4", "P1", r4_connective_is_quantifier, "connective = quantifier"),
    ("C11.R5", "P1", r5, "generic handlers pass all normalised arguments"),
    ("C11.R6", "P1", r6, "table path needs disjoint keys"),
]
