"""C05 - after register/unregister, behaviour equals a freshly built function."""

import ast

from .. import anchors as A
from ..cfg import all_stmts
from ..effects import DICT, func_writes, stmt_calls, stmt_writes
from ..model import AnalysisError, call_name, dotted, is_self_attr, short
from .c16 import r5_every_mutator_rebuilds
from .common import cfg_of, recv_name, stmts_calling_self


def lookup_path(ctx, cls):
    """Methods reachable from __missing__ through self.m(...) calls."""
    todo = [cls.methods["__missing__"]]
    seen = []
    while todo:
        m = todo.pop()
        if m in seen:
            continue
        seen.append(m)
        rv = recv_name(m)
        for n in ast.walk(m.node):
            if isinstance(n, ast.Call) and is_self_attr(n.func, selfname=rv):
                t = ctx.repo.find_method(cls, n.func.attr)
                if t is not None and t.cls is not None:
                    todo.append(t)
            # item access on the receiver runs the class's own item methods, if it defines any
            implicit = None
            if isinstance(n, ast.Subscript) and isinstance(n.value, ast.Name) and n.value.id == rv:
                implicit = {ast.Store: "__setitem__", ast.Del: "__delitem__", ast.Load: "__getitem__"}[type(n.ctx)]
            elif isinstance(n, ast.Compare) and any(isinstance(o, (ast.In, ast.NotIn)) for o in n.ops) and any(isinstance(c, ast.Name) and c.id == rv for c in n.comparators):
                implicit = "__contains__"
            if implicit and implicit in cls.methods and cls.methods[implicit] is not m:
                todo.append(cls.methods[implicit])
    return seen


def _is_empty_container(v):
    if isinstance(v, (ast.Dict, ast.Set, ast.List)) and not (getattr(v, "keys", None) or getattr(v, "elts", None)):
        return True
    if isinstance(v, ast.Call) and call_name(v) in ("dict", "set", "list", "defaultdict", "OrderedDict") and not v.args:
        return True
    return False


def _is_flush(w):
    if w.kind == "call" and w.method == "clear":
        return True
    if w.kind == "rebind" and isinstance(w.node, (ast.Assign, ast.AnnAssign)) and _is_empty_container(w.node.value):
        return True
    return False


def registration_methods(ctx, cls):
    lp = lookup_path(ctx, cls)
    out = []
    for m in cls.methods.values():
        if m in lp or m.name == "__init__":
            continue
        ws = [w for w in func_writes(m.node, recv_name(m)) if not _is_flush(w)]
        if any(w.attr != DICT for w in ws):
            out.append(m)
    # a private helper that is only ever called from other registration methods of the class is part of them,
    # not an entry point of its own (the flush is the caller's duty)
    def external_or_foreign_callers(m):
        for f in ctx.repo.all_funcs():
            if f is m:
                continue
            for c in ast.walk(f.node):
                if isinstance(c, ast.Call) and isinstance(c.func, ast.Attribute) and c.func.attr == m.name:
                    if not (f.cls is cls and f in out and is_self_attr(c.func, selfname=recv_name(f))):
                        return True
        return False

    def called_by_regs(m):
        return any(f is not m and any(isinstance(c, ast.Call) and is_self_attr(c.func, m.name, selfname=recv_name(f)) for c in ast.walk(f.node)) for f in out)

    out = [m for m in out if not (m.name.startswith("_") and not m.name.startswith("__") and called_by_regs(m) and not external_or_foreign_callers(m))]
    return out


def must_write_before(ctx, cls, g, stmt, table, depth=0):
    """Is `stmt` in method g dominated by a write of `table` under g's key parameter (directly or via a callee
    that writes it on every normal path)?"""
    cfg = cfg_of(ctx, g)
    rv = recv_name(g)
    params = [p for p in g.params if p != rv]
    doms = []
    for st in all_stmts(g.node):
        if isinstance(st, (ast.FunctionDef, ast.ClassDef)):
            continue
        for w in stmt_writes(st, rv):
            if w.attr == table and w.kind == "elem" and isinstance(w.node, ast.Assign):
                t = w.node.targets[0]
                if isinstance(t, ast.Subscript) and isinstance(t.slice, ast.Name) and t.slice.id in params:
                    doms.append(cfg.node_of(st))
        if depth < 3:
            for c in stmt_calls(st):
                if is_self_attr(c.func, selfname=rv) and c.args and isinstance(c.args[0], ast.Name) and c.args[0].id in params:
                    h = ctx.repo.find_method(cls, c.func.attr)
                    if h is not None and h is not g and _must_writes(ctx, cls, h, table, depth + 1):
                        doms.append(cfg.node_of(st))
    n = cfg.node_of(stmt)
    return bool(doms) and cfg.dominated_by(n, doms)


def _must_writes(ctx, cls, h, table, depth):
    cfg = cfg_of(ctx, h)
    rv = recv_name(h)
    params = [p for p in h.params if p != rv]
    nodes = []
    for st in all_stmts(h.node):
        if isinstance(st, (ast.FunctionDef, ast.ClassDef)):
            continue
        for w in stmt_writes(st, rv):
            if w.attr == table and w.kind == "elem" and isinstance(w.node, ast.Assign):
                t = w.node.targets[0]
                if isinstance(t, ast.Subscript) and isinstance(t.slice, ast.Name) and t.slice.id in params:
                    nodes.append(cfg.node_of(st))
    return bool(nodes) and cfg.must_reach(cfg.entry, nodes)


def r1_derived_tables_flushed(ctx):
    for cls in A.cache_classes(ctx.repo):
        lp = lookup_path(ctx, cls)
        regs = registration_methods(ctx, cls)
        ctx.require(regs, f"{cls.key}: no registration method found")
        ctx.touch(*lp, *regs)
        derived = {}
        for m in lp:
            for w in func_writes(m.node, recv_name(m)):
                derived.setdefault(w.attr, []).append((m, w))
        if cls is A.multimap(ctx.repo):
            ctx.require(DICT in derived, f"{cls.key}: the lookup path never stores into the dict itself")
        elif not derived:
            ctx.note(f"{cls.key}: the lookup path keeps no derived state (nothing to flush)")
        reg_state = set()
        for m in regs:
            for w in func_writes(m.node, recv_name(m)):
                if not _is_flush(w) and w.attr != DICT:
                    reg_state.add(w.attr)
        for table in sorted(derived):
            if table in reg_state:
                continue  # written by registration itself: registration state, not derived
            for reg in regs:
                cfg = cfg_of(ctx, reg)
                flushes = [
                    cfg.node_of(w.stmt)
                    for w in func_writes(reg.node, recv_name(reg))
                    if w.attr == table and _is_flush(w)
                ]
                flushed = bool(flushes) and cfg.must_reach(cfg.entry, flushes)
                how = "flushed"
                ok = flushed
                if not ok and table != DICT:
                    # alternative: written under the looked-up key before every dict store
                    stores = [(m, w) for (m, w) in derived[DICT] if w.kind in ("elem",)]
                    ok = bool(stores) and all(must_write_before(ctx, cls, m, w.stmt, table) for m, w in stores)
                    how = "re-derived before every cache store"
                tname = "the dict itself" if table == DICT else f"`{table}`"
                ctx.ob(
                    f"{reg.key}:{table}",
                    reg.loc(),
                    f"derived table {tname} (written by {', '.join(sorted({m.name for m, _ in derived[table]}))}) is flushed on every path of {reg.name}() or re-derived before each cache store [{how if ok else 'neither'}]",
                    ok,
                    f"{tname} is filled on the lookup path, is not flushed by {reg.name}() and is only conditionally rewritten: a result or error computed before the registration survives it",
                )


def r3_rebuild_from_nothing(ctx):
    from . import entrygen

    try:
        entrygen.law(ctx, "regenerated")
    except AnalysisError as e:
        ctx.note(f"entry-point generator not interpretable ({e}); regeneration per build not decided")
    _r3_rebuild_from_nothing(ctx)


def _r3_rebuild_from_nothing(ctx):
    repo = ctx.repo
    oc = A.function_class(repo)
    build = A.build_method(repo)
    multi = A.multimap(repo)
    ctx.touch(build)
    cfg = cfg_of(ctx, build)
    rv = recv_name(build)
    # (a) table assigned from a constructor on every path
    mw = [w for w in func_writes(build.node, rv) if w.attr == "map"]
    ctx.require(mw, "the build method never assigns the table attribute `map`")
    fresh = [w for w in mw if w.kind == "rebind" and isinstance(w.node, ast.Assign) and isinstance(w.node.value, ast.Call) and call_name(w.node.value) == multi.name]
    ok = len(fresh) == len(mw) and cfg.must_reach(cfg.entry, [cfg.node_of(w.stmt) for w in fresh])
    ctx.ob(
        f"{build.key}:fresh-table",
        build.loc(mw[0].stmt),
        f"every build assigns `map` from a new {multi.name}(...) on every path (never reuses or extends the old table)",
        ok,
        "the build may keep or extend a previous table: methods removed since the last build stay registered",
    )
    # (a') a rebuild re-publishes every part of the generated entry point it publishes at all
    parts = []
    for st in all_stmts(build.node):
        if isinstance(st, ast.Assign):
            for t in st.targets:
                if isinstance(t, ast.Attribute) and is_self_attr(t.value, "dispatch", selfname=rv):
                    parts.append((st, t.attr))
        elif isinstance(st, ast.Expr) and isinstance(st.value, ast.Call) and isinstance(st.value.func, ast.Attribute) and st.value.func.attr == "update":
            b = st.value.func.value
            if isinstance(b, ast.Attribute) and is_self_attr(b.value, "dispatch", selfname=rv):
                parts.append((st, b.attr + ".update"))
    # parts copied by a loop over attribute names with setattr
    looped = set()
    for lp in ast.walk(build.node):
        if isinstance(lp, ast.For) and isinstance(lp.iter, (ast.Tuple, ast.List)) and all(isinstance(e, ast.Constant) and isinstance(e.value, str) for e in lp.iter.elts):
            if any(isinstance(c, ast.Call) and call_name(c) == "setattr" and len(c.args) == 3 and isinstance(c.args[0], ast.Attribute) and is_self_attr(c.args[0], "dispatch", selfname=rv) and dotted(c.args[1]) == dotted(lp.target) for c in ast.walk(lp)):
                looped |= {e.value for e in lp.iter.elts}
    from .more import entry_parts_unconditional

    entry_parts_unconditional(ctx)
    ctx.require(len(parts) + len(looped) >= 3, "the build no longer publishes the generated entry point part by part")
    published = {w for _, w in parts} | looped
    need = {"__code__", "__defaults__", "__kwdefaults__"}
    ctx.ob(
        f"{build.key}:republish:call-relevant-parts",
        build.loc(),
        "the build publishes the code, the positional defaults and the keyword defaults of the generated entry point (the parts of a function object that decide how a call binds)",
        need <= published,
        f"{sorted(need - published)} of the generated entry point is never copied to the live one: optional parameters of the new method set have no MISSING default there",
    )
    for st, what in parts:
        ctx.ob(
            f"{build.key}:republish:{what}",
            build.loc(st),
            f"every build re-publishes `dispatch.{what}` (it runs on every normal path of the build, not only the first time)",
            cfg.must_reach(cfg.entry, [cfg.node_of(st)]),
            f"`{short(st, 60)}` is skipped on some builds: after a rebuild the live entry point runs new code with a stale `{what}` (e.g. a helper the new code needs was never injected)",
        )
    # (b) the argument analysis is a fresh object before methods are added to it
    an = A.argument_analyzer(repo)
    adders = []
    for m in oc.methods.values():
        r = recv_name(m)
        for n in ast.walk(m.node):
            if isinstance(n, ast.Call) and isinstance(n.func, ast.Attribute) and n.func.attr == "add" and is_self_attr(n.func.value, selfname=r):
                adders.append((m, n, n.func.value.attr))
    ctx.require(adders, "no method adds the registered methods to the argument analysis")
    for m, call, attr in adders:
        ctx.touch(m)
        mc = cfg_of(ctx, m)
        r = recv_name(m)
        news = [
            mc.node_of(w.stmt)
            for w in func_writes(m.node, r)
            if w.attr == attr and w.kind == "rebind" and isinstance(w.node, ast.Assign) and isinstance(w.node.value, ast.Call) and call_name(w.node.value) == an.name
        ]
        st = next(s for s in all_stmts(m.node) if not isinstance(s, (ast.FunctionDef, ast.ClassDef)) and call in [c for c in stmt_calls(s)])
        ok = bool(news) and mc.dominated_by(mc.node_of(st), news)
        ctx.ob(
            f"{m.key}:fresh-analysis",
            m.loc(call),
            f"`{attr}` is a new {an.name}() before the first method is added to it",
            ok,
            f"methods are added to a reused {an.name}: its per-argument counters accumulate over rebuilds and the generated entry point no longer matches the current method set",
        )
        # and the build reaches this method
        calls = stmts_calling_self(build.node, m.name, rv)
        okb = bool(calls) and cfg.must_reach(cfg.entry, [cfg.node_of(s) for s in calls])
        if m is not build:
            ctx.ob(
                f"{build.key}:calls-{m.name}",
                build.loc(),
                f"every build re-runs {m.name}()",
                okb,
                f"a rebuild may skip {m.name}(): the entry point is generated from a stale analysis",
            )
    # (c) the rewriter rebinds the per-function table global with a plain store
    rc = A.recompiler(repo)
    ctx.touch(rc)
    sites = []
    for n in ast.walk(rc.node):
        if isinstance(n, ast.Attribute) and n.attr == "map" and isinstance(n.value, ast.Name) and n.value.id in rc.params:
            sites.append(n)
    if not sites:
        # the table may be handed over by a helper the build calls (one planting per module instead of one per method)
        helpers = []
        for f in repo.all_funcs():
            if f is rc or f.cls is not None:
                continue
            fs = [n for n in ast.walk(f.node) if isinstance(n, ast.Attribute) and n.attr == "map" and isinstance(n.value, ast.Name) and n.value.id in f.params]
            if fs and any(isinstance(s_, ast.Assign) and isinstance(s_.targets[0], ast.Subscript) and s_.value in fs for s_ in all_stmts(f.node)):
                helpers.append((f, fs))
        if len(helpers) == 1 and stmts_calling_name(build.node, helpers[0][0].name):
            rc, sites = helpers[0]
            ctx.touch(rc)
    ctx.require(sites, f"{rc.key} never hands the function's table to the rewritten method")
    rcfg = cfg_of(ctx, rc)
    stmts = all_stmts(rc.node)
    for site in sites:
        st = next(s for s in stmts if not hasattr(s, "body") and site in list(ast.walk(s)))
        plain = (
            isinstance(st, ast.Assign)
            and st.value is site
            and isinstance(st.targets[0], ast.Subscript)
            and (
                (isinstance(st.targets[0].value, ast.Attribute) and st.targets[0].value.attr == "__globals__")
                or (isinstance(st.targets[0].value, ast.Name) and st.targets[0].value.id in rc.params)
            )
        )
        on_all = rcfg.must_reach(rcfg.entry, [rcfg.node_of(st)]) if rcfg.node_of(st) is not None else False
        ctx.ob(
            f"{rc.key}:map-global",
            rc.loc(st),
            "the per-function table global is rebound by a plain store on every path that produces a function",
            plain and on_all,
            f"`{short(st, 70)}` does not unconditionally rebind the table global: after a rebuild, rewritten methods keep looking up the previous table",
        )


def stmts_calling_name(fnode, name):
    return [s_ for s_ in all_stmts(fnode) if any(isinstance(c, ast.Call) and call_name(c) == name for c in ast.walk(s_))]


def r2(ctx):
    from .c16 import r3_linkback

    r5_every_mutator_rebuilds(ctx)
    r3_linkback(ctx)


def _more(name):
    def run(ctx):
        from . import more

        getattr(more, name)(ctx)

    run.__name__ = name
    return run


RULES = [
    ("C05.R1", "P1", r1_derived_tables_flushed, "every derived table is flushed or re-derived"),
    ("C05.R2", "P1", r2, "every mutator rebuilds"),
    ("C05.R3", "P1", r3_rebuild_from_nothing, "a rebuild starts from nothing"),
    ("C05.R4", "P1", _more("removal_is_exhaustive"), "unregistering removes every signature of the function"),
]
