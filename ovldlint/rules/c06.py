"""C06 - resolution is deterministic and ignores irrelevant context (structural clauses)."""

import ast

from .. import anchors as A
from ..callgraph import get_callgraph
from ..cfg import all_stmts
from ..model import AnalysisError, call_name, dotted, is_self_attr, parent_map, short, src
from ..norm import atoms
from .common import holds_at, recv_name

# ------------------------------------------------------------------ R1: address / hash derived values
ALLOWED_ID_CONTEXT = {
    "__hash__": "defines the hash of a type object (consistent with its __eq__)",
    "__repr__": "diagnostic text only",
    "__str__": "diagnostic text only",
}


def _id_hash_sites(tree_funcs):
    out = []
    for f in tree_funcs:
        for c in ast.walk(f.node):
            if isinstance(c, ast.Call) and isinstance(c.func, ast.Name) and c.func.id in ("id", "hash") and len(c.args) == 1:
                out.append((f, c))
            if isinstance(c, ast.keyword) and c.arg == "key" and isinstance(c.value, ast.Name) and c.value.id in ("id", "hash", "repr"):
                out.append((f, c.value))
    return out


def _control_snippet():
    srcs = "def scratch(xs):\n    table = {}\n    for x in xs:\n        table[id(x)] = x\n    return sorted(xs, key=id)\n"
    mod = ast.parse(srcs)

    class F:
        node = mod.body[0]
        name = "scratch"

    return _id_hash_sites([F])


def _only_formatted_into_text(pm, c):
    """Is the value of expression c consumed by string formatting (f-string, str.format, %, str / hex / repr)?  Text
    made from an address is a name, not a decision."""
    cur = c
    while cur in pm:
        p = pm[cur]
        if isinstance(p, (ast.FormattedValue, ast.JoinedStr)):
            return True
        if isinstance(p, ast.Call):
            if isinstance(p.func, ast.Attribute) and p.func.attr == "format" and cur is not p.func:
                return True
            if call_name(p) in ("str", "hex", "repr", "format", "oct") and cur in p.args:
                return True
            if call_name(p) in ("abs", "int") and cur in p.args:
                cur = p
                continue
            return False
        if isinstance(p, ast.BinOp) and isinstance(p.op, ast.Mod) and cur is p.right and isinstance(p.left, (ast.Constant, ast.JoinedStr)):
            return True
        if isinstance(p, (ast.Tuple, ast.UnaryOp)):
            cur = p
            continue
        return False
    return False


def r1_no_address_in_decisions(ctx):
    repo = ctx.repo
    control = _control_snippet()
    ctx.require(len(control) >= 2, "the id()/hash() scanner no longer matches its built-in positive example")
    ctx.ob("ovldlint.control:id-scanner", "ovldlint/rules/c06.py:1", f"positive control: the scanner finds {len(control)} address-derived keys in its built-in example", True)
    sites = _id_hash_sites(repo.all_funcs())
    ctx.require(sites, "no id()/hash() use at all in the package (the generators name their variables by id)")
    for f, c in sites:
        ctx.touch(f)
        fname = f.name
        reason = ALLOWED_ID_CONTEXT.get(fname)
        pm = parent_map(f.node)
        if reason is None:
            # identity map for naming emitted variables: key only tested for membership / used to fetch a name
            if f.cls is not None and f.cls.name == "NameDatabase":
                reason = "identity map from injected objects to generated variable names (no ordering, no dispatch decision)"
            elif _only_formatted_into_text(pm, c):
                reason = "part of a generated name / virtual file name"
        ctx.ob(
            f"{f.key}:{short(c, 24)}",
            f.loc(c),
            f"`{short(pm.get(c, c), 50)}` does not feed a comparison, sort key or table key of the resolution ({reason or 'no accepted context'})",
            reason is not None,
            f"`{short(pm.get(c, c), 60)}` derives a value from a memory address or hash inside decision code: the outcome changes from run to run",
        )


# ------------------------------------------------------------------ R2: set order
SET, SETLIST = "set", "setlist"
DOS, DOS_ITEMS, LOS = "dict-of-sets", "items-of-dict-of-sets", "list-of-setlists"


class Kinds:
    """Flow-approximate kinds of names in one function: the kind at a line is that of the latest assignment above it."""

    def __init__(self, fi, attr_sets, param_kinds):
        self.fi = fi
        self.attr_sets = attr_sets
        self.events = {}  # name -> [(lineno, kind)]
        for p, k in param_kinds.items():
            self.events.setdefault(p, []).append((fi.node.lineno, k))
        self.rv = recv_name(fi) if fi.cls is not None else None
        self.attr_dos = set()

    def kind_of_name(self, name, line):
        best = None
        for ln, k in self.events.get(name, []):
            if ln <= line:
                best = k
        return best

    def kind(self, e, line):
        k = self._kind(e, line)
        return k

    def lambda_filter_len1(self, fn):
        """Does the predicate lambda require len(<its parameter>) == 1?"""
        if not isinstance(fn, ast.Lambda) or not fn.args.args:
            return False
        p = fn.args.args[0].arg
        return any(a[0] == "cmp" and a[1] == "Eq" and {src(a[2]), src(a[3])} == {f"len({p})", "1"} for a in atoms(fn.body))

    def _kind(self, e, line):
        if isinstance(e, (ast.Set, ast.SetComp)):
            return SET
        if isinstance(e, ast.Attribute) and self.rv and is_self_attr(e, selfname=self.rv) and e.attr in self.attr_dos:
            return DOS
        if isinstance(e, ast.Call) and isinstance(e.func, ast.Attribute) and e.func.attr == "items" and self.kind(e.func.value, line) == DOS:
            return DOS_ITEMS
        if isinstance(e, ast.Call) and call_name(e) in ("sorted", "list", "reversed", "tuple") and e.args and self.kind(e.args[0], line) in (DOS_ITEMS, LOS):
            return self.kind(e.args[0], line)
        if isinstance(e, ast.Call) and call_name(e) in ("itertools.takewhile", "takewhile", "filter", "itertools.dropwhile") and len(e.args) == 2 and self.kind(e.args[1], line) == LOS:
            return None if self.lambda_filter_len1(e.args[0]) else LOS
        if isinstance(e, (ast.ListComp, ast.GeneratorExp)):
            g = e.generators[0]
            ik = self.kind(g.iter, line)
            if ik == DOS_ITEMS and isinstance(g.target, ast.Tuple) and len(g.target.elts) == 2 and isinstance(g.target.elts[1], ast.Name):
                inner = Kinds.__new__(Kinds)
                inner.__dict__.update(self.__dict__)
                inner.events = dict(self.events)
                inner.events[g.target.elts[1].id] = [(0, SET)]
                ek = inner.kind(e.elt, line)
                if ek in (SET, SETLIST):
                    return LOS
            if ik == LOS and isinstance(g.target, ast.Name):
                return None
        if isinstance(e, ast.Subscript) and isinstance(e.slice, ast.Slice) and self.kind(e.value, line) == LOS:
            return LOS
        if isinstance(e, ast.BinOp) and isinstance(e.op, ast.Add) and LOS in (self.kind(e.left, line), self.kind(e.right, line)):
            return LOS
        if isinstance(e, ast.Name):
            return self.kind_of_name(e.id, line)
        if isinstance(e, ast.Attribute) and self.rv and is_self_attr(e, selfname=self.rv) and e.attr in self.attr_sets:
            return SET
        if isinstance(e, ast.Call):
            cn = call_name(e)
            if cn in ("set", "frozenset"):
                return SET
            if cn in ("list", "tuple", "sorted", "reversed") and e.args:
                k = self.kind(e.args[0], line)
                if k in (SET, SETLIST):
                    if cn == "sorted" and not any(kw.arg == "key" for kw in e.keywords):
                        return None
                    return SETLIST
            if isinstance(e.func, ast.Attribute) and e.func.attr == "get_ready":
                return SET
            return None
        if isinstance(e, ast.BinOp) and isinstance(e.op, (ast.BitAnd, ast.BitOr, ast.Sub, ast.BitXor)):
            if SET in (self.kind(e.left, line), self.kind(e.right, line)):
                return SET
        if isinstance(e, (ast.ListComp, ast.GeneratorExp)):
            k = self.kind(e.generators[0].iter, line)
            if k in (SET, SETLIST):
                return SETLIST
        if isinstance(e, ast.Subscript) and isinstance(e.slice, ast.Slice):
            if self.kind(e.value, line) == SETLIST:
                return SETLIST
        if isinstance(e, ast.Starred):
            return self.kind(e.value, line)
        return None

    def scan(self):
        for st in sorted(all_stmts(self.fi.node), key=lambda s: (s.lineno, s.col_offset)):
            if isinstance(st, ast.Assign) and len(st.targets) == 1 and isinstance(st.targets[0], ast.Name):
                self.events.setdefault(st.targets[0].id, []).append((st.lineno, self.kind(st.value, st.lineno)))
            elif isinstance(st, ast.AugAssign) and isinstance(st.target, ast.Name):
                k = self.kind_of_name(st.target.id, st.lineno)
                self.events.setdefault(st.target.id, []).append((st.lineno, k))
            elif isinstance(st, ast.Expr) and isinstance(st.value, ast.Call) and isinstance(st.value.func, ast.Attribute) and st.value.func.attr == "sort" and isinstance(st.value.func.value, ast.Name):
                n = st.value.func.value.id
                k = self.kind_of_name(n, st.lineno)
                if k == SETLIST and not any(kw.arg == "key" for kw in st.value.keywords):
                    self.events.setdefault(n, []).append((st.lineno, None))
            elif isinstance(st, ast.For) and isinstance(st.target, ast.Name):
                self.events.setdefault(st.target.id, []).append((st.lineno, None))


def _attr_sets(repo):
    """class -> attribute names initialised to a set"""
    out = {}
    for c in repo.all_classes():
        init = c.methods.get("__init__")
        if init is None:
            continue
        names = set()
        for n in ast.walk(init.node):
            if isinstance(n, ast.Assign) and isinstance(n.value, ast.Call) and call_name(n.value) == "set" and not n.value.args:
                for t in n.targets:
                    if isinstance(t, ast.Attribute):
                        names.add(t.attr)
        out[c.key] = names
    return out


def _attr_dos(repo):
    out = {}
    for c in repo.all_classes():
        init = c.methods.get("__init__")
        if init is None:
            continue
        names = set()
        for n in ast.walk(init.node):
            if isinstance(n, ast.Assign) and isinstance(n.value, ast.Call) and call_name(n.value) in ("defaultdict", "collections.defaultdict") and n.value.args and dotted(n.value.args[0]) == "set":
                for t in n.targets:
                    if isinstance(t, ast.Attribute):
                        names.add(t.attr)
        out[c.key] = names
    return out


def _guarded_by_len1(fnode, node, name):
    pm = parent_map(fnode)
    p = node
    while p in pm:
        p = pm[p]
        tests = []
        if isinstance(p, ast.If):
            tests = atoms(p.test)
        if isinstance(p, ast.BoolOp) and isinstance(p.op, ast.And):
            for v in p.values:
                tests += atoms(v)
        if isinstance(p, ast.comprehension):
            for c in p.ifs:
                tests += atoms(c)
        for a in tests:
            if a[0] == "cmp" and a[1] == "Eq" and {src(a[2]), src(a[3])} == {f"len({name})", "1"}:
                return True
    return False


def set_order_sites(ctx):
    repo = ctx.repo
    cg = get_callgraph(ctx)
    attr_sets = _attr_sets(repo)
    attr_dos = _attr_dos(repo)
    # one round of parameter flow: functions called with a set-typed argument
    param_kinds = {}
    funcs = list(repo.all_funcs())
    for rnd in range(3):
        changed = False
        for f in funcs:
            ks = Kinds(f, attr_sets.get(f.cls.key, set()) if f.cls else set(), param_kinds.get(f.key, {}))
            ks.attr_dos = attr_dos.get(f.cls.key, set()) if f.cls else set()
            ks.scan()
            for c in ast.walk(f.node):
                if not isinstance(c, ast.Call):
                    continue
                for t in cg.resolve_call(f, c):
                    ps = [p for p in t.params if not (t.cls is not None and p == recv_name(t))]
                    for i, a in enumerate(c.args):
                        k = ks.kind(a, getattr(c, "lineno", 0))
                        if k and i < len(ps):
                            cur = param_kinds.setdefault(t.key, {})
                            if cur.get(ps[i]) != k:
                                cur[ps[i]] = k
                                changed = True
        if not changed:
            break
    sites = []
    for f in funcs:
        ks = Kinds(f, attr_sets.get(f.cls.key, set()) if f.cls else set(), param_kinds.get(f.key, {}))
        ks.attr_dos = attr_dos.get(f.cls.key, set()) if f.cls else set()
        ks.scan()
        # elements of a list of set-ordered lists: comprehension / loop variables and predicate-lambda parameters
        binders = []
        comp_line = {}
        for c in ast.walk(f.node):
            if isinstance(c, (ast.ListComp, ast.SetComp, ast.GeneratorExp, ast.DictComp)):
                for g in c.generators:
                    comp_line[id(g)] = c.lineno
        for n in ast.walk(f.node):
            if isinstance(n, ast.comprehension):
                line = comp_line.get(id(n), getattr(n.iter, "lineno", 0))
                it = n.iter
                if isinstance(it, ast.Call) and call_name(it) == "enumerate" and it.args:
                    it = it.args[0]
                    tgt = n.target.elts[-1] if isinstance(n.target, ast.Tuple) else None
                else:
                    tgt = n.target.elts[-1] if isinstance(n.target, ast.Tuple) else n.target
                k = SETLIST if ks.kind(it, line) == LOS else None
                for nm in [x.id for x in ast.walk(n.target) if isinstance(x, ast.Name)]:
                    binders.append((line, nm, k if isinstance(tgt, ast.Name) and nm == tgt.id else None))
            if isinstance(n, ast.Call) and len(n.args) == 2 and isinstance(n.args[0], ast.Lambda) and n.args[0].args.args:
                k = SETLIST if call_name(n) in ("itertools.takewhile", "takewhile", "filter", "map", "itertools.dropwhile") and ks.kind(n.args[1], n.lineno) == LOS else None
                binders.append((n.lineno, n.args[0].args.args[0].arg, k))
        for line, nm, k in sorted(binders, key=lambda b: b[0]):
            # a comprehension variable shadows whatever the name meant before
            prev = ks.kind_of_name(nm, line)
            if k is not None or prev is not None:
                ks.events.setdefault(nm, []).append((line, k))
                ks.events[nm].sort(key=lambda e: e[0])
        pm = parent_map(f.node)
        own = set()
        for st in all_stmts(f.node):
            if isinstance(st, (ast.FunctionDef, ast.ClassDef)):
                continue
            from ..cfg import header_exprs

            for e in header_exprs(st):
                for n in ast.walk(e):
                    own.add(id(n))
        for n in ast.walk(f.node):
            if id(n) not in own:
                continue
            line = getattr(n, "lineno", 0)
            # S1 pop() on a set
            if isinstance(n, ast.Call) and isinstance(n.func, ast.Attribute) and n.func.attr == "pop" and not n.args and isinstance(n.func.value, ast.Name) and ks.kind(n.func.value, line) == SET:
                name = n.func.value.id
                # discharge: the popped value is used only under `if not <set>` that follows
                st = n
                while st in pm and not isinstance(st, ast.stmt):
                    st = pm[st]
                discharged = False
                if isinstance(st, ast.Assign) and isinstance(st.targets[0], ast.Name):
                    var = st.targets[0].id
                    uses = [u for u in ast.walk(f.node) if isinstance(u, ast.Name) and u.id == var and isinstance(u.ctx, ast.Load)]
                    ok_all = bool(uses)
                    for u in uses:
                        ok_all = ok_all and holds_at(ctx, f, u, lambda a, name=name: a[0] == "falsy" and dotted(a[1]) == name)
                    discharged = ok_all
                sites.append((f, n, "pop", name, discharged, "an arbitrary element is taken from the set"))
            # S5 next(iter(S))
            if isinstance(n, ast.Call) and call_name(n) == "next" and n.args and isinstance(n.args[0], ast.Call) and call_name(n.args[0]) == "iter" and ks.kind(n.args[0].args[0], line) in (SET, SETLIST):
                sites.append((f, n, "next-iter", src(n.args[0].args[0]), False, "the first element in set order is taken"))
            # S2/S6 positional access into a sequence in set order
            if isinstance(n, ast.Subscript) and isinstance(n.ctx, ast.Load) and ks.kind(n.value, line) == SETLIST:
                name = src(n.value)
                if isinstance(n.slice, ast.Slice):
                    # a slice is order-sensitive when it cuts the sequence (pairwise i+1: is S4's business)
                    kind = "slice"
                else:
                    kind = "index"
                discharged = _guarded_by_len1(f.node, n, name)
                sites.append((f, n, kind, name, discharged, "an element is selected by its position in set order"))
            # S3 first-match loop over a set
            if isinstance(n, ast.For) and ks.kind(n.iter, line) in (SET, SETLIST):
                exits = [x for b in n.body for x in ast.walk(b) if isinstance(x, (ast.Break, ast.Return))]
                if exits:
                    sites.append((f, n, "first-match-loop", src(n.iter), False, "the loop stops at the first element that qualifies, in set order"))
    return sites


def r2_set_order(ctx):
    repo = ctx.repo
    sites = set_order_sites(ctx)
    n = 0
    seen = {}
    sorter = A.layer_sorter(repo)
    # the signature analyser's use of its sets is decided by interpreting it under both iteration orders
    an = A.argument_analyzer(repo)
    from . import arganal

    n_before = len(ctx.obs)
    try:
        arganal.law(ctx, "set-order", "registration-order")
        analyser_decided = all(o.ok for o in ctx.obs[n_before:])
        analyser_interpreted = True
    except AnalysisError as e:
        del ctx.obs[n_before:]
        ctx.note(f"signature analyser not interpretable ({e}); its set-order sites are judged syntactically")
        analyser_decided = analyser_interpreted = False
    # the generator(s) that group the sorted candidates into ranks: nested in, or called from, the candidate ordering
    from .c05 import lookup_path

    multi = A.multimap(repo)
    rankers = [m for m in lookup_path(ctx, multi) if any(isinstance(c, ast.Call) and ((isinstance(c.func, ast.Attribute) and c.func.attr == "sort") or call_name(c) == "sorted") for c in ast.walk(m.node))]
    ranker = rankers[0] if len(rankers) == 1 else None
    rank_groupers = set()
    if ranker is not None:
        called = {call_name(c) for c in ast.walk(ranker.node) if isinstance(c, ast.Call)}
        for g in repo.all_funcs():
            is_gen = any(isinstance(x, (ast.Yield, ast.YieldFrom)) for x in ast.walk(g.node))
            if is_gen and (g.parent is ranker or (g.module is ranker.module and (g.name in called or f"self.{g.name}" in called))):
                rank_groupers.add(g)
    # the layer sorter compares each pair of applicable types in one direction only, in the (set) order it receives
    # them: decided on the calls it makes when abstractly executed, whatever loop it is written with
    from . import sortexec

    try:
        _, facts = sortexec.checked(ctx)
        if facts["one_way"]:
            key = f"{sorter.key}:one-way-pairs"
            seen[key] = True
            n += 1
            ctx.ob(
                key,
                sorter.loc(),
                "the layer sorter does not let the (set) order of the applicable types decide in which direction a pair is compared",
                False,
                "each pair of applicable types is compared once, in one direction only, in set order: with an order hook that is not mirror-symmetric the layers depend on the hash seed",
            )
    except AnalysisError as e:
        ctx.note(f"layer sorter not interpretable ({e}); its pairwise loop is judged syntactically")
    for f, node, kind, name, discharged, why in sites:
        ctx.touch(f)
        if f.cls is an and analyser_interpreted:
            # reported (or cleared) by the interpretation-based obligations above
            continue
        # S4: pairwise one-way comparison (enumerate + tail slice) is reported once, under its own key
        key_kind = kind
        # a private helper that did not exist in the reference tree stands for the function it was cut out of
        lifted = A._lift(repo, [f]) if f.cls is None and f.parent is None else [f]
        owner = lifted[0] if len(lifted) == 1 else f
        if owner is sorter and f is not sorter:
            f = sorter
        if f is sorter and kind == "slice":
            key_kind = "one-way-pairs"
        if kind == "slice" and f is not sorter and not discharged:
            # a tail slice handed to the same consumer that also takes [0] is the same construct
            key_kind = "index"
        key = f"{f.key}:{key_kind}"
        if f in rank_groupers:
            # named by role: the generator that groups the sorted candidates into ranks, wherever it lives
            key = f"{ranker.key}:rank-grouping:{key_kind}"
        if key in seen:
            continue
        seen[key] = True
        n += 1
        if key_kind == "one-way-pairs":
            why = "each pair of applicable types is compared once, in one direction only, in set order: with an order hook that is not mirror-symmetric the layers depend on the hash seed"
        ctx.ob(
            key,
            f.loc(node),
            f"`{short(node, 50)}`: the iteration order of a set does not select the outcome ({'discharged: only used when the collection has one element' if discharged else kind})",
            discharged,
            f"`{short(node, 60)}` consumes `{name}`, whose order is the iteration order of a set: {why}",
        )
    ctx.require(n >= 2, "the set-order inventory found fewer sites than the known ones (type tables, candidate set)")


def r3_order_free_aggregates(ctx):
    from .c10 import r2_any_dependent_member_wraps, r4_table_laws

    r2_any_dependent_member_wraps(ctx)
    r4_table_laws(ctx)


def _more(name):
    def run(ctx):
        from . import more

        getattr(more, name)(ctx)

    run.__name__ = name
    return run


RULES = [
    ("C06.R3", "P1", r3_order_free_aggregates, "decisions about a rank are order-free aggregates (any over the rank; table only on disjoint keys)"),
    ("C06.R1", "P1", r1_no_address_in_decisions, "no address- or hash-derived value in a decision"),
    ("C06.R2", "P1", r2_set_order, "set order must not reach an order-sensitive consumer"),
    ("C06.R4", "P1", _more("sort_key_refines_dominance"), "the sort key refines dominance (interpreted)"),
    ("C06.R5", "P1", _more("recompiler_globals_are_unique"), "globals planted by the re-compiler are named uniquely"),
]
