"""The candidate ranking of the table (`MultiTypeMap.mro`), abstractly executed on symbolic per-argument tables.

Nothing of /repo is imported or run.  `self` is a record whose `maps` are stand-ins for the per-argument tables:
`maps[key][cls]` answers, for the class found at that argument, which (method, signature) pairs apply there and at
which level (KeyError when none does); signatures are records with `req_pos`, `max_pos`, `vararg`, `req_names`;
priorities / tiebreaks are dictionaries.  `Candidate` and the rank grouping are the package's own source, interpreted.

Reference (C01: only applicable methods run; C03: a method the call shape fits is not rejected; C07: ranks):
  * the candidates are exactly the methods that apply at *every* argument of the key (positional by index, keyword by
    name; a vararg method applies at positions from its max_pos on), whose signature accepts the number of positionals
    (req_pos <= n <= max_pos, no upper bound for vararg) and whose required keyword names were all supplied;
  * each candidate's specificity is its level at each argument, in key order;
  * the ranks partition the candidates; a candidate that beats another (higher priority, or same priority and at least
    as specific everywhere and more somewhere) is in an earlier rank;
  * the set of applicable code objects recorded for the key is that of the candidates.
"""

import ast

from .. import anchors as A
from ..metainterp import HostInterp, Raised, Record
from ..model import AnalysisError
from .common import recv_name


class Sig(Record):
    def __repr__(self):
        return f"<sig {self.name}>"


class Handler(Record):
    def __repr__(self):
        return self.name

    __hash__ = object.__hash__


class ArgTable(dict):
    """maps[key]: class -> {(handler, sig): level}; a class nothing applies to raises KeyError like the real table."""


def H(name, req, mx, vararg=False, req_names=(), priority=0, tiebreak=0, at=None):
    return dict(name=name, req=req, mx=mx, vararg=vararg, req_names=frozenset(req_names), priority=priority, tiebreak=tiebreak, at=at or {})


# key: the argument classes of the call; handlers: where each is registered (argument key -> level), -1 = its *args
SCENARIOS = {
    "arity-and-keywords": dict(
        key=("C0", "C1", ("k", "CK")),
        handlers=[
            H("full", 2, 2, req_names=("k",), at={0: 2, 1: 1, "k": 1}),
            H("optional-third", 1, 3, at={0: 1, 1: 0, "k": 0}),
            H("needs-three", 3, 3, at={0: 1, 1: 1, "k": 1}),
            H("at-most-one", 1, 1, at={0: 3, 1: 3, "k": 3}),
            H("needs-other-keyword", 2, 2, req_names=("k", "z"), at={0: 1, 1: 1, "k": 1}),
            H("wrong-type-at-1", 2, 2, at={0: 3, "k": 3}),
            H("no-such-keyword", 2, 2, at={0: 3, 1: 3}),
        ],
        want={"full": (2, 1, 1), "optional-third": (1, 0, 0)},
        before=[("full", "optional-third")],
    ),
    "vararg": dict(
        key=("C0", "C1", "C2"),
        handlers=[
            H("fixed-three", 3, 3, at={0: 2, 1: 2, 2: 2}),
            H("star-args", 1, 1, vararg=True, at={0: 1, -1: 0}),
            H("star-args-needs-four", 4, 4, vararg=True, at={0: 1, 1: 1, 2: 1, -1: 0}),
            H("two-only", 2, 2, at={0: 3, 1: 3}),
        ],
        want={"fixed-three": (2, 2, 2), "star-args": (1, 0, 0)},
        before=[("fixed-three", "star-args")],
    ),
    "required-keyword-and-no-keyword-supplied": dict(
        key=("C0",),
        handlers=[H("needs-keyword", 1, 1, req_names=("k",), at={0: 2}), H("plain", 1, 1, at={0: 1})],
        want={"plain": (1,)},
        before=[],
    ),
    "nothing-at-one-argument": dict(key=("C0", "C1"), handlers=[H("first-only", 1, 2, at={0: 1}), H("second-only", 1, 2, at={1: 1})], want={}, before=[]),
    "nothing-at-the-first-argument": dict(key=("C0", "C1", "C2"), handlers=[H("later-only", 3, 3, at={1: 1, 2: 1}), H("last-only", 3, 3, at={2: 0})], want={}, before=[]),
    "priority-first": dict(
        key=("C0",),
        handlers=[H("specific", 1, 1, at={0: 3}), H("general-but-prior", 1, 1, priority=1, at={0: 0}), H("middle", 1, 1, at={0: 1})],
        want={"specific": (3,), "general-but-prior": (0,), "middle": (1,)},
        before=[("general-but-prior", "specific"), ("specific", "middle")],
    ),
    "replaced-signature": dict(
        key=("C0",),
        handlers=[H("new", 1, 1, at={0: 2}), H("old", 1, 1, tiebreak=-1, at={0: 2}), H("fallback", 1, 1, at={0: 0})],
        want={"new": (2,), "old": (2,), "fallback": (0,)},
        before=[("new", "old"), ("old", "fallback")],
    ),
    "incomparable": dict(
        key=("C0", "C1"),
        handlers=[H("left", 2, 2, at={0: 2, 1: 0}), H("right", 2, 2, at={0: 0, 1: 2}), H("both-general", 2, 2, at={0: 0, 1: 0})],
        want={"left": (2, 0), "right": (0, 2), "both-general": (0, 0)},
        before=[("left", "both-general"), ("right", "both-general")],
        tied=[("left", "right")],
    ),
}


def execute(ctx, name):
    repo = ctx.repo
    multi = A.multimap(repo)
    from .c05 import lookup_path

    rankers = [m for m in lookup_path(ctx, multi) if any(isinstance(c, ast.Call) and ((isinstance(c.func, ast.Attribute) and c.func.attr == "sort") or (isinstance(c.func, ast.Name) and c.func.id == "sorted")) for c in ast.walk(m.node))]
    if len(rankers) != 1:
        raise AnalysisError(f"{multi.key}: candidate ranking method not found")
    rk = rankers[0]
    sc = SCENARIOS[name]
    handlers = {}
    maps = {}
    priorities, tiebreaks = {}, {}
    classes_at = {}
    for entry in sc["key"]:
        pass
    for i, entry in enumerate(sc["key"]):
        k, cls = (entry[0], entry[1]) if isinstance(entry, tuple) else (i, entry)
        classes_at[k] = cls
    for spec in sc["handlers"]:
        h = Handler(name=spec["name"])
        h.__code__ = Record(kind="code", of=spec["name"])
        sig = Sig(name=spec["name"], req_pos=spec["req"], max_pos=spec["mx"], vararg=spec["vararg"], req_names=spec["req_names"], priority=spec["priority"])
        handlers[spec["name"]] = h
        if spec["priority"]:
            priorities[h] = spec["priority"]
        if spec["tiebreak"]:
            tiebreaks[h] = spec["tiebreak"]
        for k, level in spec["at"].items():
            if k == -1:
                # the *args table answers for any class
                t = maps.setdefault(-1, ArgTable())
                for cls in set(classes_at.values()):
                    t.setdefault(cls, {})[(h, sig)] = level
            else:
                maps.setdefault(k, ArgTable()).setdefault(classes_at[k], {})[(h, sig)] = level
    for k in classes_at:
        maps.setdefault(k, ArgTable())
    me = Record(maps=maps, priorities=priorities, tiebreaks=tiebreaks, all={}, errors={}, dependent={}, type_tuples={}, name="tbl")
    # the candidate record class of the module and other record-like classes
    classes, record_fields = {}, {}
    for c in rk.module.classes.values():
        fields = [st.target.id for st in c.node.body if isinstance(st, ast.AnnAssign) and isinstance(st.target, ast.Name)]
        if fields and "__init__" not in c.methods and c is not multi:
            classes[c.name] = {n: m.node for n, m in c.methods.items()}
            record_fields[c.name] = fields
    methods = {n: m.node for n, m in multi.methods.items()}
    funcs = {n: f.node for n, f in rk.module.funcs.items() if f.parent is None and f.cls is None}
    hi = HostInterp(methods, me, {}, globals_env={}, classes=classes, functions=funcs)
    hi.record_fields = record_fields
    hi.host_types = hi.host_types + (ArgTable,)
    failure = None
    try:
        out = hi.call_function(rk.node, [me, tuple(sc["key"])], {}, {})
    except Raised as r:
        out, failure = [], f"raises {r.what}"
    except (KeyError, IndexError, TypeError, AttributeError, ValueError) as ex:
        # the interpreted code failed on the stand-in tables the way it would on the real ones
        out, failure = [], f"raises {type(ex).__name__}: {ex}"
    ranks = []
    for group in out or []:
        ranks.append([getattr(getattr(c, "handler", c), "name", "?") for c in group])
    spec = {}
    for group in out or []:
        for c in group:
            spec[getattr(c.handler, "name", "?")] = tuple(getattr(c, "specificity", ()))
    recorded = me.all.get(tuple(sc["key"]))
    return rk, ranks, spec, recorded, handlers, failure


def check(ctx, name):
    sc = SCENARIOS[name]
    rk, ranks, spec, recorded, handlers, failure = execute(ctx, name)
    problems = {"candidates": [], "specificity": [], "ranks": [], "applicable-set": []}
    if failure:
        for k in problems:
            problems[k].append(f"the ranking {failure}")
        return rk, problems
    flat = [h for r in ranks for h in r]
    want = sc["want"]
    if sorted(set(flat)) != sorted(want):
        extra = sorted(set(flat) - set(want))
        lost = sorted(set(want) - set(flat))
        problems["candidates"].append((f"{extra} become candidates although they do not fit the call (argument types, number of positionals or required keywords)" if extra else "") + (f" {lost} fit the call but are not candidates" if lost else ""))
    if len(flat) != len(set(flat)):
        problems["ranks"].append(f"a method appears in two ranks: {ranks}")
    for h, s in want.items():
        if h in spec and spec[h] != s:
            problems["specificity"].append(f"{h} is given specificity {spec[h]}, its levels at the arguments are {s}")
    pos = {h: i for i, r in enumerate(ranks) for h in r}
    for a, b in sc.get("before", []):
        if a in pos and b in pos and not pos[a] < pos[b]:
            problems["ranks"].append(f"{a} beats {b} but is ranked {'with' if pos[a] == pos[b] else 'after'} it ({ranks})")
    for a, b in sc.get("tied", []):
        if a in pos and b in pos and pos[a] != pos[b]:
            problems["ranks"].append(f"{a} and {b} are incomparable but land in different ranks ({ranks}): the ambiguity is not reported")
    if any(not r for r in ranks):
        problems["ranks"].append("an empty rank is produced")
    if want or recorded is not None:
        got_codes = {getattr(c, "of", None) for c in (recorded or ()) if c is not None}
        if got_codes != set(want):
            problems["applicable-set"].append(f"the applicable-code set recorded for the key is {sorted(x for x in got_codes if x)}, the candidates are {sorted(want)}")
    return rk, problems


LAW_TEXT = {
    "candidates": ("the candidates are exactly the methods that apply at every argument, accept the number of positionals and got all their required keywords", "a method runs on a call it does not accept, or a method the call fits is rejected"),
    "specificity": ("a candidate's specificity is its level at each argument, in key order", "methods are ranked on other levels than their own"),
    "ranks": ("the ranks partition the candidates and a method that beats another is ranked before it; incomparable methods share a rank", "call_next visits methods out of order, twice or not at all, or an ambiguity goes unreported"),
    "applicable-set": ("the applicable-code set recorded for the key is that of the candidates", "call_next decides 'am I part of this chain' on another set than the chain"),
}


def law(ctx, *names, scenarios=None):
    cache = ctx.cache.setdefault("mro_checked", {})
    for sc in scenarios or SCENARIOS:
        if sc not in cache:
            cache[sc] = check(ctx, sc)
        rk, probs = cache[sc]
        ctx.touch(rk)
        for name in names:
            text, why = LAW_TEXT[name]
            ps = [p for p in probs[name] if p.strip()]
            ctx.ob(f"{rk.key}:{name}:{sc}", rk.loc(), f"[{sc}] {text} (ranking abstractly executed on stand-in argument tables)", not ps, "; ".join(ps[:2]) + ": " + why)
