"""The layer sorter (`sort_types`), abstractly executed: which types it ranks, in which layers, and which pairs it
compares - whatever loops, helpers or comprehensions it is written with.

The function is interpreted by `metainterp.HostInterp` (nothing of /repo is imported or run).  The subtype test and
the order function are stubs answering from a table and logging their calls; `graphlib.TopologicalSorter` is the
standard library's.  Inputs: four symbolic types, three of them applicable, under every acyclic assignment of
LESS / MORE / NONE to the three pairs.

Reference: the layers are the topological generations of the applicable types under "a before b iff a is more
specific than b"; inapplicable types appear nowhere; every pair of applicable types reaches the order function.
"""

import ast
import graphlib
import itertools

from .. import anchors as A
from ..metainterp import HostFn, HostInterp, Raised, Record
from ..model import AnalysisError

STDLIB = ("itertools", "functools", "graphlib", "math", "operator")


class Ty:
    """A stand-in type: all are instances of one class and carry the flags a shortcut might look at."""

    keyable_type = True
    exclusive_type = True

    def __init__(self, name):
        self.name = name
        self.__name__ = name

    def __repr__(self):
        return self.name

    def __lt__(self, other):
        return self.name < other.name


T = {n: Ty(n) for n in ("T0", "T1", "T2", "X", "Q")}


def _imports(mod):
    """names the module imports from a few standard library modules -> host objects"""
    out = {}
    for st in ast.walk(mod.tree):
        if isinstance(st, ast.ImportFrom) and st.level == 0 and st.module in STDLIB:
            m = __import__(st.module)
            for al in st.names:
                if hasattr(m, al.name):
                    out[al.asname or al.name] = getattr(m, al.name)
        elif isinstance(st, ast.Import):
            for al in st.names:
                if al.name in STDLIB:
                    out[al.asname or al.name] = __import__(al.name)
    return out


def run(ctx, relation, applicable=("T0", "T1", "T2"), extra=("X",), order_of_avail=None):
    """-> (layers as list of lists, list of (a, b) order queries, list of subtype queries)"""
    repo = ctx.repo
    f = A.layer_sorter(repo)
    sc = A.subclasscheck_fn(repo)
    to = A.typeorder_fn(repo)
    en = A.order_enum(repo)
    asked, tested = [], []

    def typeorder(a, b):
        a, b = getattr(a, "name", a), getattr(b, "name", b)
        asked.append((a, b))
        if a == b:
            return "SAME"
        if (a, b) in relation:
            return relation[(a, b)]
        r = relation.get((b, a), "NONE")
        return {"LESS": "MORE", "MORE": "LESS"}.get(r, r)

    def subclasscheck(c, t):
        c, t = getattr(c, "name", c), getattr(t, "name", t)
        tested.append((c, t))
        return c == "Q" and t in applicable

    genv = {to.name: typeorder, sc.name: subclasscheck, en.name: Record(LESS="LESS", MORE="MORE", NONE="NONE", SAME="SAME")}
    genv.update(_imports(f.module))
    genv.setdefault("TopologicalSorter", graphlib.TopologicalSorter)
    funcs = {n: g.node for n, g in f.module.funcs.items() if g.parent is None and g.cls is None and g is not f and g is not sc and g is not to}
    hi = HostInterp({}, Record(), {}, globals_env=genv, classes={}, functions=funcs)
    hi.host_types = hi.host_types + (graphlib.TopologicalSorter, Ty)
    avail = list(order_of_avail or (list(applicable) + list(extra)))
    try:
        out = hi.call_function(f.node, [T["Q"], [T[a] for a in avail]], {}, {})
    except Raised as r:
        raise AnalysisError(f"{f.key}: raises {r.what} on a consistent order")
    layers = [sorted(getattr(t, "name", t) for t in x) for x in out]
    return layers, asked, tested


def _acyclic(rel, items):
    before = {x: set() for x in items}
    for (a, b), r in rel.items():
        if r == "LESS":
            before[b].add(a)
        elif r == "MORE":
            before[a].add(b)
    ts = graphlib.TopologicalSorter(before)
    try:
        ts.prepare()
    except graphlib.CycleError:
        return None
    layers = []
    while ts.is_active():
        ready = sorted(ts.get_ready())
        layers.append(ready)
        ts.done(*ready)
    return layers


def check(ctx):
    """-> dict law -> problems, plus facts: {'one_way': bool, 'cases': n}"""
    items = ("T0", "T1", "T2")
    pairs = list(itertools.combinations(items, 2))
    problems = {"only-applicable": [], "layers": [], "every-pair": []}
    one_way = True
    n = 0
    for vals in itertools.product(("LESS", "MORE", "NONE"), repeat=len(pairs)):
        rel = dict(zip(pairs, vals))
        want = _acyclic(rel, items)
        if want is None:
            continue
        for avail in (list(items) + ["X"], ["X"] + list(reversed(items))):
            n += 1
            layers, asked, tested = run(ctx, rel, order_of_avail=avail)
            flat = [t for layer in layers for t in layer]
            if "X" in flat or any(a == "X" or b == "X" for a, b in asked):
                problems["only-applicable"].append(f"the inapplicable type X is ranked or compared (layers {layers})")
            if sorted(flat) != sorted(items) or layers != want:
                problems["layers"].append(f"with {dict((k, v) for k, v in rel.items() if v != 'NONE')} the layers are {layers}, the order requires {want}")
            for a, b in pairs:
                if (a, b) not in asked and (b, a) not in asked:
                    problems["every-pair"].append(f"the pair ({a}, {b}) never reaches the order function")
                if (a, b) in asked and (b, a) in asked:
                    one_way = False
    for k in problems:
        problems[k] = problems[k][:3]
    return problems, {"one_way": one_way, "cases": n}


def checked(ctx):
    if "sort_types_checked" not in ctx.cache:
        ctx.cache["sort_types_checked"] = check(ctx)
    return ctx.cache["sort_types_checked"]


LAW_TEXT = {
    "only-applicable": ("only the types the queried class is a subtype of are ranked and compared", "a registered type the argument's class is not a subtype of gets a level and its method becomes a candidate"),
    "layers": ("the layers are the topological generations of the applicable types: a more specific type comes in an earlier layer, unrelated types share a layer, nothing is lost or repeated", "a less specific method outranks a more specific one, or a type is dropped from the ranking"),
    "every-pair": ("every pair of applicable types reaches the order function", "two related types are never compared and land in one layer: the call is ambiguous although one method is more specific"),
}


def law(ctx, *names):
    f = A.layer_sorter(ctx.repo)
    ctx.touch(f)
    problems, facts = checked(ctx)
    for name in names:
        text, why = LAW_TEXT[name]
        ps = problems[name]
        ctx.ob(f"{f.key}:{name}", f.loc(), f"{text} (sorter abstractly executed on {facts['cases']} orders)", not ps, "; ".join(ps[:2]) + ": " + why)
